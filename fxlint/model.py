"""A1/A2 - program model: parse the five modules of fxpmath, index every def under a
qualified name, class-level aliases, decorators, nested defs; resolve call targets.

Nothing from the repository is imported or executed: only ``ast.parse`` on the text.
"""
import ast
import hashlib
import os

MODULES = ("__init__", "callbacks", "functions", "objects", "utils")


class AnalysisError(Exception):
    """Anchor vanished / construct outside the vocabulary: exit code 2, never a pass."""


def repo_root():
    return os.environ.get("FXLINT_REPO", "/repo")


def dotted(node):
    """'self.config.rounding' for an attribute chain rooted at a Name, else None."""
    parts = []
    while isinstance(node, ast.Attribute):
        parts.append(node.attr)
        node = node.value
    if isinstance(node, ast.Name):
        parts.append(node.id)
        return ".".join(reversed(parts))
    return None


def src(node):
    try:
        return ast.unparse(node)
    except Exception:  # pragma: no cover
        return "<%s>" % type(node).__name__


class Func:
    def __init__(self, qualname, node, module, cls, parent):
        self.qualname = qualname
        self.node = node
        self.module = module          # module short name, e.g. 'objects'
        self.cls = cls                # class name or None
        self.parent = parent          # enclosing Func or None
        self.nested = {}              # name -> Func
        self.decorators = [src(d) for d in node.decorator_list]

    @property
    def name(self):
        return self.node.name

    @property
    def params(self):
        a = self.node.args
        return [x.arg for x in a.posonlyargs + a.args + a.kwonlyargs]

    @property
    def kwarg(self):
        return self.node.args.kwarg.arg if self.node.args.kwarg else None

    def defaults(self):
        """param -> default expr"""
        a = self.node.args
        pos = a.posonlyargs + a.args
        out = {}
        for p, d in zip(pos[len(pos) - len(a.defaults):], a.defaults):
            out[p.arg] = d
        for p, d in zip(a.kwonlyargs, a.kw_defaults):
            if d is not None:
                out[p.arg] = d
        return out

    def where(self, node=None):
        n = node if node is not None and hasattr(node, "lineno") else self.node
        return "fxpmath/%s.py:%d %s" % (self.module, n.lineno, self.qualname)

    def __repr__(self):
        return "<Func %s>" % self.qualname


class Program:
    def __init__(self, root=None, overrides=None):
        """overrides: {module short name: source text} analysed instead of the file on disk (in-memory variants for self-validation)"""
        self.overrides = overrides or {}
        self.root = root or repo_root()
        self.modules = {}      # name -> ast.Module
        self.sources = {}      # name -> text
        self.funcs = {}        # qualname -> Func
        self.classes = {}      # 'objects.Fxp' -> ClassDef
        self.class_alias = {}  # (cls, alias) -> target name
        self.class_attrs = {}  # (cls, name) -> value expr for non-alias class-level assigns
        self.module_imports = {}  # module -> {local name: ('module'|'name', target)}
        self.module_assigns = {}  # module -> {name: value expr}
        self.normalized = {}      # module -> what the load-time normaliser rewrote
        self.renamed = {}         # new private name -> pinned qualname (N0)
        self._load()

    # ------------------------------------------------------------------ loading
    def _load(self):
        h = hashlib.sha256()
        trees = {}
        for m in MODULES:
            p = os.path.join(self.root, "fxpmath", m + ".py")
            if m in self.overrides:
                text = self.overrides[m]
            else:
                try:
                    text = open(p, encoding="utf-8").read()
                except OSError as e:
                    raise AnalysisError("module missing: %s (%s)" % (p, e))
            try:
                trees[m] = ast.parse(text, filename=p)
            except SyntaxError as e:
                raise AnalysisError("syntax error in %s: %s" % (p, e))
            self.sources[m] = text
            h.update(m.encode() + b"\0" + text.encode() + b"\0")
        self.digest = h.hexdigest()
        normalise = os.environ.get("FXLINT_NO_NORMALIZE") != "1"
        if normalise:
            from .normalize import normalize_module, undo_private_renames
            from .pinned import PINNED_FUNCS, PINNED_GLOBALS, PINNED_PRIVATE_PARAMS, PINNED_PRIVATE_BODY
            self.renamed = undo_private_renames(trees, PINNED_FUNCS, PINNED_PRIVATE_PARAMS, PINNED_PRIVATE_BODY)
        for m in MODULES:
            tree = trees[m]
            if normalise:
                tree, info = normalize_module(m, tree, PINNED_FUNCS, PINNED_GLOBALS)
                if self.renamed:
                    info["private_functions_renamed_back"] = dict(self.renamed)
                self.normalized[m] = info
            self.modules[m] = tree
            self._index_module(m, tree)

    def _index_module(self, m, tree):
        imports = {}
        assigns = {}
        self.module_imports[m] = imports
        self.module_assigns[m] = assigns
        for st in ast.walk(tree):
            pass
        for st in tree.body:
            self._index_stmt(m, st, None, None, imports, assigns)

    def _index_stmt(self, m, st, cls, parent, imports, assigns):
        if isinstance(st, (ast.FunctionDef, ast.AsyncFunctionDef)):
            self._index_func(m, st, cls, parent)
        elif isinstance(st, ast.ClassDef) and parent is None and cls is None:
            self.classes["%s.%s" % (m, st.name)] = st
            for s2 in st.body:
                if isinstance(s2, (ast.FunctionDef, ast.AsyncFunctionDef)):
                    self._index_func(m, s2, st.name, None)
                elif isinstance(s2, ast.Assign) and len(s2.targets) == 1 and isinstance(s2.targets[0], ast.Name):
                    tgt = s2.targets[0].id
                    if isinstance(s2.value, ast.Name):
                        self.class_alias[(st.name, tgt)] = s2.value.id
                    else:
                        self.class_attrs[(st.name, tgt)] = s2.value
        elif isinstance(st, ast.ImportFrom) and parent is None and cls is None:
            for a in st.names:
                imports[a.asname or a.name] = ("from", (st.module or "").lstrip("."), a.name, st.level)
        elif isinstance(st, ast.Import) and parent is None and cls is None:
            for a in st.names:
                imports[a.asname or a.name] = ("import", a.name)
        elif isinstance(st, ast.Assign) and parent is None and cls is None:
            for t in st.targets:
                if isinstance(t, ast.Name):
                    assigns[t.id] = st.value
        elif isinstance(st, (ast.Try, ast.If)) and parent is None and cls is None:
            for s2 in getattr(st, "body", []) + getattr(st, "orelse", []):
                self._index_stmt(m, s2, cls, parent, imports, assigns)
            for h in getattr(st, "handlers", []):
                for s2 in h.body:
                    self._index_stmt(m, s2, cls, parent, imports, assigns)

    def _index_func(self, m, node, cls, parent):
        if parent is not None:
            q = parent.qualname + "." + node.name
        elif cls is not None:
            q = "%s.%s.%s" % (m, cls, node.name)
        else:
            q = "%s.%s" % (m, node.name)
        # property setter: keep getter under plain name, setter under name + '.setter'
        for d in node.decorator_list:
            if isinstance(d, ast.Attribute) and d.attr == "setter":
                q += ".setter"
        f = Func(q, node, m, cls, parent)
        self.funcs[q] = f
        if parent is not None:
            parent.nested[node.name] = f
        for sub in self._nested_defs(node):
            self._index_func(m, sub, cls, f)
        return f

    @staticmethod
    def _nested_defs(fnode):
        """FunctionDefs directly nested in fnode (at any statement depth, not inside other defs)."""
        out = []

        def walk(stmts):
            for s in stmts:
                if isinstance(s, (ast.FunctionDef, ast.AsyncFunctionDef)):
                    out.append(s)
                    continue
                for fld in ("body", "orelse", "finalbody"):
                    if hasattr(s, fld) and isinstance(getattr(s, fld), list):
                        walk(getattr(s, fld))
                for h in getattr(s, "handlers", []):
                    walk(h.body)
        walk(fnode.body)
        return out

    # ------------------------------------------------------------------ lookup
    def func(self, qualname, required=True):
        f = self.funcs.get(qualname)
        if f is None and required:
            raise AnalysisError("anchor not found: %s" % qualname)
        return f

    def method(self, cls, name, required=True, module="objects"):
        seen = set()
        while (cls, name) in self.class_alias and name not in seen:
            seen.add(name)
            name = self.class_alias[(cls, name)]
        return self.func("%s.%s.%s" % (module, cls, name), required)

    def methods(self, cls, module="objects"):
        pre = "%s.%s." % (module, cls)
        return {q[len(pre):]: f for q, f in self.funcs.items()
                if q.startswith(pre) and f.parent is None}

    def aliases_of(self, cls):
        return {a: t for (c, a), t in self.class_alias.items() if c == cls}

    def all_funcs(self):
        return list(self.funcs.values())

    # ------------------------------------------------------------------ call resolution
    def local_imports(self, f):
        """function-local 'from .functions import add' statements, innermost first."""
        c = self.__dict__.setdefault("_li_cache", {})
        if f.qualname not in c:
            c[f.qualname] = self._local_imports(f)
        return c[f.qualname]

    def _local_imports(self, f):
        out = {}
        chain = []
        g = f
        while g is not None:
            chain.append(g)
            g = g.parent
        for g in reversed(chain):
            for n in ast.walk(g.node):
                if isinstance(n, ast.ImportFrom):
                    for a in n.names:
                        out[a.asname or a.name] = ((n.module or "").lstrip("."), a.name)
        return out

    def resolve_name(self, f, name):
        """Resolve a bare callable name used inside function f -> qualname | 'ext:...' | None."""
        g = f
        while g is not None:
            if name in g.nested:
                return g.nested[name].qualname
            g = g.parent
        li = self.local_imports(f)
        if name in li:
            mod, nm = li[name]
            q = "%s.%s" % (mod, nm)
            if q in self.funcs:
                return q
            if q in self.classes:
                return "class:" + q
        q = "%s.%s" % (f.module, name)
        if q in self.funcs:
            return q
        if q in self.classes:
            return "class:" + q
        imp = self.module_imports.get(f.module, {}).get(name)
        if imp and imp[0] == "from":
            _, mod, nm, level = imp
            q = "%s.%s" % (mod, nm) if mod else None
            if q and q in self.funcs:
                return q
            if q and q in self.classes:
                return "class:" + q
            if level and not mod and nm in self.modules:
                return "module:" + nm
            return "ext:%s.%s" % (mod, nm)
        if imp and imp[0] == "import":
            return "extmod:" + imp[1]
        return None

    def resolve_call(self, f, call, fxp_names=()):
        c = self.__dict__.setdefault("_rc_cache", {})
        k = (f.qualname, id(call), tuple(fxp_names))
        if k not in c:
            c[k] = (self._resolve_call(f, call, fxp_names), call)   # keep node alive so ids stay unique
        return c[k][0]

    def _resolve_call(self, f, call, fxp_names=()):
        """Resolve the callee of an ast.Call inside f.

        Returns a qualname of a repo function, 'class:objects.Fxp' for constructor calls,
        'np.<name>' / 'copy.<name>' / 'math.<name>' for library calls, 'builtin:<name>',
        'method:<attr>' for a method call on an untyped receiver, or None.
        """
        fn = call.func
        if isinstance(fn, ast.Name):
            r = self.resolve_name(f, fn.id)
            if r is not None:
                return r
            return "builtin:" + fn.id
        if isinstance(fn, ast.Attribute):
            base = fn.value
            d = dotted(base)
            if d is not None:
                head = d.split(".")[0]
                if d == "self" and f.cls:
                    m = self.method(f.cls, fn.attr, required=False, module=f.module)
                    if m is not None:
                        return m.qualname
                    return "method:" + fn.attr
                if d == "self.__class__" or (d == "self" and False):
                    return "class:%s.%s" % (f.module, f.cls)
                if d == "self.config":
                    m = self.method("Config", fn.attr, required=False)
                    if m is not None:
                        return m.qualname
                if d in ("np", "numpy"):
                    return "np." + fn.attr
                if d in ("copy", "math", "re"):
                    return "%s.%s" % (d, fn.attr)
                if d == "utils":
                    q = "utils." + fn.attr
                    return q if q in self.funcs else "ext:" + q
                if d in fxp_names or head in fxp_names and d == head:
                    m = self.method("Fxp", fn.attr, required=False)
                    if m is not None:
                        return m.qualname
            # self.__class__(...)
            if isinstance(fn, ast.Attribute) and fn.attr == "__class__":
                return None
            return "method:" + fn.attr
        return None

    def is_fxp_ctor(self, f, call):
        fn = call.func
        if isinstance(fn, ast.Name):
            return self.resolve_name(f, fn.id) == "class:objects.Fxp"
        if isinstance(fn, ast.Attribute) and fn.attr == "__class__" and dotted(fn.value) == "self" and f.cls == "Fxp":
            return True
        return False


def kw(call, name, pos=None):
    """keyword (or positional #pos) argument expr of a call, else None"""
    for k in call.keywords:
        if k.arg == name:
            return k.value
        if k.arg is None:
            # f(**{'name': v}) / f(**dict(name=v)) / f(**dict(kw, name=v)): the spread of a literal record sets the keyword
            v = k.value
            if isinstance(v, ast.Dict):
                for dk, dv in zip(v.keys, v.values):
                    if isinstance(dk, ast.Constant) and dk.value == name:
                        return dv
            elif isinstance(v, ast.Call) and isinstance(v.func, ast.Name) and v.func.id == "dict":
                for k2 in v.keywords:
                    if k2.arg == name:
                        return k2.value
    if pos is not None and len(call.args) > pos and not any(isinstance(a, ast.Starred) for a in call.args[:pos + 1]):
        return call.args[pos]
    return None


def calls_in(node):
    """Call nodes in evaluation-ish order (inner before outer)."""
    out = []

    def visit(n):
        if isinstance(n, (ast.Lambda, ast.FunctionDef, ast.AsyncFunctionDef)) and n is not node:
            return
        for c in ast.iter_child_nodes(n):
            visit(c)
        if isinstance(n, ast.Call):
            out.append(n)
    visit(node)
    return out
