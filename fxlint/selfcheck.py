"""Self-validation of the checkers (DESIGN section 6): the committed corpora of seeded breaks (must be reported) and benign
variants (must stay silent) are applied to scratch copies of the *current* tree and analysed through the same rule entry points.
Nothing is executed; scratch copies live in a temporary directory that is removed afterwards."""
import glob
import importlib
import json
import os
import shutil
import subprocess
import tempfile

from .model import Program, AnalysisError
from .report import Checker, VERIF


def clear_caches():
    from . import common, anchors
    from .rules import funcs
    common._PATH_CACHE.clear()
    anchors._CACHE.clear()
    funcs.GROWTH.clear()


def analyse(prop, root=None, overrides=None):
    """run the rule module of ``prop`` on a tree; returns (violations[list of Ob], inconclusive[list], checker) - writes nothing"""
    clear_caches()
    mod = importlib.import_module("fxlint.rules." + prop.lower())
    prog = Program(root=root, overrides=overrides)
    ck = Checker(prop, "quick", prog)
    try:
        mod.run(ck)
    except AnalysisError as e:
        from .report import load_known as _lk
        kn = _lk()
        viol0 = [o for o in ck.obs if o.status == "violated" and not (kn.get(o.key(prop), {}).get("status") == "open")]
        if viol0:
            return viol0, [str(e)], ck
        return None, [str(e)], ck
    from .report import load_known
    known = load_known()
    viol = [o for o in ck.obs if o.status == "violated" and not (known.get(o.key(prop), {}).get("status") == "open")]
    inc = [o for o in ck.obs if o.status == "inconclusive"]
    return viol, inc, ck


def corpus(kind):
    out = []
    base = os.path.join(VERIF, "seeded" if kind == "seeded" else "benign")
    for d in sorted(glob.glob(base + "/*/")):
        p = os.path.join(d, "patch.diff")
        if not os.path.exists(p):
            continue
        meta = {}
        mp = os.path.join(d, "meta.json")
        if os.path.exists(mp):
            with open(mp) as fh:
                meta = json.load(fh)
        out.append((os.path.basename(d.rstrip("/")), p, meta))
    return out


def scratch_with_patch(repo_root, patch):
    """temporary copy of <repo>/fxpmath with the patch applied; returns dir or None when it does not apply"""
    d = tempfile.mkdtemp(prefix="fxlint_scratch_")
    shutil.copytree(os.path.join(repo_root, "fxpmath"), os.path.join(d, "fxpmath"))
    r = subprocess.run(["patch", "-p1", "-s", "--no-backup-if-mismatch", "-i", patch], cwd=d, capture_output=True, text=True)
    if r.returncode != 0:
        shutil.rmtree(d, ignore_errors=True)
        return None
    return d


def thorough(ck):
    """called for --tier thorough after the rules ran on the tree itself"""
    prop = ck.prop
    tree_clean = not any(o.status in ("violated",) for o in ck.obs if True) or all(
        o.status != "violated" or _is_known(prop, o) for o in ck.obs)
    res = {"seeded_reported": [], "seeded_missed": [], "seeded_skipped": [], "benign_silent": [], "benign_alarm": [], "benign_skipped": []}
    root = ck.prog.root
    if not tree_clean:
        ck.extra["self_validation"] = "skipped: the tree itself violates a rule of this property (every variant of it would fire)"
        return
    jobs = []
    for name, patch, meta in corpus("seeded"):
        if meta.get("property") == prop:
            if meta.get("declined"):
                res.setdefault("seeded_declined", []).append(name)      # breaks a clause the check declares it does not decide
                continue
            if meta.get("known_miss"):
                res.setdefault("seeded_known_miss", []).append(name)    # confirmed change the check is known not to report (DESIGN 10.6): listed, not decisive
                continue
            jobs.append(("seeded", name, patch))
    for name, patch, meta in corpus("benign"):
        if prop in (meta.get("known_false_alarm") or {}):
            # a confirmed behaviour-preserving variant on which this check is known to raise an alarm (an open false alarm, listed in DESIGN 10.7):
            # reported in the evidence, not decisive for the exit code - it is a defect of the checker, not a verdict about the tree
            res.setdefault("benign_known_false_alarm", []).append(name)
            continue
        jobs.append(("benign", name, patch))
    from concurrent.futures import ProcessPoolExecutor
    nproc = max(1, min(int(os.environ.get("FXLINT_JOBS", "16")), len(jobs) or 1))
    with ProcessPoolExecutor(nproc) as ex:
        outs = list(ex.map(_variant_job, [(prop, root, kind, name, patch) for kind, name, patch in jobs]))
    for kind, name, status, rules, reports in outs:
        if status == "skipped":
            res[kind + "_skipped"].append(name)
        elif kind == "seeded":
            if status == "violated":
                res["seeded_reported"].append({"change": name, "rules": rules})
            else:
                res["seeded_missed"].append(name)
        else:
            if status in ("violated", "inconclusive"):
                res["benign_alarm"].append({"variant": name, "reports": reports})
            else:
                res["benign_silent"].append(name)
    clear_caches()
    ck.extra["self_validation"] = {k: (v if k.endswith(("missed", "alarm", "skipped", "declined", "known_miss", "known_false_alarm")) else len(v)) for k, v in res.items()}
    ck.extra["self_validation"]["seeded_reported_detail"] = res["seeded_reported"]
    from .pinned import PINNED_DIGEST
    on_pinned = ck.prog.digest == PINNED_DIGEST
    ck.extra["self_validation"]["tree_is_the_confirmed_one"] = on_pinned
    if not on_pinned:
        # the corpora were confirmed (demonstration fails / suite unchanged) against another tree: on this one a patch that still applies need not
        # mean what it meant there, so the outcome is reported in the evidence but does not decide the exit code
        ck.note("self-validation ran on a tree that differs from the one the corpora were confirmed on: %d seeded reported, %d missed, %d benign silent, %d benign alarms (informational)"
                % (len(res["seeded_reported"]), len(res["seeded_missed"]), len(res["benign_silent"]), len(res["benign_alarm"])))
        return
    for name in res["seeded_missed"]:
        ck.unsure("SELF", None, "seeded break %s (confirmed to violate %s) is reported by this check" % (name, prop), None,
                  "the checker misses a change it is documented to catch: its verdict on this tree is not trusted")
    for a in res["benign_alarm"]:
        ck.unsure("SELF", None, "behaviour-preserving variant %s leaves this check silent" % a["variant"], None, "false alarm on a benign variant: %s" % a["reports"])
    n = len(res["seeded_reported"]) + len(res["benign_silent"])
    if n:
        ck.ok("SELF", "corpora under /verif/seeded and /verif/benign", "self-validation: %d seeded breaks of %s reported, %d benign variants silent (%d/%d skipped: patch no longer applies)"
              % (len(res["seeded_reported"]), prop, len(res["benign_silent"]), len(res["seeded_skipped"]), len(res["benign_skipped"])))


def _variant_job(args):
    """worker: analyse one variant of the tree (scratch copy with a corpus patch applied); returns a picklable summary"""
    prop, root, kind, name, patch = args
    d = scratch_with_patch(root, patch)
    if d is None:
        return kind, name, "skipped", [], []
    try:
        try:
            viol, inc, _ = analyse(prop, root=d)
        except Exception as e:          # an internal error on a variant is an analysis failure of that variant, not a verdict
            viol, inc = None, ["internal error: %r" % (e,)]
    finally:
        shutil.rmtree(d, ignore_errors=True)
    if viol:
        return kind, name, "violated", sorted({o.rule for o in viol}), [(o.rule, o.what) for o in viol][:3]
    if inc:
        return kind, name, "inconclusive", [], [str(getattr(x, "what", x))[:120] for x in inc][:3]
    return kind, name, "silent", [], []


def _is_known(prop, o):
    from .report import load_known
    return load_known().get(o.key(prop), {}).get("status") == "open"
