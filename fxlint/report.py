"""Verdicts, known findings, evidence, exit codes (DESIGN section 3)."""
import hashlib
import json
import os
import re
import sys
import time

from .model import AnalysisError

VERIF = os.path.dirname(os.path.dirname(os.path.abspath(__file__)))
KNOWN = os.path.join(VERIF, "known_findings.json")


def norm(s):
    """normalised construct text: whitespace-free, so reformatting does not change keys"""
    return re.sub(r"\s+", "", str(s))


class Ob:
    __slots__ = ("rule", "site", "what", "status", "detail", "nontrivial", "construct", "func")

    def __init__(self, rule, site, what, status, detail, nontrivial, construct, func):
        self.rule = rule
        self.site = site
        self.what = what
        self.status = status      # discharged | violated | inconclusive
        self.detail = detail
        self.nontrivial = nontrivial
        self.construct = construct
        self.func = func

    def key(self, prop):
        return (prop, self.rule, self.func or "", norm(self.construct or self.what))

    def as_dict(self):
        d = {"rule": self.rule, "site": self.site, "obligation": self.what, "status": self.status}
        if self.detail:
            d["detail"] = self.detail
        return d


class Checker:
    def __init__(self, prop, tier, prog, explanation=""):
        self.prop = prop
        self.tier = tier
        self.prog = prog
        self.obs = []
        self.notes = []
        self.t0 = time.time()
        self.explanation = explanation
        self.analysed = {"functions": set(), "paths": 0, "call_sites": 0, "terms": 0}
        self.assumptions = []
        self.trusted = []
        self.extra = {}
        self.only = None   # replay filter: (rule, func, construct)

    # ---------------------------------------------------------------- recording
    def _site(self, f, node=None):
        if f is None:
            return "-"
        if isinstance(f, str):
            return f
        return f.where(node)

    def ok(self, rule, f, what, node=None, detail=None, nontrivial=True):
        self.obs.append(Ob(rule, self._site(f, node), what, "discharged", detail, nontrivial, None,
                           getattr(f, "qualname", f if isinstance(f, str) else None)))
        if hasattr(f, "qualname"):
            self.analysed["functions"].add(f.qualname)

    def bad(self, rule, f, what, construct, node=None, detail=None, key_func=None):
        """a violated obligation. ``construct`` identifies the offending code independent of
        position (normalised text of the expression / name of the instance)."""
        fq = key_func or getattr(f, "qualname", f if isinstance(f, str) else None)
        for o in self.obs:
            if o.status == "violated" and o.rule == rule and o.func == fq and norm(o.construct) == norm(construct):
                return
        self.obs.append(Ob(rule, self._site(f, node), what, "violated", detail, True, construct, fq))
        if hasattr(f, "qualname"):
            self.analysed["functions"].add(f.qualname)

    def check(self, cond, rule, f, what, construct, node=None, detail=None, nontrivial=True):
        if cond:
            self.ok(rule, f, what, node, None, nontrivial)
        else:
            self.bad(rule, f, what, construct, node, detail)
        return cond

    def unsure(self, rule, f, what, node=None, detail=None):
        if any(o.status == "inconclusive" and o.rule == rule and o.what == what and o.detail == detail for o in self.obs):
            return
        self.obs.append(Ob(rule, self._site(f, node), what, "inconclusive", detail, True, None,
                           getattr(f, "qualname", None)))

    def note(self, msg):
        self.notes.append(msg)

    def saw(self, f=None, paths=0, calls=0, terms=0):
        if f is not None:
            self.analysed["functions"].add(f.qualname if hasattr(f, "qualname") else str(f))
        self.analysed["paths"] += paths
        self.analysed["call_sites"] += calls
        self.analysed["terms"] += terms

    # ---------------------------------------------------------------- finishing
    def finish(self):
        known = load_known()
        prop = self.prop
        viol = [o for o in self.obs if o.status == "violated"]
        inc = [o for o in self.obs if o.status == "inconclusive"]
        new, kf = [], []
        seen = set()
        for o in viol:
            k = o.key(prop)
            if k in seen:
                continue
            seen.add(k)
            ent = known.get(k)
            if ent is not None and ent.get("status") == "open":
                kf.append((o, ent))
            else:
                new.append(o)
        out = []
        for o, ent in kf:
            out.append("KNOWN-FINDING: property=%s %s [%s at %s]" % (prop, ent.get("what", o.what), o.rule, o.site))
        replay_paths = []
        shown = {}
        for o in new:
            g = (o.rule, o.what)
            shown[g] = shown.get(g, 0) + 1
            if shown[g] > 2:
                continue
            rp = write_replay(prop, o)
            replay_paths.append(rp)
            out.append("VIOLATION property=%s replay=%s" % (prop, rp))
            out.append("  rule   %s: %s" % (o.rule, o.what))
            out.append("  site   %s" % o.site)
            if o.construct:
                out.append("  found  %s" % o.construct)
            if o.detail:
                out.append("  detail %s" % (o.detail if isinstance(o.detail, str) else json.dumps(o.detail, default=str)))
        for g, n in shown.items():
            if n > 2:
                out.append("  (+%d more instances of %s: %s)" % (n - 2, g[0], g[1]))
        for o in inc:
            out.append("ANALYSIS-INCONCLUSIVE property=%s rule=%s site=%s : %s %s" % (prop, o.rule, o.site, o.what, o.detail or ""))
        for n in self.notes:
            out.append("NOTE: " + n)
        meas = self._measured()
        self.analysed["paths"] = max(self.analysed["paths"], meas["paths"])
        n_ob = len(self.obs)
        n_dis = len([o for o in self.obs if o.status == "discharged"])
        distinct = len({(o.rule, o.site, o.what) for o in self.obs if o.nontrivial and o.status == "discharged"})
        out.append("%s tier=%s obligations=%d discharged=%d violated=%d (known %d) inconclusive=%d functions=%d paths=%d wall=%.2fs"
                   % (prop, self.tier, n_ob, n_dis, len(viol), len(kf), len(inc), len(self.analysed["functions"]),
                      self.analysed["paths"], time.time() - self.t0))
        if new:
            code = 1
        elif inc:
            code = 2
        else:
            code = 0
        self.write_evidence(n_ob, n_dis, distinct, len(new), kf, inc, code)
        return code, out

    def _measured(self):
        """counts measured from what the engine actually enumerated during this run (the per-function path cache and the term cache)"""
        from . import common
        paths = calls = stores = 0
        funcs = set()
        sites = set()
        for key, pfs in common._PATH_CACHE.items():
            funcs.add(key[1])
            paths += len(pfs)
            for pf in pfs:
                stores += len(pf.stores)
                for ce in pf.calls:
                    sites.add(id(ce.raw))
        return {"functions_with_paths": len(funcs), "paths": paths, "call_sites": len(sites), "stores_on_paths": stores, "terms": len(common._TERM_CACHE)}

    def write_evidence(self, n_ob, n_dis, distinct, n_new, kf, inc, code):
        meas = self._measured()
        self.analysed["paths"] = max(self.analysed["paths"], meas["paths"])
        self.analysed["call_sites"] = max(self.analysed["call_sites"], meas["call_sites"])
        self.analysed["terms"] = max(self.analysed["terms"], meas["terms"])
        samples = []
        by_rule = {}
        for o in self.obs:
            by_rule.setdefault(o.rule, []).append(o)
        for r, lst in sorted(by_rule.items()):
            for o in lst[:3]:
                samples.append(o.as_dict())
        rules = {r: {"obligations": len(l), "discharged": len([o for o in l if o.status == "discharged"])} for r, l in sorted(by_rule.items())}
        ev = {
            "property_id": self.prop,
            "tier": self.tier,
            "seed": int(os.environ.get("VERIF_SEED", "0") or 0),
            "level": "other",
            "coverage": {
                "explanation": self.explanation,
                "obligations": n_ob,
                "discharged": n_dis,
                "evaluations": max(n_ob, 1),
                "distinct_nontrivial": distinct,
                "rule": "one obligation per (rule, site, instance); non-trivial = its discharge needed a term comparison, a path enumeration, a provenance match or a call-graph query (plain presence lookups are counted as trivial)",
                "samples": samples[:60],
                "per_rule": rules,
                "functions_analysed": sorted(self.analysed["functions"]),
                "paths_enumerated": self.analysed["paths"],
                "call_sites_examined": self.analysed["call_sites"],
                "terms_compared": self.analysed["terms"],
                "stores_on_paths": meas["stores_on_paths"],
                "functions_with_enumerated_paths": meas["functions_with_paths"],
                "normaliser": {m: {k: (len(v) if isinstance(v, list) else v) for k, v in info.items()} for m, info in (self.prog.normalized.items() if self.prog else [])},
                "source_digest": self.prog.digest if self.prog else None,
                "source_root": self.prog.root if self.prog else None,
                "checker_cmd": "./check %s --tier %s" % (self.prop, self.tier),
                "trusted_base": self.trusted,
                "known_findings_reported": [e.get("what") for _, e in kf],
                "inconclusive": [o.as_dict() for o in inc],
                "exit_code": code,
                "exhaustive": bool(self.extra.get("exhaustive", False)),
            },
            "assumptions": self.assumptions,
            "wall_s": round(time.time() - self.t0, 3),
            "violations": n_new,
        }
        ev["coverage"].update({k: v for k, v in self.extra.items() if k != "exhaustive"})
        d = os.environ.get("FXLINT_EVIDENCE_DIR") or os.path.join(VERIF, "evidence")
        os.makedirs(d, exist_ok=True)
        with open(os.path.join(d, self.prop + ".json"), "w") as fh:
            json.dump(ev, fh, indent=1, default=str)


def load_known():
    out = {}
    if not os.path.exists(KNOWN):
        return out
    with open(KNOWN) as fh:
        data = json.load(fh)
    for e in data.get("findings", []):
        k = (e["property"], e["rule"], e.get("function", ""), norm(e.get("construct", "")))
        out[k] = e
    return out


def write_replay(prop, o):
    d = os.path.join(os.environ.get("FXLINT_EVIDENCE_DIR") or os.path.join(VERIF, "evidence"), "replay")
    os.makedirs(d, exist_ok=True)
    h = hashlib.sha1(repr(o.key(prop)).encode()).hexdigest()[:10]
    p = os.path.join(d, "%s-%s-%s.json" % (prop, o.rule.replace(".", "_"), h))
    with open(p, "w") as fh:
        json.dump({"property": prop, "rule": o.rule, "function": o.func, "site": o.site, "construct": o.construct,
                   "obligation": o.what, "detail": o.detail,
                   "replay": "./check --replay %s" % p}, fh, indent=1, default=str)
    return p
