"""A0 - source normalisation at load time (pure ast -> ast rewriting; nothing is evaluated).

Behaviour-preserving refactorings change the *spelling* of the code, not what it computes.  The rules should depend on what is computed,
so every module is brought to one spelling before anything else looks at it:

 N1  module constants introduced after the pinned tree (a module-level name bound once to a literal / tuple / dict of literals /
     reference / re.compile(literal), never rebound or mutated) are substituted at their uses;
 N2  a reference (not a call) to a new module-level one-expression function becomes the equivalent lambda;
 N3  [F(v) for v in X]  and  list(F(v) for v in X)  ->  list(map(F, X));
 N4  {True: a, False: b}[c] -> (a if c else b);  `if ... K in {k1: v1, ...}: ... {..}[K] ...`  -> an if/elif chain on K == k_i;
 N5  x in (a, b) -> x == a or x == b   (at most 4 literal alternatives; `not in` likewise);
 N6  f-strings without format specs -> '...{_f0}...'.format(_f0=e0, ...)  (one spelling for string templates);
 N7  for T in (E for V in IT if C): B  ->  for V in IT: if C: T = E; B      (also through a local bound once to the generator);
 N10 [E for v in (a, b)] -> [E[a/v], E[b/v]];  t1, t2 = (E for v in (a, b)) -> t1, t2 = (E[a/v], E[b/v]);  C == x -> x == C for constants C;
 N11 a local bound once, unconditionally, to a literal dict of references and only read afterwards is replaced by the literal (then N4 applies);
 N14 tests are brought to negation normal form (De Morgan; not (a is None) -> a is not None; ordering comparisons untouched);
 N12 L = []; for v in IT: L.append(E)  ->  L = [E for v in IT];
 N8  X.update(k1=v1, k2=v2) / X.update({'k1': v1}) as a statement -> X['k1'] = v1; X['k2'] = v2;
     f(**dict(kw, a=b)) -> kw['a'] = b is NOT done (it would change kw); dict(kw, a=b) is left to the rules.

Positions are kept (copy_location) so reports still point at the line the user wrote.
"""
import ast
import copy

MUTATORS = {"append", "extend", "insert", "pop", "remove", "clear", "update", "setdefault", "add", "discard", "sort", "reverse", "popitem"}
TYPE_NAMES = {"complex", "int", "float", "str", "bool", "object"}
PURE_CALLS = {"re.compile", "frozenset", "tuple", "set", "min", "max", "len", "dict", "list"}


def _dotted(node):
    parts = []
    while isinstance(node, ast.Attribute):
        parts.append(node.attr)
        node = node.value
    if isinstance(node, ast.Name):
        parts.append(node.id)
        return ".".join(reversed(parts))
    return None


def _pure(e, known):
    if isinstance(e, ast.Constant):
        return True
    if isinstance(e, ast.Name):
        return True
    if isinstance(e, ast.Attribute):
        return _dotted(e) is not None
    if isinstance(e, (ast.Tuple, ast.List, ast.Set)):
        return all(_pure(x, known) for x in e.elts)
    if isinstance(e, ast.Dict):
        return all(k is not None and _pure(k, known) for k in e.keys) and all(_pure(v, known) for v in e.values)
    if isinstance(e, ast.JoinedStr):
        return all(isinstance(v, ast.Constant) for v in e.values)
    if isinstance(e, ast.BinOp):
        return _pure(e.left, known) and _pure(e.right, known)
    if isinstance(e, ast.UnaryOp):
        return _pure(e.operand, known)
    if isinstance(e, ast.Call) and _dotted(e.func) in PURE_CALLS and not e.keywords:
        return all(_pure(a, known) for a in e.args)
    return False


def _function_locals(fn):
    """names bound inside a def / lambda (parameters, stores, imports, nested defs), nested scopes included (conservative)"""
    out = set()
    a = fn.args
    for x in a.posonlyargs + a.args + a.kwonlyargs:
        out.add(x.arg)
    if a.vararg:
        out.add(a.vararg.arg)
    if a.kwarg:
        out.add(a.kwarg.arg)
    body = fn.body if isinstance(fn.body, list) else [fn.body]
    for st in body:
        for n in ast.walk(st):
            if isinstance(n, ast.Name) and isinstance(n.ctx, (ast.Store, ast.Del)):
                out.add(n.id)
            elif isinstance(n, (ast.FunctionDef, ast.AsyncFunctionDef, ast.ClassDef)):
                out.add(n.name)
            elif isinstance(n, (ast.Import, ast.ImportFrom)):
                for al in n.names:
                    out.add((al.asname or al.name).split(".")[0])
            elif isinstance(n, ast.arg):
                out.add(n.arg)
            elif isinstance(n, ast.ExceptHandler) and n.name:
                out.add(n.name)
    return out


def module_constants(tree, pinned_globals):
    """{name: value expr} for module-level names that are new, bound once to a pure expression, and never rebound / mutated"""
    cand = {}
    count = {}
    for st in tree.body:
        for n in ast.walk(st) if not isinstance(st, (ast.FunctionDef, ast.AsyncFunctionDef, ast.ClassDef)) else ():
            if isinstance(n, ast.Name) and isinstance(n.ctx, (ast.Store, ast.Del)):
                count[n.id] = count.get(n.id, 0) + 1
        if isinstance(st, ast.Assign) and len(st.targets) == 1 and isinstance(st.targets[0], ast.Name):
            cand[st.targets[0].id] = st.value
        elif isinstance(st, ast.AnnAssign) and isinstance(st.target, ast.Name) and st.value is not None:
            cand[st.target.id] = st.value
    bad = set()
    for n in ast.walk(tree):
        if isinstance(n, ast.Global):
            bad.update(n.names)
        elif isinstance(n, (ast.Subscript, ast.Attribute)) and isinstance(n.ctx, (ast.Store, ast.Del)):
            r = n.value
            while isinstance(r, (ast.Subscript, ast.Attribute)):
                r = r.value
            if isinstance(r, ast.Name):
                bad.add(r.id)
        elif isinstance(n, ast.Call) and isinstance(n.func, ast.Attribute) and n.func.attr in MUTATORS and isinstance(n.func.value, ast.Name):
            bad.add(n.func.value.id)
        elif isinstance(n, ast.AugAssign) and isinstance(n.target, ast.Name):
            bad.add(n.target.id)
    out = {}
    for name, val in cand.items():
        if name in pinned_globals or name in bad or count.get(name, 0) != 1 or name.startswith("__"):
            continue
        if _pure(val, out):
            out[name] = val
    return out


def simple_helpers(tree, mod, pinned_funcs):
    """{name: FunctionDef} for new module-level functions of the form `def f(a, b): return expr`"""
    out = {}
    for st in tree.body:
        if isinstance(st, ast.FunctionDef) and ("%s.%s" % (mod, st.name)) not in pinned_funcs and not st.decorator_list:
            body = [s for s in st.body if not (isinstance(s, ast.Expr) and isinstance(s.value, ast.Constant))]
            a = st.args
            if len(body) == 1 and isinstance(body[0], ast.Return) and body[0].value is not None and not a.defaults and not a.vararg and not a.kwarg \
                    and not a.kwonlyargs and not a.posonlyargs:
                out[st.name] = st
    return out


class _Inline(ast.NodeTransformer):
    """N1 + N2, scope aware"""

    def __init__(self, consts, helpers):
        self.consts, self.helpers = consts, helpers
        self.shadow = []
        self.call_funcs = set()
        self.n = 0

    def _shadowed(self, name):
        return any(name in s for s in self.shadow)

    def _scope(self, node):
        self.shadow.append(_function_locals(node))
        self.generic_visit(node)
        self.shadow.pop()
        return node

    visit_FunctionDef = _scope
    visit_AsyncFunctionDef = _scope
    visit_Lambda = _scope

    def visit_Call(self, node):
        if isinstance(node.func, ast.Name):
            self.call_funcs.add(id(node.func))
        self.generic_visit(node)
        return node

    def visit_Name(self, node):
        if not isinstance(node.ctx, ast.Load) or self._shadowed(node.id):
            return node
        if node.id in self.consts and self.shadow:          # uses inside functions only: the module-level binding itself stays
            self.n += 1
            new = copy.deepcopy(self.consts[node.id])
            new = _Inline(self.consts, {}).visit(new) if any(isinstance(x, ast.Name) and x.id in self.consts and x.id != node.id for x in ast.walk(new)) else new
            for x in ast.walk(new):
                ast.copy_location(x, node)
            return new
        if node.id in self.helpers and self.shadow and id(node) not in self.call_funcs:
            fn = self.helpers[node.id]
            body = [s for s in fn.body if isinstance(s, ast.Return)][0].value
            self.n += 1
            lam = ast.Lambda(args=copy.deepcopy(fn.args), body=copy.deepcopy(body))
            for x in ast.walk(lam):
                ast.copy_location(x, node)
            return lam
        return node


def _const_keys(d):
    return isinstance(d, ast.Dict) and d.keys and all(isinstance(k, ast.Constant) for k in d.keys)


def _same(a, b):
    return ast.dump(a) == ast.dump(b)


_FLIP = {ast.Is: ast.IsNot, ast.IsNot: ast.Is, ast.Eq: ast.NotEq, ast.NotEq: ast.Eq, ast.In: ast.NotIn, ast.NotIn: ast.In}


def _nnf(t, neg=False):
    """N14: negation normal form of a test (truth value only): not over and/or is pushed inward, not (a is b) -> a is not b, ...
    Ordering comparisons are left alone (not (a < b) is not a >= b for NaN / arrays)."""
    if isinstance(t, ast.UnaryOp) and isinstance(t.op, ast.Not):
        return _nnf(t.operand, not neg)
    if isinstance(t, ast.BoolOp):
        op = t.op
        if neg:
            op = ast.Or() if isinstance(t.op, ast.And) else ast.And()
        return ast.copy_location(ast.BoolOp(op=op, values=[_nnf(v, neg) for v in t.values]), t)
    if neg and isinstance(t, ast.Compare) and len(t.ops) == 1 and type(t.ops[0]) in _FLIP:
        return ast.copy_location(ast.Compare(left=t.left, ops=[_FLIP[type(t.ops[0])]()], comparators=t.comparators), t)
    if neg:
        return ast.copy_location(ast.UnaryOp(op=ast.Not(), operand=t), t)
    return t


class _Canon(ast.NodeTransformer):
    """N3, N4a, N5, N6, N14 (expression level)"""

    def _test(self, node):
        self.generic_visit(node)
        node.test = _nnf(node.test)
        return node

    visit_If = _test
    visit_IfExp = _test
    visit_While = _test
    visit_Assert = _test

    def visit_ListComp(self, node):
        self.generic_visit(node)
        un = _unroll(node)
        if un is not None:
            return ast.copy_location(ast.List(elts=un, ctx=ast.Load()), node)
        return self._map(node, node)

    def visit_Assign(self, node):
        self.generic_visit(node)
        if len(node.targets) == 1 and isinstance(node.targets[0], (ast.Tuple, ast.List)) and isinstance(node.value, ast.GeneratorExp):
            un = _unroll(node.value)
            if un is not None and len(un) == len(node.targets[0].elts):
                node.value = ast.copy_location(ast.Tuple(elts=un, ctx=ast.Load()), node.value)
        return node

    def _map(self, comp, whole):
        if len(comp.generators) == 1:
            g = comp.generators[0]
            e = comp.elt
            if not g.ifs and not g.is_async and isinstance(g.target, ast.Name) and isinstance(e, ast.Call) and not e.keywords and len(e.args) == 1 \
                    and isinstance(e.args[0], ast.Name) and e.args[0].id == g.target.id and _dotted(e.func) is not None \
                    and g.target.id not in _dotted(e.func).split("."):
                new = ast.Call(func=ast.Name(id="list", ctx=ast.Load()),
                               args=[ast.Call(func=ast.Name(id="map", ctx=ast.Load()), args=[e.func, g.iter], keywords=[])], keywords=[])
                for x in ast.walk(new):
                    if not hasattr(x, "lineno"):
                        ast.copy_location(x, whole)
                return new
        return whole

    def visit_Call(self, node):
        self.generic_visit(node)
        if isinstance(node.func, ast.Name) and node.func.id == "list" and len(node.args) == 1 and not node.keywords and isinstance(node.args[0], ast.GeneratorExp):
            return self._map(node.args[0], node)
        return node

    def visit_Subscript(self, node):
        self.generic_visit(node)
        d = node.value
        if isinstance(node.ctx, ast.Load) and _const_keys(d) and len(d.keys) == 2 and {k.value for k in d.keys} == {True, False} \
                and all(isinstance(k.value, bool) for k in d.keys):
            vt = d.values[0] if d.keys[0].value is True else d.values[1]
            vf = d.values[1] if d.keys[0].value is True else d.values[0]
            return ast.copy_location(ast.IfExp(test=node.slice, body=vt, orelse=vf), node)
        return node

    def visit_Compare(self, node):
        self.generic_visit(node)
        if len(node.ops) == 1 and isinstance(node.ops[0], (ast.Eq, ast.NotEq)):
            l, r = node.left, node.comparators[0]
            lc = isinstance(l, ast.Constant) or (isinstance(l, ast.Name) and l.id in TYPE_NAMES)
            rc = isinstance(r, ast.Constant) or (isinstance(r, ast.Name) and r.id in TYPE_NAMES)
            if lc and not rc:
                return ast.copy_location(ast.Compare(left=r, ops=node.ops, comparators=[l]), node)
        if len(node.ops) == 1 and isinstance(node.ops[0], (ast.In, ast.NotIn)) and isinstance(node.comparators[0], (ast.Tuple, ast.List, ast.Set)):
            elts = node.comparators[0].elts
            if 1 <= len(elts) <= 4 and all(_pure(x, {}) and not isinstance(x, ast.Starred) for x in elts):
                neg = isinstance(node.ops[0], ast.NotIn)
                cmps = [self.visit_Compare(ast.copy_location(ast.Compare(left=copy.deepcopy(node.left), ops=[ast.NotEq() if neg else ast.Eq()], comparators=[x]), node)) for x in elts]
                if len(cmps) == 1:
                    return cmps[0]
                return ast.copy_location(ast.BoolOp(op=ast.And() if neg else ast.Or(), values=cmps), node)
        return node

    def visit_JoinedStr(self, node):
        # visit the embedded expressions, but not the format specs (they are templates, handled here)
        for v in node.values:
            if isinstance(v, ast.FormattedValue):
                v.value = self.visit(v.value)
                if isinstance(v.format_spec, ast.JoinedStr):
                    for w in v.format_spec.values:
                        if isinstance(w, ast.FormattedValue):
                            w.value = self.visit(w.value)
        if not any(isinstance(v, ast.FormattedValue) for v in node.values):
            return ast.copy_location(ast.Constant(value="".join(v.value for v in node.values)), node)
        tpl, kws = [], []

        def field(expr):
            nm = "_f%d" % len(kws)
            kws.append(ast.keyword(arg=nm, value=expr))
            return nm
        for v in node.values:
            if isinstance(v, ast.Constant):
                tpl.append(str(v.value).replace("{", "{{").replace("}", "}}"))
            elif isinstance(v, ast.FormattedValue) and v.conversion == -1 and v.format_spec is None:
                tpl.append("{%s}" % field(v.value))
            elif isinstance(v, ast.FormattedValue) and v.conversion == -1 and isinstance(v.format_spec, ast.JoinedStr):
                nm = field(v.value)
                spec = []
                for w in v.format_spec.values:
                    if isinstance(w, ast.Constant):
                        spec.append(str(w.value))
                    elif isinstance(w, ast.FormattedValue) and w.conversion == -1 and w.format_spec is None:
                        spec.append("{%s}" % field(w.value))
                    else:
                        return node
                tpl.append("{%s:%s}" % (nm, "".join(spec)))
            else:
                return node
        new = ast.Call(func=ast.Attribute(value=ast.Constant(value="".join(tpl)), attr="format", ctx=ast.Load()), args=[], keywords=kws)
        for x in ast.walk(new):
            if not hasattr(x, "lineno"):
                ast.copy_location(x, node)
        return new


class _SubstName(ast.NodeTransformer):
    def __init__(self, name, value):
        self.name, self.value = name, value

    def visit_Name(self, node):
        if node.id == self.name and isinstance(node.ctx, ast.Load):
            return copy.deepcopy(self.value)
        return node

    def visit_Lambda(self, node):
        if self.name in {a.arg for a in node.args.args}:
            return node
        return self.generic_visit(node)


def _unroll(comp):
    """[E[a/v], E[b/v]] for a comprehension `E for v in (a, b)` over a short literal sequence of plain references, else None"""
    if len(comp.generators) != 1:
        return None
    g = comp.generators[0]
    if g.ifs or g.is_async or not isinstance(g.target, ast.Name) or not isinstance(g.iter, (ast.Tuple, ast.List)) or not (1 <= len(g.iter.elts) <= 4):
        return None
    if not all(isinstance(x, (ast.Name, ast.Attribute, ast.Constant)) for x in g.iter.elts):
        return None
    return [_SubstName(g.target.id, x).visit(copy.deepcopy(comp.elt)) for x in g.iter.elts]


class _Repl(ast.NodeTransformer):
    def __init__(self, match, make):
        self.match, self.make = match, make

    def visit(self, node):
        if self.match(node):
            return self.make(node)
        return super().visit(node)


def _conjuncts(t):
    if isinstance(t, ast.BoolOp) and isinstance(t.op, ast.And):
        out = []
        for v in t.values:
            out += _conjuncts(v)
        return out
    return [t]


def _loads_of(name, stmts):
    n = 0
    for st in stmts:
        for x in ast.walk(st):
            if isinstance(x, ast.Name) and x.id == name:
                n += 1
    return n


def _stmts(body, enclosing_rest=()):
    """N4b, N7, N8 on a statement list (recursively)"""
    out = []
    i = 0
    body = list(body)
    while i < len(body):
        s = body[i]
        # N7a: a local bound once to a generator expression and consumed by the next for loop
        if isinstance(s, ast.Assign) and len(s.targets) == 1 and isinstance(s.targets[0], ast.Name) and isinstance(s.value, ast.GeneratorExp) \
                and i + 1 < len(body) and isinstance(body[i + 1], ast.For) and isinstance(body[i + 1].iter, ast.Name) \
                and body[i + 1].iter.id == s.targets[0].id and _loads_of(s.targets[0].id, body[i + 1:]) == 1:
            f2 = copy.copy(body[i + 1])
            f2.iter = s.value
            body[i + 1] = f2
            i += 1
            continue
        # N12: L = [] ; for v in IT: L.append(E)   ->   L = [E for v in IT]
        if isinstance(s, ast.Assign) and len(s.targets) == 1 and isinstance(s.targets[0], ast.Name) and isinstance(s.value, ast.List) and not s.value.elts \
                and i + 1 < len(body) and isinstance(body[i + 1], ast.For) and not body[i + 1].orelse and len(body[i + 1].body) == 1:
            L = s.targets[0].id
            fr = body[i + 1]
            b = fr.body[0]
            if isinstance(b, ast.Expr) and isinstance(b.value, ast.Call) and isinstance(b.value.func, ast.Attribute) and b.value.func.attr == "append" \
                    and isinstance(b.value.func.value, ast.Name) and b.value.func.value.id == L and len(b.value.args) == 1 and not b.value.keywords \
                    and not any(isinstance(x, ast.Name) and x.id == L for x in ast.walk(b.value.args[0])) \
                    and not any(isinstance(x, ast.Name) and x.id == L for x in ast.walk(fr.iter)):
                comp = ast.ListComp(elt=b.value.args[0], generators=[ast.comprehension(target=fr.target, iter=fr.iter, ifs=[], is_async=0)])
                new = ast.Assign(targets=[s.targets[0]], value=comp)
                ast.copy_location(comp, fr)
                ast.copy_location(new, fr)
                out.append(new)
                i += 2
                continue
        for fld in ("body", "orelse", "finalbody"):
            v = getattr(s, fld, None)
            if isinstance(v, list) and v and isinstance(v[0], ast.stmt):
                s = copy.copy(s) if s is body[i] else s
                setattr(s, fld, _stmts(v))
        if isinstance(s, ast.Try):
            hs = []
            for h in s.handlers:
                h2 = copy.copy(h)
                h2.body = _stmts(h.body)
                hs.append(h2)
            s.handlers = hs
        # N7b: loop over a generator expression
        if isinstance(s, ast.For) and isinstance(s.iter, ast.GeneratorExp) and len(s.iter.generators) == 1 and not s.iter.generators[0].is_async and not s.orelse:
            g = s.iter.generators[0]
            inner = [ast.copy_location(ast.Assign(targets=[_store(s.target)], value=s.iter.elt), s)] + list(s.body)
            for c in reversed(g.ifs):
                inner = [ast.copy_location(ast.If(test=c, body=inner, orelse=[]), s)]
            s = ast.copy_location(ast.For(target=g.target, iter=g.iter, body=inner, orelse=[], type_comment=None), s)
        # N8: X.update(k=v, ...) as a statement
        if isinstance(s, ast.Expr) and isinstance(s.value, ast.Call) and isinstance(s.value.func, ast.Attribute) and s.value.func.attr == "update" \
                and _dotted(s.value.func.value) is not None:
            c = s.value
            pairs = None
            if not c.args and c.keywords and all(k.arg is not None for k in c.keywords):
                pairs = [(ast.Constant(value=k.arg), k.value) for k in c.keywords]
            elif len(c.args) == 1 and not c.keywords and isinstance(c.args[0], ast.Dict) and all(k is not None for k in c.args[0].keys):
                pairs = list(zip(c.args[0].keys, c.args[0].values))
            elif len(c.args) == 1 and not c.keywords and isinstance(c.args[0], ast.Call) and _dotted(c.args[0].func) == "dict" and not c.args[0].args \
                    and all(k.arg is not None for k in c.args[0].keywords):
                pairs = [(ast.Constant(value=k.arg), k.value) for k in c.args[0].keywords]
            if pairs:
                for k, v in pairs:
                    tgt = ast.Subscript(value=copy.deepcopy(c.func.value), slice=k, ctx=ast.Store())
                    a = ast.Assign(targets=[tgt], value=v)
                    for x in ast.walk(a):
                        if not hasattr(x, "lineno"):
                            ast.copy_location(x, s)
                    ast.copy_location(a, s)
                    out.append(a)
                i += 1
                continue
        # N4b: membership in a literal dict selects the branch
        if isinstance(s, ast.If):
            exp = _expand_dict_if(s)
            if exp is not None:
                s = exp
        out.append(s)
        i += 1
    return out


def _store(t):
    t = copy.deepcopy(t)
    for x in ast.walk(t):
        if isinstance(x, (ast.Name, ast.Tuple, ast.List, ast.Attribute, ast.Subscript, ast.Starred)):
            x.ctx = ast.Store()
    return t


def _expand_dict_if(s):
    cj = _conjuncts(s.test)
    hit = None
    for c in cj:
        if isinstance(c, ast.Compare) and len(c.ops) == 1 and isinstance(c.ops[0], ast.In) and _const_keys(c.comparators[0]) and len(c.comparators[0].keys) <= 12:
            hit = c
            break
    if hit is None:
        return None
    d, key = hit.comparators[0], hit.left
    chain = None
    for k, v in reversed(list(zip(d.keys, d.values))):
        eq = ast.copy_location(ast.Compare(left=copy.deepcopy(key), ops=[ast.Eq()], comparators=[k]), hit)
        test = _Repl(lambda n: n is hit, lambda n: eq).visit(_shallow(s.test, hit))
        is_sub = lambda n, d=d, key=key: isinstance(n, ast.Subscript) and isinstance(n.value, ast.Dict) and _same(n.value, d) and _same(n.slice, key)
        body = [_Repl(is_sub, lambda n, v=v: copy.deepcopy(v)).visit(copy.deepcopy(b)) for b in s.body]
        node = ast.copy_location(ast.If(test=test, body=body, orelse=[chain] if chain is not None else list(s.orelse)), s)
        chain = node
    return chain


def _shallow(t, keep):
    """copy of a test expression in which the node `keep` keeps its identity"""
    if t is keep:
        return t
    if isinstance(t, ast.BoolOp):
        n = ast.copy_location(ast.BoolOp(op=t.op, values=[_shallow(v, keep) for v in t.values]), t)
        return n
    return copy.deepcopy(t)


def _local_dicts(fn):
    """N11: a local bound exactly once to a literal dict (constant keys, pure values) and only read afterwards is replaced by the literal"""
    stores, other = {}, set()
    for n in ast.walk(fn):
        if isinstance(n, ast.Assign) and len(n.targets) == 1 and isinstance(n.targets[0], ast.Name):
            stores.setdefault(n.targets[0].id, []).append(n)
        elif isinstance(n, (ast.AugAssign, ast.AnnAssign)) and isinstance(n.target, ast.Name):
            other.add(n.target.id)
        elif isinstance(n, (ast.For, ast.comprehension)):
            for x in ast.walk(n.target):
                if isinstance(x, ast.Name):
                    other.add(x.id)
        elif isinstance(n, (ast.Subscript, ast.Attribute)) and isinstance(n.ctx, (ast.Store, ast.Del)) and isinstance(n.value, ast.Name):
            other.add(n.value.id)
        elif isinstance(n, ast.Call) and isinstance(n.func, ast.Attribute) and isinstance(n.func.value, ast.Name) and n.func.attr in MUTATORS:
            other.add(n.func.value.id)
        elif isinstance(n, ast.arg):
            other.add(n.arg)
        elif isinstance(n, (ast.Global, ast.Nonlocal)):
            other.update(n.names)
        elif isinstance(n, ast.Assign):
            for t in n.targets:
                for x in ast.walk(t):
                    if isinstance(x, ast.Name) and isinstance(x.ctx, ast.Store) and not (len(n.targets) == 1 and t is n.targets[0] and isinstance(t, ast.Name)):
                        other.add(x.id)
    done = []
    for name, sts in stores.items():
        if name in other:
            continue
        if not all(_const_keys(st.value) and all(_pure(v, {}) for v in st.value.values) for st in sts):
            continue
        loads = [x for x in ast.walk(fn) if isinstance(x, ast.Name) and x.id == name and isinstance(x.ctx, ast.Load)]
        if not loads:
            continue
        plan = []
        covered = set()
        okp = True
        for st in sts:
            block = _block_of(fn, st)
            if block is None:
                okp = False
                break
            later = block[[i for i, x in enumerate(block) if x is st][0] + 1:]
            # no re-binding of the name (or of a referenced value) in the statements the binding reaches
            vnames = {x.id for v in st.value.values for x in ast.walk(v) if isinstance(x, ast.Name)} | {name}
            if any(isinstance(x, ast.Name) and isinstance(x.ctx, ast.Store) and x.id in vnames for s2 in later for x in ast.walk(s2)):
                okp = False
                break
            covered |= {id(x) for s2 in later for x in ast.walk(s2)}
            plan.append((st, block, later))
        if not okp or any(id(u) not in covered for u in loads):      # every read is dominated by one binding in its own block
            continue
        for st, block, later in plan:
            for j, s2 in enumerate(later):
                _SubstName(name, st.value).visit(s2)
            idx = [i for i, x in enumerate(block) if x is st][0]
            del block[idx]
            if not block:
                block.append(ast.copy_location(ast.Pass(), st))
        done.append(name)
    return done


def _block_of(fn, st):
    for n in ast.walk(fn):
        for fld in ("body", "orelse", "finalbody"):
            v = getattr(n, fld, None)
            if isinstance(v, list) and any(x is st for x in v):
                return v
    return None


class _LocalDicts(ast.NodeTransformer):
    def visit_FunctionDef(self, node):
        self.generic_visit(node)
        _local_dicts(node)
        return node


class _Bodies(ast.NodeTransformer):
    def visit_FunctionDef(self, node):
        self.generic_visit(node)
        node.body = _stmts(node.body)
        return node

    visit_AsyncFunctionDef = visit_FunctionDef


def normalize_module(mod, tree, pinned_funcs, pinned_globals):
    consts = module_constants(tree, pinned_globals)
    helpers = simple_helpers(tree, mod, pinned_funcs)
    inl = _Inline(consts, helpers)
    tree = inl.visit(tree)
    tree = _LocalDicts().visit(tree)
    tree = _Canon().visit(tree)
    tree = _Bodies().visit(tree)
    tree = _Canon().visit(tree)
    ast.fix_missing_locations(tree)
    return tree, {"constants_inlined": sorted(consts), "helper_refs": sorted(helpers), "uses_rewritten": inl.n}
