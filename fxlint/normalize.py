"""A0 - source normalisation at load time (pure ast -> ast rewriting; nothing is evaluated).

Behaviour-preserving refactorings change the *spelling* of the code, not what it computes.  The rules should depend on what is computed,
so every module is brought to one spelling before anything else looks at it:

 N1  module constants introduced after the pinned tree (a module-level name bound once to a literal / tuple / dict of literals /
     reference / re.compile(literal), never rebound or mutated) are substituted at their uses;
 N2  a reference (not a call) to a new module-level one-expression function becomes the equivalent lambda;
 N3  [F(v) for v in X]  and  list(F(v) for v in X)  ->  list(map(F, X));
 N4  {True: a, False: b}[c] -> (a if c else b);  `if ... K in {k1: v1, ...}: ... {..}[K] ...`  -> an if/elif chain on K == k_i;
 N5  x in (a, b) -> x == a or x == b   (at most 4 literal alternatives; `not in` likewise);
 N6  f-strings without format specs -> '...{_f0}...'.format(_f0=e0, ...)  (one spelling for string templates);
 N7  for T in (E for V in IT if C): B  ->  for V in IT: if C: T = E; B      (also through a local bound once to the generator);
 N10 [E for v in (a, b)] -> [E[a/v], E[b/v]];  t1, t2 = (E for v in (a, b)) -> t1, t2 = (E[a/v], E[b/v]);  C == x -> x == C for constants C;
 N11 a local bound once, unconditionally, to a literal dict of references and only read afterwards is replaced by the literal (then N4 applies);
 N14 tests are brought to negation normal form (De Morgan; not (a is None) -> a is not None; ordering comparisons untouched);
 N0  a private function of the pinned tree that was renamed (same body, or the only new function with the same parameters in its
     class/module) is mapped back to its pinned name everywhere in the package;
 N1b new class-level constants (`Fxp._MSG = '...'`) are substituted at `self._MSG` / `Fxp._MSG`; N2b a reference to a nested one-expression
     def is the lambda it denotes;
 N17 isinstance(x, A) or isinstance(x, B) -> isinstance(x, (A, B)); N18 dict(a=1) -> {'a': 1}; N19 getattr(o, 'name') -> o.name;
 N20 operator.lt(a, b) -> a < b (and the other operator-module functions); N21 functools.partial(F, ...) -> the lambda it denotes;
 N16 assignment expressions (walrus) in an if-test or a simple statement become assignment statements in front of it;
 N15 while-loops that spell a for-loop (iter/next with try-except StopIteration; walrus with a sentinel; index loop over len(S)) -> for;
 N12 L = []; for v in IT: L.append(E)  ->  L = [E for v in IT];
 N8  X.update(k1=v1, k2=v2) / X.update({'k1': v1}) as a statement -> X['k1'] = v1; X['k2'] = v2;
     f(**dict(kw, a=b)) -> kw['a'] = b is NOT done (it would change kw); dict(kw, a=b) is left to the rules.

Positions are kept (copy_location) so reports still point at the line the user wrote.
"""
import ast
import copy

MUTATORS = {"append", "extend", "insert", "pop", "remove", "clear", "update", "setdefault", "add", "discard", "sort", "reverse", "popitem"}
TYPE_NAMES = {"complex", "int", "float", "str", "bool", "object"}
PURE_CALLS = {"re.compile", "frozenset", "tuple", "set", "min", "max", "len", "dict", "list"}


def _dotted(node):
    parts = []
    while isinstance(node, ast.Attribute):
        parts.append(node.attr)
        node = node.value
    if isinstance(node, ast.Name):
        parts.append(node.id)
        return ".".join(reversed(parts))
    return None


def _pure(e, known):
    if isinstance(e, ast.Constant):
        return True
    if isinstance(e, ast.Name):
        return True
    if isinstance(e, ast.Attribute):
        return _dotted(e) is not None
    if isinstance(e, (ast.Tuple, ast.List, ast.Set)):
        return all(_pure(x, known) for x in e.elts)
    if isinstance(e, ast.Dict):
        return all(k is not None and _pure(k, known) for k in e.keys) and all(_pure(v, known) for v in e.values)
    if isinstance(e, ast.JoinedStr):
        return all(isinstance(v, ast.Constant) for v in e.values)
    if isinstance(e, ast.BinOp):
        return _pure(e.left, known) and _pure(e.right, known)
    if isinstance(e, ast.UnaryOp):
        return _pure(e.operand, known)
    if isinstance(e, ast.Call) and _dotted(e.func) in PURE_CALLS and not e.keywords:
        return all(_pure(a, known) for a in e.args)
    return False


READ_METHODS = {"get", "keys", "values", "items", "index", "count", "copy", "__contains__", "__getitem__"}
READ_CALLS = {"len", "sorted", "tuple", "list", "set", "dict", "frozenset", "min", "max", "sum", "any", "all", "enumerate", "zip", "iter", "reversed", "isinstance", "map", "filter", "str", "repr"}


def _is_mutable_value(e):
    return isinstance(e, (ast.Dict, ast.List, ast.Set, ast.DictComp, ast.ListComp, ast.SetComp)) or \
        (isinstance(e, ast.Call) and (_dotted(e.func) or "").split(".")[-1] in ("dict", "list", "set", "OrderedDict", "defaultdict", "deque", "Counter", "bytearray",
                                                                                  "WeakKeyDictionary", "WeakValueDictionary"))


def escaping_uses(tree):
    """names (module-level style `X`) and attribute names (class-level style `obj.X`) that are used somewhere other than in a read position:
    bound to another name, passed to a call, returned, stored in a container ...  A mutable container used like that may be written through
    the alias, so it is not a constant (it is state)."""
    esc_names, esc_attrs = set(), set()
    parent = {}
    for n in ast.walk(tree):
        for c in ast.iter_child_nodes(n):
            parent[id(c)] = n

    def read_position(n):
        p = parent.get(id(n))
        if p is None:
            return True
        if isinstance(p, ast.Subscript) and p.value is n:
            return isinstance(p.ctx, ast.Load)
        if isinstance(p, ast.Compare) and n in p.comparators and all(isinstance(o, (ast.In, ast.NotIn)) for o in p.ops):
            return True
        if isinstance(p, (ast.For, ast.comprehension)) and p.iter is n:
            return True
        if isinstance(p, ast.Attribute) and p.value is n:
            return p.attr in READ_METHODS and isinstance(parent.get(id(p)), ast.Call) and parent[id(p)].func is p
        if isinstance(p, ast.Call) and n in p.args and (_dotted(p.func) or "") in READ_CALLS:
            return True
        if isinstance(p, ast.keyword) and p.arg is None:
            return True           # **X spread copies
        if isinstance(p, ast.Starred):
            return True
        if isinstance(p, ast.Expr):
            return True
        if isinstance(p, ast.Assign) and n in p.targets:
            return True           # the binding itself
        if isinstance(p, ast.AnnAssign) and p.target is n:
            return True
        return False
    for n in ast.walk(tree):
        if isinstance(n, ast.Name) and isinstance(n.ctx, ast.Load) and not read_position(n):
            esc_names.add(n.id)
        elif isinstance(n, ast.Attribute) and isinstance(n.ctx, ast.Load) and not read_position(n):
            esc_attrs.add(n.attr)
    return esc_names, esc_attrs


def _function_locals(fn):
    """names bound inside a def / lambda (parameters, stores, imports, nested defs), nested scopes included (conservative)"""
    out = set()
    a = fn.args
    for x in a.posonlyargs + a.args + a.kwonlyargs:
        out.add(x.arg)
    if a.vararg:
        out.add(a.vararg.arg)
    if a.kwarg:
        out.add(a.kwarg.arg)
    body = fn.body if isinstance(fn.body, list) else [fn.body]
    for st in body:
        for n in ast.walk(st):
            if isinstance(n, ast.Name) and isinstance(n.ctx, (ast.Store, ast.Del)):
                out.add(n.id)
            elif isinstance(n, (ast.FunctionDef, ast.AsyncFunctionDef, ast.ClassDef)):
                out.add(n.name)
            elif isinstance(n, (ast.Import, ast.ImportFrom)):
                for al in n.names:
                    out.add((al.asname or al.name).split(".")[0])
            elif isinstance(n, ast.arg):
                out.add(n.arg)
            elif isinstance(n, ast.ExceptHandler) and n.name:
                out.add(n.name)
    return out


def module_constants(tree, pinned_globals):
    """{name: value expr} for module-level names that are new, bound once to a pure expression, and never rebound / mutated"""
    cand = {}
    count = {}
    for st in tree.body:
        for n in ast.walk(st) if not isinstance(st, (ast.FunctionDef, ast.AsyncFunctionDef, ast.ClassDef)) else ():
            if isinstance(n, ast.Name) and isinstance(n.ctx, (ast.Store, ast.Del)):
                count[n.id] = count.get(n.id, 0) + 1
        if isinstance(st, ast.Assign) and len(st.targets) == 1 and isinstance(st.targets[0], ast.Name):
            cand[st.targets[0].id] = st.value
        elif isinstance(st, ast.AnnAssign) and isinstance(st.target, ast.Name) and st.value is not None:
            cand[st.target.id] = st.value
    bad = set()
    for n in ast.walk(tree):
        if isinstance(n, ast.Global):
            bad.update(n.names)
        elif isinstance(n, (ast.Subscript, ast.Attribute)) and isinstance(n.ctx, (ast.Store, ast.Del)):
            r = n.value
            while isinstance(r, (ast.Subscript, ast.Attribute)):
                r = r.value
            if isinstance(r, ast.Name):
                bad.add(r.id)
        elif isinstance(n, ast.Call) and isinstance(n.func, ast.Attribute) and n.func.attr in MUTATORS and isinstance(n.func.value, ast.Name):
            bad.add(n.func.value.id)
        elif isinstance(n, ast.AugAssign) and isinstance(n.target, ast.Name):
            bad.add(n.target.id)
    out = {}
    esc_names, _ = escaping_uses(tree)
    for name, val in cand.items():
        if name in pinned_globals or name in bad or count.get(name, 0) != 1 or name.startswith("__"):
            continue
        if _is_mutable_value(val) and name in esc_names:
            continue                                   # aliased / passed on: may be written through the alias - state, not a constant
        if _pure(val, out):
            out[name] = val
    return out


def simple_helpers(tree, mod, pinned_funcs):
    """{name: FunctionDef} for new module-level functions of the form `def f(a, b): return expr`"""
    out = {}
    for st in tree.body:
        if isinstance(st, ast.FunctionDef) and ("%s.%s" % (mod, st.name)) not in pinned_funcs and not st.decorator_list:
            body = [s for s in st.body if not (isinstance(s, ast.Expr) and isinstance(s.value, ast.Constant))]
            a = st.args
            if len(body) == 1 and isinstance(body[0], ast.Return) and body[0].value is not None and not a.defaults and not a.vararg and not a.kwarg \
                    and not a.kwonlyargs and not a.posonlyargs:
                out[st.name] = st
    return out


def class_constants(tree, pinned_class_attrs):
    """{class name: {attr: value}} for class-level names that are new, bound once to a pure expression and never assigned elsewhere"""
    out = {}
    stored = set()
    _, esc_attrs = escaping_uses(tree)
    for n in ast.walk(tree):
        if isinstance(n, (ast.Subscript,)) and isinstance(n.ctx, (ast.Store, ast.Del)) and isinstance(n.value, ast.Attribute):
            stored.add(n.value.attr)                       # obj.X[k] = v writes the container X
        elif isinstance(n, ast.Call) and isinstance(n.func, ast.Attribute) and n.func.attr in MUTATORS and isinstance(n.func.value, ast.Attribute):
            stored.add(n.func.value.attr)
        if isinstance(n, ast.Attribute) and isinstance(n.ctx, (ast.Store, ast.Del)):
            stored.add(n.attr)
        elif isinstance(n, ast.Call) and isinstance(n.func, ast.Name) and n.func.id in ("setattr", "delattr") and len(n.args) >= 2 and isinstance(n.args[1], ast.Constant):
            stored.add(n.args[1].value)
    for st in tree.body:
        if not isinstance(st, ast.ClassDef):
            continue
        count = {}
        cand = {}
        for s2 in st.body:
            if isinstance(s2, ast.Assign):
                for t in s2.targets:
                    for x in ast.walk(t):
                        if isinstance(x, ast.Name):
                            count[x.id] = count.get(x.id, 0) + 1
                if len(s2.targets) == 1 and isinstance(s2.targets[0], ast.Name):
                    cand[s2.targets[0].id] = s2.value
        methods = {s2.name for s2 in st.body if isinstance(s2, (ast.FunctionDef, ast.AsyncFunctionDef))}
        for name, val in cand.items():
            if name in pinned_class_attrs or name in stored or name in methods or count.get(name) != 1 or name.startswith("__"):
                continue
            if _is_mutable_value(val) and name in esc_attrs:
                continue                                   # aliased / passed on: may be written through the alias - state, not a constant
            if isinstance(val, ast.Name) and val.id in methods:
                continue                                   # alias of a method (__radd__ = __add__)
            if _pure(val, {}) and not any(isinstance(x, ast.Name) and x.id in cand for x in ast.walk(val)):
                out.setdefault(st.name, {})[name] = val
    return out


def _nested_simple_defs(fn):
    """{name: FunctionDef} for one-expression defs written directly in fn (any block depth, not inside another def / lambda / class)"""
    out = {}
    dup = set()

    def walk(stmts):
        for st in stmts:
            if isinstance(st, (ast.FunctionDef, ast.AsyncFunctionDef)):
                if isinstance(st, ast.FunctionDef) and not st.decorator_list:
                    body = [s for s in st.body if not (isinstance(s, ast.Expr) and isinstance(s.value, ast.Constant))]
                    a = st.args
                    if len(body) == 1 and isinstance(body[0], ast.Return) and body[0].value is not None and not a.defaults and not a.vararg and not a.kwarg \
                            and not a.kwonlyargs and not a.posonlyargs and not a.kw_defaults:
                        if st.name in out:
                            dup.add(st.name)
                        out[st.name] = st
                        continue
                dup.add(st.name)
                continue
            if isinstance(st, ast.ClassDef):
                continue
            for fld in ("body", "orelse", "finalbody"):
                v = getattr(st, fld, None)
                if isinstance(v, list):
                    walk(v)
            for h in getattr(st, "handlers", []) or []:
                walk(h.body)
    walk(fn.body)
    # a name that is also assigned otherwise in fn is not a plain def
    for n in ast.walk(fn):
        if isinstance(n, ast.Name) and isinstance(n.ctx, ast.Store) and n.id in out:
            dup.add(n.id)
    return {k: v for k, v in out.items() if k not in dup}


class _Inline(ast.NodeTransformer):
    """N1 + N1b + N2 + N2b, scope aware"""

    def __init__(self, consts, helpers, cls_consts=None):
        self.consts, self.helpers = consts, helpers
        self.cls_consts = cls_consts or {}
        self.cls = []
        self.nested = []
        self.shadow = []
        self.call_funcs = set()
        self.n = 0

    def visit_ClassDef(self, node):
        self.cls.append(node.name)
        self.generic_visit(node)
        self.cls.pop()
        return node

    def visit_Attribute(self, node):
        self.generic_visit(node)
        if isinstance(node.ctx, ast.Load) and self.shadow:
            base = _dotted(node.value)
            src_cls = None
            if base == "self" and self.cls:
                src_cls = self.cls[-1]
            elif base in self.cls_consts:
                src_cls = base
            elif base in ("self.__class__", "type(self)") and self.cls:
                src_cls = self.cls[-1]
            elif isinstance(node.value, ast.Call) and isinstance(node.value.func, ast.Name) and node.value.func.id == "type" and len(node.value.args) == 1 \
                    and _dotted(node.value.args[0]) == "self" and self.cls:
                src_cls = self.cls[-1]
            if src_cls and node.attr in self.cls_consts.get(src_cls, {}):
                self.n += 1
                new = copy.deepcopy(self.cls_consts[src_cls][node.attr])
                for x in ast.walk(new):
                    ast.copy_location(x, node)
                return new
        return node

    def _shadowed(self, name):
        return any(name in s for s in self.shadow)

    def _scope(self, node):
        self.shadow.append(_function_locals(node))
        self.nested.append(_nested_simple_defs(node) if isinstance(node, (ast.FunctionDef, ast.AsyncFunctionDef)) else {})
        self.generic_visit(node)
        self.nested.pop()
        self.shadow.pop()
        return node

    visit_FunctionDef = _scope
    visit_AsyncFunctionDef = _scope
    visit_Lambda = _scope

    def visit_Call(self, node):
        if isinstance(node.func, ast.Name):
            self.call_funcs.add(id(node.func))
        self.generic_visit(node)
        return node

    def visit_Name(self, node):
        if isinstance(node.ctx, ast.Load) and id(node) not in self.call_funcs and self.nested and node.id in self.nested[-1]:
            # N2b: a reference (not a call) to a nested one-expression def is the lambda it denotes
            fn = self.nested[-1][node.id]
            body = [s for s in fn.body if isinstance(s, ast.Return)][0].value
            self.n += 1
            lam = ast.Lambda(args=copy.deepcopy(fn.args), body=copy.deepcopy(body))
            for x in ast.walk(lam):
                ast.copy_location(x, node)
            return lam
        if not isinstance(node.ctx, ast.Load) or self._shadowed(node.id):
            return node
        if node.id in self.consts and self.shadow:          # uses inside functions only: the module-level binding itself stays
            self.n += 1
            new = copy.deepcopy(self.consts[node.id])
            new = _Inline(self.consts, {}).visit(new) if any(isinstance(x, ast.Name) and x.id in self.consts and x.id != node.id for x in ast.walk(new)) else new
            for x in ast.walk(new):
                ast.copy_location(x, node)
            return new
        if node.id in self.helpers and self.shadow and id(node) not in self.call_funcs:
            fn = self.helpers[node.id]
            body = [s for s in fn.body if isinstance(s, ast.Return)][0].value
            self.n += 1
            lam = ast.Lambda(args=copy.deepcopy(fn.args), body=copy.deepcopy(body))
            for x in ast.walk(lam):
                ast.copy_location(x, node)
            return lam
        return node


def _const_keys(d):
    return isinstance(d, ast.Dict) and d.keys and all(isinstance(k, ast.Constant) for k in d.keys)


def _same(a, b):
    return ast.dump(a) == ast.dump(b)


_FLIP = {ast.Is: ast.IsNot, ast.IsNot: ast.Is, ast.Eq: ast.NotEq, ast.NotEq: ast.Eq, ast.In: ast.NotIn, ast.NotIn: ast.In}


def _nnf(t, neg=False):
    """N14: negation normal form of a test (truth value only): not over and/or is pushed inward, not (a is b) -> a is not b, ...
    Ordering comparisons are left alone (not (a < b) is not a >= b for NaN / arrays)."""
    if isinstance(t, ast.UnaryOp) and isinstance(t.op, ast.Not):
        return _nnf(t.operand, not neg)
    if isinstance(t, ast.BoolOp):
        op = t.op
        if neg:
            op = ast.Or() if isinstance(t.op, ast.And) else ast.And()
        return ast.copy_location(ast.BoolOp(op=op, values=[_nnf(v, neg) for v in t.values]), t)
    if neg and isinstance(t, ast.Compare) and len(t.ops) == 1 and type(t.ops[0]) in _FLIP:
        return ast.copy_location(ast.Compare(left=t.left, ops=[_FLIP[type(t.ops[0])]()], comparators=t.comparators), t)
    if neg:
        return ast.copy_location(ast.UnaryOp(op=ast.Not(), operand=t), t)
    return t


_CMP_OPS = {"lt": ast.Lt, "le": ast.LtE, "eq": ast.Eq, "ne": ast.NotEq, "gt": ast.Gt, "ge": ast.GtE, "is_": ast.Is, "is_not": ast.IsNot}
_BIN_OPS = {"add": ast.Add, "sub": ast.Sub, "mul": ast.Mult, "truediv": ast.Div, "floordiv": ast.FloorDiv, "mod": ast.Mod, "pow": ast.Pow,
            "lshift": ast.LShift, "rshift": ast.RShift, "and_": ast.BitAnd, "or_": ast.BitOr, "xor": ast.BitXor, "matmul": ast.MatMult}
_UN_OPS = {"neg": ast.USub, "pos": ast.UAdd, "invert": ast.Invert, "inv": ast.Invert, "not_": ast.Not}


def _is_isinstance(v):
    return isinstance(v, ast.Call) and isinstance(v.func, ast.Name) and v.func.id == "isinstance" and len(v.args) == 2 and not v.keywords


def _type_elts(t):
    return list(t.elts) if isinstance(t, ast.Tuple) else [t]


def _import_aliases(tree, module):
    """local names under which `module` is imported in this file"""
    out = set()
    for n in ast.walk(tree):
        if isinstance(n, ast.Import):
            for al in n.names:
                if al.name == module:
                    out.add(al.asname or al.name)
    return out


def _from_import_aliases(tree, module, name):
    out = set()
    for n in ast.walk(tree):
        if isinstance(n, ast.ImportFrom) and n.module == module:
            for al in n.names:
                if al.name == name:
                    out.add(al.asname or al.name)
    return out


def _beta(call):
    """(lambda a, b: E)(x, y) -> E[x/a, y/b]; the application of what functools.partial denotes -> the call with the bound arguments"""
    lam = call.func
    a = lam.args
    if a.vararg is not None and a.vararg.arg == "_pargs" and not a.args and isinstance(lam.body, ast.Call):
        b = lam.body
        args = [x for x in b.args if not (isinstance(x, ast.Starred) and _dotted(x.value) == "_pargs")] + list(call.args)
        kws = [k for k in b.keywords if not (k.arg is None and _dotted(k.value) == "_pkw")] + list(call.keywords)
        return ast.copy_location(ast.Call(func=b.func, args=args, keywords=kws), call)
    if a.vararg or a.kwarg or a.kwonlyargs or a.posonlyargs or a.defaults or call.keywords or len(a.args) != len(call.args) or any(isinstance(x, ast.Starred) for x in call.args):
        return None
    body = copy.deepcopy(lam.body)
    for p_, v_ in zip(a.args, call.args):
        body = _SubstName(p_.arg, v_).visit(body)
    return ast.copy_location(body, call) if hasattr(call, "lineno") else body


class _Canon(ast.NodeTransformer):
    """N3, N4a, N5, N6, N14, N17-N21 (expression level)"""
    operator_aliases = frozenset()
    partial_names = frozenset()

    def _test(self, node):
        self.generic_visit(node)
        node.test = _nnf(node.test)
        return node

    visit_If = _test
    visit_IfExp = _test
    visit_While = _test
    visit_Assert = _test

    def visit_ListComp(self, node):
        self.generic_visit(node)
        un = _unroll(node)
        if un is not None:
            return ast.copy_location(ast.List(elts=un, ctx=ast.Load()), node)
        return self._map(node, node)

    def visit_Assign(self, node):
        self.generic_visit(node)
        if len(node.targets) == 1 and isinstance(node.targets[0], (ast.Tuple, ast.List)) and isinstance(node.value, ast.GeneratorExp):
            un = _unroll(node.value)
            if un is not None and len(un) == len(node.targets[0].elts):
                node.value = ast.copy_location(ast.Tuple(elts=un, ctx=ast.Load()), node.value)
        return node

    def _map(self, comp, whole):
        if len(comp.generators) == 1:
            g = comp.generators[0]
            e = comp.elt
            if not g.ifs and not g.is_async and isinstance(g.target, ast.Name) and isinstance(e, ast.Call) and not e.keywords and len(e.args) == 1 \
                    and isinstance(e.args[0], ast.Name) and e.args[0].id == g.target.id and _dotted(e.func) is not None \
                    and g.target.id not in _dotted(e.func).split("."):
                new = ast.Call(func=ast.Name(id="list", ctx=ast.Load()),
                               args=[ast.Call(func=ast.Name(id="map", ctx=ast.Load()), args=[e.func, g.iter], keywords=[])], keywords=[])
                for x in ast.walk(new):
                    if not hasattr(x, "lineno"):
                        ast.copy_location(x, whole)
                return new
        return whole

    def visit_Call(self, node):
        self.generic_visit(node)
        if isinstance(node.func, ast.Lambda):
            red = _beta(node)
            if red is not None:
                return red
        # list(map(<lambda>, X)) -> [<lambda applied to v> for v in X]   (the comprehension the lambda was extracted from)
        if isinstance(node.func, ast.Name) and node.func.id == "list" and len(node.args) == 1 and not node.keywords and isinstance(node.args[0], ast.Call) \
                and isinstance(node.args[0].func, ast.Name) and node.args[0].func.id == "map" and len(node.args[0].args) == 2 and isinstance(node.args[0].args[0], ast.Lambda):
            v = ast.Name(id="_v", ctx=ast.Load())
            app = _beta(ast.Call(func=node.args[0].args[0], args=[v], keywords=[]))
            if app is not None:
                comp = ast.ListComp(elt=app, generators=[ast.comprehension(target=ast.Name(id="_v", ctx=ast.Store()), iter=node.args[0].args[1], ifs=[], is_async=0)])
                for x in ast.walk(comp):
                    if not hasattr(x, "lineno"):
                        ast.copy_location(x, node)
                return ast.copy_location(comp, node)
        if isinstance(node.func, ast.Name) and node.func.id == "list" and len(node.args) == 1 and not node.keywords and isinstance(node.args[0], ast.GeneratorExp):
            return self._map(node.args[0], node)
        # N18: dict(a=1, b=2) -> {'a': 1, 'b': 2}
        if isinstance(node.func, ast.Name) and node.func.id == "dict" and not node.args and node.keywords and all(k.arg is not None for k in node.keywords):
            return ast.copy_location(ast.Dict(keys=[ast.copy_location(ast.Constant(value=k.arg), node) for k in node.keywords], values=[k.value for k in node.keywords]), node)
        # N19: getattr(obj, 'name') -> obj.name
        if isinstance(node.func, ast.Name) and node.func.id == "getattr" and len(node.args) == 2 and not node.keywords and isinstance(node.args[1], ast.Constant) \
                and isinstance(node.args[1].value, str) and node.args[1].value.isidentifier():
            return ast.copy_location(ast.Attribute(value=node.args[0], attr=node.args[1].value, ctx=ast.Load()), node)
        # N20: operator.lt(a, b) -> a < b ...
        d = _dotted(node.func)
        if d and "." in d and d.split(".")[0] in self.operator_aliases and not node.keywords:
            fn = d.split(".", 1)[1]
            if fn in _CMP_OPS and len(node.args) == 2:
                return ast.copy_location(ast.Compare(left=node.args[0], ops=[_CMP_OPS[fn]()], comparators=[node.args[1]]), node)
            if fn in _BIN_OPS and len(node.args) == 2:
                return ast.copy_location(ast.BinOp(left=node.args[0], op=_BIN_OPS[fn](), right=node.args[1]), node)
            if fn in _UN_OPS and len(node.args) == 1:
                return ast.copy_location(ast.UnaryOp(op=_UN_OPS[fn](), operand=node.args[0]), node)
        # N21: functools.partial(F, a, k=v)  ->  lambda *args, **kw: F(a, *args, k=v, **kw)   (reduced when applied)
        if d in self.partial_names and node.args:
            call = ast.Call(func=node.args[0], args=list(node.args[1:]) + [ast.Starred(value=ast.Name(id="_pargs", ctx=ast.Load()), ctx=ast.Load())],
                            keywords=list(node.keywords) + [ast.keyword(arg=None, value=ast.Name(id="_pkw", ctx=ast.Load()))])
            lam = ast.Lambda(args=ast.arguments(posonlyargs=[], args=[], vararg=ast.arg(arg="_pargs"), kwonlyargs=[], kw_defaults=[], kwarg=ast.arg(arg="_pkw"), defaults=[]), body=call)
            for x in ast.walk(lam):
                if not hasattr(x, "lineno"):
                    ast.copy_location(x, node)
            lam._partial = True
            return ast.copy_location(lam, node)
        return node

    def visit_BoolOp(self, node):
        self.generic_visit(node)
        # N17: isinstance(x, A) or isinstance(x, B) -> isinstance(x, (A, B))   (adjacent operands, same subject)
        if isinstance(node.op, ast.Or):
            vals = []
            for v in node.values:
                if vals and _is_isinstance(v) and _is_isinstance(vals[-1]) and _same(v.args[0], vals[-1].args[0]):
                    prev = vals[-1]
                    elts = _type_elts(prev.args[1]) + _type_elts(v.args[1])
                    vals[-1] = ast.copy_location(ast.Call(func=prev.func, args=[prev.args[0], ast.copy_location(ast.Tuple(elts=elts, ctx=ast.Load()), prev)], keywords=[]), prev)
                else:
                    vals.append(v)
            if len(vals) == 1:
                return vals[0]
            if len(vals) != len(node.values):
                return ast.copy_location(ast.BoolOp(op=node.op, values=vals), node)
        return node

    def visit_Subscript(self, node):
        self.generic_visit(node)
        d = node.value
        if isinstance(node.ctx, ast.Load) and _const_keys(d) and len(d.keys) == 2 and {k.value for k in d.keys} == {True, False} \
                and all(isinstance(k.value, bool) for k in d.keys):
            vt = d.values[0] if d.keys[0].value is True else d.values[1]
            vf = d.values[1] if d.keys[0].value is True else d.values[0]
            return ast.copy_location(ast.IfExp(test=node.slice, body=vt, orelse=vf), node)
        return node

    def visit_Compare(self, node):
        self.generic_visit(node)
        if len(node.ops) == 1 and isinstance(node.ops[0], (ast.Eq, ast.NotEq)):
            l, r = node.left, node.comparators[0]
            lc = isinstance(l, ast.Constant) or (isinstance(l, ast.Name) and l.id in TYPE_NAMES)
            rc = isinstance(r, ast.Constant) or (isinstance(r, ast.Name) and r.id in TYPE_NAMES)
            if lc and not rc:
                return ast.copy_location(ast.Compare(left=r, ops=node.ops, comparators=[l]), node)
        if len(node.ops) == 1 and isinstance(node.ops[0], (ast.In, ast.NotIn)) and isinstance(node.comparators[0], (ast.Tuple, ast.List, ast.Set)):
            elts = node.comparators[0].elts
            if 1 <= len(elts) <= 4 and all(_pure(x, {}) and not isinstance(x, ast.Starred) for x in elts):
                neg = isinstance(node.ops[0], ast.NotIn)
                cmps = [self.visit_Compare(ast.copy_location(ast.Compare(left=copy.deepcopy(node.left), ops=[ast.NotEq() if neg else ast.Eq()], comparators=[x]), node)) for x in elts]
                if len(cmps) == 1:
                    return cmps[0]
                return ast.copy_location(ast.BoolOp(op=ast.And() if neg else ast.Or(), values=cmps), node)
        return node

    def visit_JoinedStr(self, node):
        # visit the embedded expressions, but not the format specs (they are templates, handled here)
        for v in node.values:
            if isinstance(v, ast.FormattedValue):
                v.value = self.visit(v.value)
                if isinstance(v.format_spec, ast.JoinedStr):
                    for w in v.format_spec.values:
                        if isinstance(w, ast.FormattedValue):
                            w.value = self.visit(w.value)
        if not any(isinstance(v, ast.FormattedValue) for v in node.values):
            return ast.copy_location(ast.Constant(value="".join(v.value for v in node.values)), node)
        tpl, kws = [], []

        def field(expr):
            nm = "_f%d" % len(kws)
            kws.append(ast.keyword(arg=nm, value=expr))
            return nm
        for v in node.values:
            if isinstance(v, ast.Constant):
                tpl.append(str(v.value).replace("{", "{{").replace("}", "}}"))
            elif isinstance(v, ast.FormattedValue) and v.conversion == -1 and v.format_spec is None:
                tpl.append("{%s}" % field(v.value))
            elif isinstance(v, ast.FormattedValue) and v.conversion == -1 and isinstance(v.format_spec, ast.JoinedStr):
                nm = field(v.value)
                spec = []
                for w in v.format_spec.values:
                    if isinstance(w, ast.Constant):
                        spec.append(str(w.value))
                    elif isinstance(w, ast.FormattedValue) and w.conversion == -1 and w.format_spec is None:
                        spec.append("{%s}" % field(w.value))
                    else:
                        return node
                tpl.append("{%s:%s}" % (nm, "".join(spec)))
            else:
                return node
        new = ast.Call(func=ast.Attribute(value=ast.Constant(value="".join(tpl)), attr="format", ctx=ast.Load()), args=[], keywords=kws)
        for x in ast.walk(new):
            if not hasattr(x, "lineno"):
                ast.copy_location(x, node)
        return new


class _SubstName(ast.NodeTransformer):
    def __init__(self, name, value):
        self.name, self.value = name, value

    def visit_Name(self, node):
        if node.id == self.name and isinstance(node.ctx, ast.Load):
            return copy.deepcopy(self.value)
        return node

    def visit_Lambda(self, node):
        if self.name in {a.arg for a in node.args.args}:
            return node
        return self.generic_visit(node)


def _unroll(comp):
    """[E[a/v], E[b/v]] for a comprehension `E for v in (a, b)` over a short literal sequence of plain references, else None"""
    if len(comp.generators) != 1:
        return None
    g = comp.generators[0]
    if g.ifs or g.is_async or not isinstance(g.target, ast.Name) or not isinstance(g.iter, (ast.Tuple, ast.List)) or not (1 <= len(g.iter.elts) <= 4):
        return None
    if any(isinstance(x, ast.Starred) for x in g.iter.elts):
        return None
    return [_SubstName(g.target.id, x).visit(copy.deepcopy(comp.elt)) for x in g.iter.elts]


class _Repl(ast.NodeTransformer):
    def __init__(self, match, make):
        self.match, self.make = match, make

    def visit(self, node):
        if self.match(node):
            return self.make(node)
        return super().visit(node)


def _conjuncts(t):
    if isinstance(t, ast.BoolOp) and isinstance(t.op, ast.And):
        out = []
        for v in t.values:
            out += _conjuncts(v)
        return out
    return [t]


def _loads_of(name, stmts):
    n = 0
    for st in stmts:
        for x in ast.walk(st):
            if isinstance(x, ast.Name) and x.id == name:
                n += 1
    return n


def _stmts(body, enclosing_rest=()):
    """N4b, N7, N8 on a statement list (recursively)"""
    out = []
    i = 0
    body = list(body)
    while i < len(body):
        s = body[i]
        # N7a: a local bound once to a generator expression and consumed by the next for loop
        if isinstance(s, ast.Assign) and len(s.targets) == 1 and isinstance(s.targets[0], ast.Name) and isinstance(s.value, ast.GeneratorExp) \
                and i + 1 < len(body) and isinstance(body[i + 1], ast.For) and isinstance(body[i + 1].iter, ast.Name) \
                and body[i + 1].iter.id == s.targets[0].id and _loads_of(s.targets[0].id, body[i + 1:]) == 1:
            f2 = copy.copy(body[i + 1])
            f2.iter = s.value
            body[i + 1] = f2
            i += 1
            continue
        # N12: L = [] ; for v in IT: L.append(E)   ->   L = [E for v in IT]
        if isinstance(s, ast.Assign) and len(s.targets) == 1 and isinstance(s.targets[0], ast.Name) and isinstance(s.value, ast.List) and not s.value.elts \
                and i + 1 < len(body) and isinstance(body[i + 1], ast.For) and not body[i + 1].orelse and len(body[i + 1].body) == 1:
            L = s.targets[0].id
            fr = body[i + 1]
            b = fr.body[0]
            if isinstance(b, ast.Expr) and isinstance(b.value, ast.Call) and isinstance(b.value.func, ast.Attribute) and b.value.func.attr == "append" \
                    and isinstance(b.value.func.value, ast.Name) and b.value.func.value.id == L and len(b.value.args) == 1 and not b.value.keywords \
                    and not any(isinstance(x, ast.Name) and x.id == L for x in ast.walk(b.value.args[0])) \
                    and not any(isinstance(x, ast.Name) and x.id == L for x in ast.walk(fr.iter)):
                comp = ast.ListComp(elt=b.value.args[0], generators=[ast.comprehension(target=fr.target, iter=fr.iter, ifs=[], is_async=0)])
                new = ast.Assign(targets=[s.targets[0]], value=comp)
                ast.copy_location(comp, fr)
                ast.copy_location(new, fr)
                out.append(new)
                i += 2
                continue
        for fld in ("body", "orelse", "finalbody"):
            v = getattr(s, fld, None)
            if isinstance(v, list) and v and isinstance(v[0], ast.stmt):
                s = copy.copy(s) if s is body[i] else s
                setattr(s, fld, _stmts(v))
        if isinstance(s, ast.Try):
            hs = []
            for h in s.handlers:
                h2 = copy.copy(h)
                h2.body = _stmts(h.body)
                hs.append(h2)
            s.handlers = hs
        # N16: assignment expressions in a test / simple statement -> assignment statements in front of it
        if isinstance(s, (ast.If, ast.Assign, ast.AugAssign, ast.AnnAssign, ast.Return, ast.Expr)):
            host = s.test if isinstance(s, ast.If) else getattr(s, "value", None)
            if host is not None and any(isinstance(x, ast.NamedExpr) for x in ast.walk(host)):
                pre = []

                class _W(ast.NodeTransformer):
                    def visit_Lambda(self, n):
                        return n

                    def visit_NamedExpr(self, n):
                        v = self.visit(n.value)
                        a = ast.Assign(targets=[ast.Name(id=n.target.id, ctx=ast.Store())], value=v)
                        ast.copy_location(a, s)
                        ast.copy_location(a.targets[0], n)
                        pre.append(a)
                        return ast.copy_location(ast.Name(id=n.target.id, ctx=ast.Load()), n)
                new_host = _W().visit(copy.deepcopy(host))
                s = copy.copy(s)
                if isinstance(s, ast.If):
                    s.test = new_host
                else:
                    s.value = new_host
                out.extend(pre)
        # N15: while-loops that spell a for-loop
        if isinstance(s, ast.While) and not s.orelse:
            conv = _while_to_for(s, out, body[i + 1:])
            if conv is not None:
                s = conv
        # N7b: loop over a generator expression
        if isinstance(s, ast.For) and isinstance(s.iter, ast.GeneratorExp) and len(s.iter.generators) == 1 and not s.iter.generators[0].is_async and not s.orelse:
            g = s.iter.generators[0]
            inner = [ast.copy_location(ast.Assign(targets=[_store(s.target)], value=s.iter.elt), s)] + list(s.body)
            for c in reversed(g.ifs):
                inner = [ast.copy_location(ast.If(test=c, body=inner, orelse=[]), s)]
            s = ast.copy_location(ast.For(target=g.target, iter=g.iter, body=inner, orelse=[], type_comment=None), s)
        # N8: X.update(k=v, ...) as a statement
        if isinstance(s, ast.Expr) and isinstance(s.value, ast.Call) and isinstance(s.value.func, ast.Attribute) and s.value.func.attr == "update" \
                and _dotted(s.value.func.value) is not None:
            c = s.value
            pairs = None
            if not c.args and c.keywords and all(k.arg is not None for k in c.keywords):
                pairs = [(ast.Constant(value=k.arg), k.value) for k in c.keywords]
            elif len(c.args) == 1 and not c.keywords and isinstance(c.args[0], ast.Dict) and all(k is not None for k in c.args[0].keys):
                pairs = list(zip(c.args[0].keys, c.args[0].values))
            elif len(c.args) == 1 and not c.keywords and isinstance(c.args[0], ast.Call) and _dotted(c.args[0].func) == "dict" and not c.args[0].args \
                    and all(k.arg is not None for k in c.args[0].keywords):
                pairs = [(ast.Constant(value=k.arg), k.value) for k in c.args[0].keywords]
            if pairs:
                for k, v in pairs:
                    tgt = ast.Subscript(value=copy.deepcopy(c.func.value), slice=k, ctx=ast.Store())
                    a = ast.Assign(targets=[tgt], value=v)
                    for x in ast.walk(a):
                        if not hasattr(x, "lineno"):
                            ast.copy_location(x, s)
                    ast.copy_location(a, s)
                    out.append(a)
                i += 1
                continue
        # N4b: membership in a literal dict selects the branch
        if isinstance(s, ast.If):
            exp = _expand_dict_if(s)
            if exp is not None:
                s = exp
        out.append(s)
        i += 1
    return out


def _names(nodes):
    out = set()
    for n in nodes:
        for x in ast.walk(n):
            if isinstance(x, ast.Name):
                out.add(x.id)
    return out


def _find_binding(out, name, pred):
    """index in `out` (statements already emitted in this block) of the last `name = <value satisfying pred>`"""
    for j in range(len(out) - 1, -1, -1):
        st = out[j]
        if isinstance(st, ast.Assign) and len(st.targets) == 1 and isinstance(st.targets[0], ast.Name) and st.targets[0].id == name:
            return j if pred(st.value) else None
        if name in _names([st]):
            return None
    return None


def _is_call(e, fname, nargs):
    return isinstance(e, ast.Call) and isinstance(e.func, ast.Name) and e.func.id == fname and len(e.args) in nargs and not e.keywords


def _while_to_for(s, out, rest):
    """N15: the three while spellings of `for v in X: BODY` (explicit iterator with try/next, sentinel with walrus, index loop)"""
    t = s.test
    # (a) while True: try: v = next(it) except StopIteration: break; BODY
    if isinstance(t, ast.Constant) and t.value is True and s.body and isinstance(s.body[0], ast.Try):
        tr = s.body[0]
        if len(tr.body) == 1 and isinstance(tr.body[0], ast.Assign) and len(tr.body[0].targets) == 1 and _is_call(tr.body[0].value, "next", (1,)) \
                and isinstance(tr.body[0].value.args[0], ast.Name) and len(tr.handlers) == 1 and not tr.orelse and not tr.finalbody \
                and isinstance(tr.handlers[0].type, ast.Name) and tr.handlers[0].type.id == "StopIteration" \
                and len(tr.handlers[0].body) == 1 and isinstance(tr.handlers[0].body[0], ast.Break):
            it = tr.body[0].value.args[0].id
            j = _find_binding(out, it, lambda v: _is_call(v, "iter", (1,)))
            if j is not None and it not in _names(s.body[1:]) and it not in _names(rest):
                src_iter = out[j].value.args[0]
                del out[j]
                return ast.copy_location(ast.For(target=_store(tr.body[0].targets[0]), iter=src_iter, body=list(s.body[1:]) or [ast.copy_location(ast.Pass(), s)], orelse=[], type_comment=None), s)
    # (b) while (v := next(it, END)) is not END: BODY
    if isinstance(t, ast.Compare) and len(t.ops) == 1 and isinstance(t.ops[0], ast.IsNot) and isinstance(t.left, ast.NamedExpr) \
            and _is_call(t.left.value, "next", (2,)) and isinstance(t.left.value.args[0], ast.Name) and isinstance(t.left.value.args[1], ast.Name) \
            and isinstance(t.comparators[0], ast.Name) and t.comparators[0].id == t.left.value.args[1].id:
        it, end = t.left.value.args[0].id, t.comparators[0].id
        j = _find_binding(out, it, lambda v: _is_call(v, "iter", (1,)))
        if j is not None and it not in _names(s.body) and it not in _names(rest) and end not in _names(s.body):
            src_iter = out[j].value.args[0]
            del out[j]
            k = _find_binding(out, end, lambda v: _is_call(v, "object", (0,)))
            if k is not None and end not in _names(rest):
                del out[k]
            return ast.copy_location(ast.For(target=_store(t.left.target), iter=src_iter, body=list(s.body), orelse=[], type_comment=None), s)
    # (c) i = 0; while i < len(S): ... S[i] ...; i += 1
    if isinstance(t, ast.Compare) and len(t.ops) == 1 and isinstance(t.ops[0], ast.Lt) and isinstance(t.left, ast.Name) and _is_call(t.comparators[0], "len", (1,)) \
            and isinstance(t.comparators[0].args[0], ast.Name) and len(s.body) >= 2:
        i, S = t.left.id, t.comparators[0].args[0].id
        last = s.body[-1]
        inc = isinstance(last, ast.AugAssign) and isinstance(last.op, ast.Add) and isinstance(last.target, ast.Name) and last.target.id == i \
            and isinstance(last.value, ast.Constant) and last.value.value == 1
        j = _find_binding(out, i, lambda v: isinstance(v, ast.Constant) and v.value == 0 and not isinstance(v.value, bool))
        inner = s.body[:-1]
        if inc and j is not None and i not in _names(rest) and not any(isinstance(x, (ast.Continue,)) for b in inner for x in ast.walk(b)):
            # every use of i in the body is the subscript S[i] (load); S and i are not stored in the body
            ok = True
            uses = 0
            for b in inner:
                for x in ast.walk(b):
                    if isinstance(x, ast.Name) and x.id in (i, S) and isinstance(x.ctx, (ast.Store, ast.Del)):
                        ok = False
            class _Sub(ast.NodeTransformer):
                def visit_Subscript(self, n):
                    nonlocal uses
                    if isinstance(n.value, ast.Name) and n.value.id == S and isinstance(n.slice, ast.Name) and n.slice.id == i and isinstance(n.ctx, ast.Load):
                        uses += 1
                        return ast.copy_location(ast.Name(id=elem, ctx=ast.Load()), n)
                    return self.generic_visit(n)
            first = inner[0]
            if isinstance(first, ast.Assign) and len(first.targets) == 1 and isinstance(first.targets[0], ast.Name) and isinstance(first.value, ast.Subscript) \
                    and isinstance(first.value.value, ast.Name) and first.value.value.id == S and isinstance(first.value.slice, ast.Name) and first.value.slice.id == i:
                elem = first.targets[0].id
                inner2 = inner[1:]
            else:
                elem = "_elem_" + i
                inner2 = inner
            new_body = [_Sub().visit(copy.deepcopy(b)) for b in inner2]
            if ok and i not in _names(new_body):
                del out[j]
                return ast.copy_location(ast.For(target=ast.Name(id=elem, ctx=ast.Store()), iter=ast.Name(id=S, ctx=ast.Load()), body=new_body or [ast.copy_location(ast.Pass(), s)], orelse=[], type_comment=None), s)
    return None


def _store(t):
    t = copy.deepcopy(t)
    for x in ast.walk(t):
        if isinstance(x, (ast.Name, ast.Tuple, ast.List, ast.Attribute, ast.Subscript, ast.Starred)):
            x.ctx = ast.Store()
    return t


def _expand_dict_if(s):
    cj = _conjuncts(s.test)
    hit = None
    for c in cj:
        if isinstance(c, ast.Compare) and len(c.ops) == 1 and isinstance(c.ops[0], ast.In) and _const_keys(c.comparators[0]) and len(c.comparators[0].keys) <= 12:
            hit = c
            break
    if hit is None:
        return None
    d, key = hit.comparators[0], hit.left
    chain = None
    for k, v in reversed(list(zip(d.keys, d.values))):
        eq = ast.copy_location(ast.Compare(left=copy.deepcopy(key), ops=[ast.Eq()], comparators=[k]), hit)
        test = _Repl(lambda n: n is hit, lambda n: eq).visit(_shallow(s.test, hit))
        is_sub = lambda n, d=d, key=key: isinstance(n, ast.Subscript) and isinstance(n.value, ast.Dict) and _same(n.value, d) and _same(n.slice, key)
        body = [_Repl(is_sub, lambda n, v=v: copy.deepcopy(v)).visit(copy.deepcopy(b)) for b in s.body]
        node = ast.copy_location(ast.If(test=test, body=body, orelse=[chain] if chain is not None else list(s.orelse)), s)
        chain = node
    return chain


def _shallow(t, keep):
    """copy of a test expression in which the node `keep` keeps its identity"""
    if t is keep:
        return t
    if isinstance(t, ast.BoolOp):
        n = ast.copy_location(ast.BoolOp(op=t.op, values=[_shallow(v, keep) for v in t.values]), t)
        return n
    return copy.deepcopy(t)


def _local_dicts(fn):
    """N11: a local bound to a literal dict / literal tuple of references / lambda and only read afterwards (in the same block) is replaced by its value"""
    stores, other = {}, set()
    for n in ast.walk(fn):
        if isinstance(n, ast.Assign) and len(n.targets) == 1 and isinstance(n.targets[0], ast.Name):
            stores.setdefault(n.targets[0].id, []).append(n)
        elif isinstance(n, (ast.AugAssign, ast.AnnAssign)) and isinstance(n.target, ast.Name):
            other.add(n.target.id)
        elif isinstance(n, (ast.For, ast.comprehension)):
            for x in ast.walk(n.target):
                if isinstance(x, ast.Name):
                    other.add(x.id)
        elif isinstance(n, (ast.Subscript, ast.Attribute)) and isinstance(n.ctx, (ast.Store, ast.Del)) and isinstance(n.value, ast.Name):
            other.add(n.value.id)
        elif isinstance(n, ast.Call) and isinstance(n.func, ast.Attribute) and isinstance(n.func.value, ast.Name) and n.func.attr in MUTATORS:
            other.add(n.func.value.id)
        elif isinstance(n, ast.arg):
            other.add(n.arg)
        elif isinstance(n, (ast.Global, ast.Nonlocal)):
            other.update(n.names)
        elif isinstance(n, ast.Assign):
            for t in n.targets:
                for x in ast.walk(t):
                    if isinstance(x, ast.Name) and isinstance(x.ctx, ast.Store) and not (len(n.targets) == 1 and t is n.targets[0] and isinstance(t, ast.Name)):
                        other.add(x.id)
    done = []
    for name, sts in stores.items():
        if name in other:
            continue
        def _inlinable(v):
            if _const_keys(v) and all(_pure(x, {}) for x in v.values):
                return True                                       # literal dict (dispatch table)
            if isinstance(v, ast.Tuple) and v.elts and all(_pure(x, {}) for x in v.elts):
                return True                                       # literal tuple of constants / references (loop table)
            if isinstance(v, ast.Lambda):
                return True                                       # local lambda (incl. what functools.partial denotes): reduced where applied
            return False
        if not all(_inlinable(st.value) for st in sts):
            continue
        loads = [x for x in ast.walk(fn) if isinstance(x, ast.Name) and x.id == name and isinstance(x.ctx, ast.Load)]
        if not loads:
            continue
        plan = []
        covered = set()
        okp = True
        for st in sts:
            block = _block_of(fn, st)
            if block is None:
                okp = False
                break
            later = block[[i for i, x in enumerate(block) if x is st][0] + 1:]
            # no re-binding of the name (or of a referenced value) in the statements the binding reaches
            vnames = ({x.id for x in ast.walk(st.value) if isinstance(x, ast.Name) and isinstance(x.ctx, ast.Load)} - ({a.arg for a in ast.walk(st.value) if isinstance(a, ast.arg)})) | {name}
            if any(isinstance(x, ast.Name) and isinstance(x.ctx, ast.Store) and x.id in vnames for s2 in later for x in ast.walk(s2)):
                okp = False
                break
            covered |= {id(x) for s2 in later for x in ast.walk(s2)}
            plan.append((st, block, later))
        if not okp or any(id(u) not in covered for u in loads):      # every read is dominated by one binding in its own block
            continue
        for st, block, later in plan:
            for j, s2 in enumerate(later):
                _SubstName(name, st.value).visit(s2)
            idx = [i for i, x in enumerate(block) if x is st][0]
            del block[idx]
            if not block:
                block.append(ast.copy_location(ast.Pass(), st))
        done.append(name)
    return done


def _block_of(fn, st):
    for n in ast.walk(fn):
        for fld in ("body", "orelse", "finalbody"):
            v = getattr(n, fld, None)
            if isinstance(v, list) and any(x is st for x in v):
                return v
    return None


class _LocalDicts(ast.NodeTransformer):
    def visit_FunctionDef(self, node):
        self.generic_visit(node)
        _local_dicts(node)
        return node


class _Bodies(ast.NodeTransformer):
    def visit_FunctionDef(self, node):
        self.generic_visit(node)
        node.body = _stmts(node.body)
        return node

    visit_AsyncFunctionDef = visit_FunctionDef


def _ladder_expr(stmts):
    """the expression a `[if C: return A]* return B` ladder returns (if/elif/else with single returns included), or None"""
    stmts = [s for s in stmts if not (isinstance(s, ast.Expr) and isinstance(s.value, ast.Constant))]
    if not stmts:
        return None
    s0 = stmts[0]
    if isinstance(s0, ast.Return) and s0.value is not None:
        return s0.value if len(stmts) == 1 else None
    if isinstance(s0, ast.If):
        a = _ladder_expr(s0.body)
        if a is None:
            return None
        if s0.orelse:
            b = _ladder_expr(s0.orelse)
            if b is None or len(stmts) != 1:
                return None
        else:
            b = _ladder_expr(stmts[1:])
            if b is None:
                return None
        return ast.IfExp(test=s0.test, body=a, orelse=b)
    return None


class _TupleCalls(ast.NodeTransformer):
    def __init__(self, names):
        self.names = names

    def visit_Call(self, node):
        self.generic_visit(node)
        if isinstance(node.func, ast.Name) and node.func.id in self.names and not node.keywords and not any(isinstance(a, ast.Starred) for a in node.args):
            node.args = [ast.copy_location(ast.Tuple(elts=list(node.args), ctx=ast.Load()), node)]
        return node


def prepare_helpers(tree, mod, pinned_funcs):
    """N22: a new module-level function whose body is a ladder of `if C: return A` ... `return B` becomes `return A if C else B` (one expression);
    N23: a new module-level function whose only parameter is *v, and which the module only ever calls with plain positional arguments, takes
    the tuple itself: def f(v), calls f((a, b))."""
    names = {}
    for st in tree.body:
        if isinstance(st, ast.FunctionDef) and ("%s.%s" % (mod, st.name)) not in pinned_funcs and not st.decorator_list:
            names[st.name] = st
    if not names:
        return tree
    for st in names.values():
        body = [s for s in st.body if not (isinstance(s, ast.Expr) and isinstance(s.value, ast.Constant))]
        if len(body) > 1 or (body and isinstance(body[0], ast.If)):
            if any(isinstance(x, (ast.Yield, ast.YieldFrom, ast.NamedExpr)) for x in ast.walk(st)):
                continue
            e = _ladder_expr(body)
            if e is not None:
                st.body = [ast.copy_location(ast.Return(value=e), body[0])]
    var = set()
    for name, st in names.items():
        a = st.args
        if a.vararg is not None and not (a.args or a.kwarg or a.kwonlyargs or a.posonlyargs or a.defaults):
            refs = [n for n in ast.walk(tree) if isinstance(n, ast.Name) and n.id == name]
            calls = [n for n in ast.walk(tree) if isinstance(n, ast.Call) and isinstance(n.func, ast.Name) and n.func.id == name
                     and not n.keywords and not any(isinstance(x, ast.Starred) for x in n.args)]
            attr_refs = [n for n in ast.walk(tree) if isinstance(n, ast.Attribute) and n.attr == name]
            if len(refs) == len(calls) and not attr_refs:
                var.add(name)
    if var:
        tree = _TupleCalls(var).visit(tree)
        for name in var:
            a = names[name].args
            a.args = [ast.arg(arg=a.vararg.arg)]
            a.vararg = None
    return tree


def normalize_module(mod, tree, pinned_funcs, pinned_globals):
    from .pinned import PINNED_CLASS_ATTRS
    tree = prepare_helpers(tree, mod, pinned_funcs)
    consts = module_constants(tree, pinned_globals)
    helpers = simple_helpers(tree, mod, pinned_funcs)
    cls_consts = class_constants(tree, PINNED_CLASS_ATTRS)
    inl = _Inline(consts, helpers, cls_consts)
    tree = inl.visit(tree)
    tree = _LocalDicts().visit(tree)
    canon = _Canon()
    canon.operator_aliases = frozenset(_import_aliases(tree, "operator"))
    canon.partial_names = frozenset({a + ".partial" for a in _import_aliases(tree, "functools")} | _from_import_aliases(tree, "functools", "partial"))
    tree = canon.visit(tree)
    tree = _LocalDicts().visit(tree)          # locals bound to what functools.partial denotes
    tree = canon.visit(tree)                  # ... reduced where applied
    tree = _Bodies().visit(tree)
    tree = canon.visit(tree)
    ast.fix_missing_locations(tree)
    return tree, {"constants_inlined": sorted(consts) + sorted("%s.%s" % (c, a) for c, d in cls_consts.items() for a in d), "helper_refs": sorted(helpers), "uses_rewritten": inl.n}


# --------------------------------------------------------------------------- N0: undo renames of private functions

def _params(node):
    a = node.args
    return tuple(x.arg for x in a.posonlyargs + a.args + a.kwonlyargs) + ((("*" + a.vararg.arg),) if a.vararg else ()) + ((("**" + a.kwarg.arg),) if a.kwarg else ())


def _body_digest(node):
    import hashlib
    body = [s for s in node.body if not (isinstance(s, ast.Expr) and isinstance(s.value, ast.Constant))]
    return hashlib.sha1("\n".join(ast.dump(s) for s in body).encode()).hexdigest()[:16]


def undo_private_renames(trees, pinned_funcs, pinned_params, pinned_body):
    """N0: a private function/method of the pinned tree that is gone while a new function with the same body, or the only new function
    with the same parameter list, exists in the same class/module, was renamed: the new name is mapped back everywhere in the package.
    trees: {module: ast.Module} (modified in place).  Returns {new name: pinned qualname}."""
    inv = {}
    for m, tree in trees.items():
        for st in tree.body:
            if isinstance(st, (ast.FunctionDef, ast.AsyncFunctionDef)):
                inv["%s.%s" % (m, st.name)] = (m, None, st)
            elif isinstance(st, ast.ClassDef):
                for s2 in st.body:
                    if isinstance(s2, (ast.FunctionDef, ast.AsyncFunctionDef)):
                        inv["%s.%s.%s" % (m, st.name, s2.name)] = (m, st.name, s2)
    missing = [q for q in pinned_params if q not in inv]
    new = {q: v for q, v in inv.items() if q not in pinned_funcs}
    if not missing or not new:
        return {}
    ren = {}
    taken = set()
    for q in missing:
        scope = q.rsplit(".", 1)[0]
        cands = [nq for nq, (m, c, node) in new.items() if nq.rsplit(".", 1)[0] == scope and nq not in taken]
        pick = [nq for nq in cands if _body_digest(new[nq][2]) == pinned_body.get(q)]
        if len(pick) != 1:
            same = [nq for nq in cands if _params(new[nq][2]) == tuple(pinned_params[q])]
            rivals = [q2 for q2 in missing if q2 != q and q2.rsplit(".", 1)[0] == scope and tuple(pinned_params[q2]) == tuple(pinned_params[q])]
            pick = same if (len(same) == 1 and not rivals) else []
        if len(pick) == 1:
            taken.add(pick[0])
            ren[pick[0].rsplit(".", 1)[1]] = q
    if not ren:
        return {}
    # names must be unambiguous in the package: no other definition of the new name
    back = {new_name: q.rsplit(".", 1)[1] for new_name, q in ren.items()}

    class _R(ast.NodeTransformer):
        def visit_FunctionDef(self, node):
            self.generic_visit(node)
            if node.name in back:
                node.name = back[node.name]
            return node

        def visit_Attribute(self, node):
            self.generic_visit(node)
            if node.attr in back:
                node.attr = back[node.attr]
            return node

        def visit_Name(self, node):
            if node.id in back and ren[node.id].count(".") == 1:      # module-level function
                node.id = back[node.id]
            return node
    for m in trees:
        trees[m] = _R().visit(trees[m])
    return ren
