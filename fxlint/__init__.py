"""fxlint - repository-specific static checkers for fxpmath (see /verif/DESIGN.md)."""
