"""C10 - format conversion gives the same correctly quantized value by every route."""
from . import conv, sizes, fresh, routes, pipeline

from . import routes, fresh, flags, sizes, conv, dtype, carriers, funcs, ops, strings, pipeline, widths

EXPLANATION = (
    "R1 the four re-scaling sites (resize restore, the normaliser's Fxp branch, equal(), like()) are scale-typed: each computes "
    "src.val * 2^(dst.n_frac - src.n_frac), a code of the destination's fraction length, with no floor/shift/cast of its own, and stores it with raw=True; "
    "R2 the storing set_val's receiver is the destination (self; in like() a deep copy of the template), so C01's pipeline quantizes under the destination's modes; "
    "resize re-stores after every size write and refreshes metadata on every path (no fast path that skips re-quantization); R3 the routes do not write to "
    "their source object; R4 no subscript by an index that is None on that path (shape preservation); R5 re-scaled codes that may be fractional are not given an integer value type before rounding; __setitem__/constructor reach the normaliser's branch through "
    "set_val (write-funnel rule); like=/template state is deep-copied (sequences of conversions do not leak modes). Residual: value-level agreement on inexact doubles."
    " Added after the third round of seeded changes: resize makes no cast of its own while re-scaling; the dtype-string reader/writer agreement (C12.R1/R2) and the element view's configuration (C17.R6) are included as conversion routes."
    ' Added after the fourth round of seeded changes: resize restores scaled objects from the read map computed with the old fraction length (C17.R2); C20.R8 objects carry only the documented attributes and no function writes module-level containers (no caches / memos that go stale).'
    ' Added after the fifth round of seeded changes: C20.R8 also forbids mutable default arguments and private attributes hung on operands (x._cache, x.__dict__[...]).'
    ' Added after the sixth round of seeded changes: C10.R5 value-type domain: no assignment stores x.dtype.type (a NumPy scalar class never compares equal to int, which silences the integer-value-type guards); C10.R2 also covers functions.fxp_like.')
ASSUMPTIONS = ["a[None] inserts an axis (NumPy lemma)", "2**k with negative k is an exact dyadic double"]
TRUSTED = ["CPython ast", "scale typing rules of DESIGN A6"]


def run(ck):
    conv.rescaling_siblings(ck, "C10.R1", "C10.R2")
    sizes.resize_rules(ck, {"restore_raw": "C10.R1", "refresh": "C10.R2", "nint": "C02.R3"})
    conv.source_untouched(ck, "C10.R3")
    sizes.init_size_relation(ck, "C06.R1")
    conv.no_none_subscripts(ck, "C10.R4")
    routes.no_truncation_before_rounding(ck, "C10.R5")
    routes.write_funnel(ck, "C01.R1")
    fresh.constructor_state(ck, "C20.R2")
    pipeline.store_pipeline(ck, "C01.R2", want_bounds=False)
    dtype.language_rules(ck, "C12.R1", "C12.R2")      # conversion through a dtype string: the reader gives back the writer's format
    conv.getitem_keeps_map(ck, "C17.R6")              # element views keep the destination's configuration
    sizes.resize_rules(ck, {"restore_scaled": "C17.R2"})
    fresh.no_hidden_state(ck, "C20.R8")                  # results depend on the documented state only (no caches / memos)
