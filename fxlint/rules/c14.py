"""C14 - shifts scale by powers of two: lossless in expand mode, arithmetic otherwise."""
from . import ops, fresh

from . import routes, fresh, flags, sizes, conv, dtype, carriers, funcs, ops, strings, pipeline, widths

EXPLANATION = (
    "R1 on every path of __rshift__/__lshift__ the stored value is the operand's own codes shifted with >> resp. << (nothing else), stored raw, and the shift count "
    "k and the result's n_frac satisfy (self.n_frac -+ k) - n_frac' == -+n as terms, i.e. the result is x*2^(-+n) for every n including 0; R2 growth: the format grows "
    "only under config.shifting == 'expand' (all other modes keep it); expand >> grows word and fraction by the same amount e and shifts by n - e; expand << sizes the "
    "word as max(n_word, max bit length of |code| + sign bit + n) (the exact spelling ceil(log2(|c|+0.5)) is part of the term); R3 no attribute of the operand is written; "
    "the result object is a constructor result or self.deepcopy(). DECLINED: that the right-expansion amount n - min_pow2(val) is large enough for losslessness "
    "(min_pow2 is a loop over the data)."
    ' Added after the third round of seeded changes: codes produced by a shift reach the buffer through set_val or the in-place >> only (C02.R1); shifting= keywords reach the final configuration (C20.R2).'
    ' Added after the fourth round of seeded changes: C20.R8 objects carry only the documented attributes and no function writes module-level containers (no caches / memos that go stale).'
    ' Added after the fifth round of seeded changes: C20.R8 also forbids mutable default arguments and private attributes hung on operands (x._cache, x.__dict__[...]).')
ASSUMPTIONS = ["|c >> n| <= |c| and c >> n == floor(c / 2^n) (sign-filling) for Python ints and int64", "c << n == c * 2^n below the carrier's capacity"]
TRUSTED = ["CPython ast", "fxlint term normaliser"]


def run(ck):
    ops.shift_rules(ck, "C14.R1", "C14.R2", "C14.R3")
    fresh.returned_objects_fresh(ck, "C20.R1")
    fresh.constructor_state(ck, "C20.R2")            # results and operands are built by the constructor: own status record, own final configuration
    routes.who_writes_codes(ck, "C02.R1")             # shifted codes reach the buffer through set_val (clamped or wrapped), or by the in-place >>
    fresh.no_hidden_state(ck, "C20.R8")                  # results depend on the documented state only (no caches / memos)
