"""C12 - dtype strings and formats determine each other (template vs regex languages, reader o writer = identity)."""
import ast
import re
import string

from ..model import dotted, src, calls_in, kw, AnalysisError
from ..common import fpaths, peel, mkterm, mkbool, const_str, guard_assignment
from ..terms import Term, NotATerm, t_not
from .. import regexlang as RL
from .. import anchors as A
from .funcs import wellformed

ALPHABET = set("0123456789+-./suqfxpcomle") | set("SUQFXPCOMLE")
POSINT = "[1-9][0-9]*"
NONNEG = "(0|[1-9][0-9]*)"
ANYINT = "-?(0|[1-9][0-9]*)"


def _templates(prog):
    """[(template string, {field: substituted expr}, stmt, path guards)] for every distinct dtype string written on a path of the refresher.
    Working on substituted paths makes locals (`sign_char = 's' if self.signed else 'u'`) and merged/split branches transparent."""
    f = A.dtype_refresher(prog)
    out = []
    seen = set()
    for pf in fpaths(prog, f):
        sts = [st for st in pf.stores if st.path == "self._dtype"]
        if not sts:
            continue
        v = sts[-1].value
        if isinstance(v, ast.Call) and isinstance(v.func, ast.Attribute) and v.func.attr == "format" and const_str(v.func.value) is not None:
            fields = {k.arg: k.value for k in v.keywords}
            key = (const_str(v.func.value), tuple(sorted((k, ast.dump(e)) for k, e in fields.items())))
            if key in seen:
                continue
            seen.add(key)
            out.append((const_str(v.func.value), fields, sts[-1].stmt, pf.guards))
        elif isinstance(v, ast.JoinedStr):
            out.append((v, None, sts[-1].stmt, pf.guards))
        elif const_str(v) is not None:
            if ("c", const_str(v)) not in seen:
                seen.add(("c", const_str(v)))
                out.append((const_str(v), {}, sts[-1].stmt, pf.guards))
    return f, out


def _regexes(prog):
    """{'q': pattern, 'fxp': pattern} from the two compile() helpers used by the parser"""
    p = A.fmt_parser(prog)
    pats = {}
    order = []
    for c in calls_in(p.node):
        if isinstance(c.func, ast.Attribute) and c.func.attr in ("match", "fullmatch"):
            base = c.func.value
            comp = []
            if isinstance(base, ast.Call) and dotted(base.func) == "re.compile":
                comp = [base]                                  # re.compile(<literal>).match(fmt) written in place (or a module constant, inlined at load)
            elif isinstance(base, ast.Call):
                q = prog.resolve_call(p, base)
                if q in prog.funcs:
                    comp = [n for n in ast.walk(prog.funcs[q].node) if isinstance(n, ast.Call) and dotted(n.func) == "re.compile"]
            for n in comp:
                if n.args and const_str(n.args[0]) is not None:
                    flags = 0
                    for a in list(n.args[1:]) + [k.value for k in n.keywords]:
                        if dotted(a) in ("re.I", "re.IGNORECASE"):
                            flags |= re.I
                    kind = "fxp" if "fxp" in const_str(n.args[0]) else "q"
                    pats[kind] = (const_str(n.args[0]), flags, c.func.attr, n)
                    order.append(kind)
    return p, pats, order


def _field_lang(name, expr, ck, f):
    """regex source of the language a formatted field can produce (case-folded), from the expression's type"""
    if const_str(expr) is not None:
        return "(" + re.escape(const_str(expr).casefold()) + ")"
    if isinstance(expr, ast.IfExp) and const_str(expr.body) is not None and const_str(expr.orelse) is not None:
        alts = sorted({const_str(expr.body).casefold(), const_str(expr.orelse).casefold()})
        return "(" + "|".join(re.escape(a) if a else "" for a in alts) + ")"
    try:
        t = mkterm(expr)
    except NotATerm:
        return None
    nw, nf = Term.var("n_word"), Term.var("n_frac")
    if t == nw:
        return POSINT
    if t == nf:
        return ANYINT
    if t == nw - nf:
        return NONNEG      # Q notation is defined for m = n_word - n_frac >= 0 (the property's quantifier)
    return ANYINT


def language_rules(ck, rule_incl, rule_inv):
    prog = ck.prog
    f, temps = _templates(prog)
    p, pats, order = _regexes(prog)
    if set(pats) != {"q", "fxp"}:
        raise AnalysisError("format parser: expected a Q/S pattern and an fxp pattern, found %s" % sorted(pats))
    ck.saw(f)
    ck.saw(p)
    # parser folds case before matching (or the patterns ignore case)
    folds = any(isinstance(c.func, ast.Attribute) and c.func.attr in ("casefold", "lower") for c in calls_in(p.node))
    allflags = all(v[1] & re.I for v in pats.values())
    ck.check(folds or allflags, rule_incl, p, "format strings are parsed case-insensitively (casefold before matching)", "no casefold()/lower() and patterns are case-sensitive", p.node,
             "'Q8.2' / 'FXP-S8/2' written in upper case would not parse")
    nfa = {}
    for k_, (pat, flags, how, node) in pats.items():
        try:
            nfa[k_] = RL.build(pat, ALPHABET, flags)
        except ValueError as e:
            raise AnalysisError("reader pattern %r: %s" % (pat, e))
    n_fxp = n_q = 0
    for tpl, fields, node, pguards in temps:
        if not isinstance(tpl, str):
            ck.unsure(rule_incl, f, "dtype template is a str.format template", node, "f-string templates are not modelled")
            continue
        if not fields and tpl == "fxp":
            continue
        parts = []
        fieldmap = {}
        okt = True
        for lit, fld, spec, conv in string.Formatter().parse(tpl):
            parts.append(re.escape(lit.casefold()))
            if fld is None:
                continue
            if spec or conv or fld not in fields:
                okt = False
                break
            lang = _field_lang(fld, fields[fld], ck, f)
            if lang is None:
                okt = False
                break
            fieldmap[fld] = lang
            parts.append("(" + lang + ")")
        if not okt:
            ck.unsure(rule_incl, f, "template fields are plain named fields with typed expressions", node, tpl)
            continue
        wpat = "".join(parts)
        kind = "fxp" if tpl.casefold().startswith("fxp") else "q"
        w = RL.build(wpat, ALPHABET)
        okinc, wit = RL.included(w, nfa[kind], ALPHABET)
        ck.check(okinc, rule_incl, f, "every dtype string the %s writer can produce is accepted by the %s reader (language inclusion, all n_word >= 1, n_frac in Z incl. negative%s)" % (kind, kind, ", complex suffix" if len(fields) > 3 else ""),
                 "writer %r produces %r which reader %r rejects" % (tpl, wit, pats[kind][0]), node,
                 "constructing or resizing with dtype=x.dtype fails or mis-parses for that format")
        if kind == "fxp":
            n_fxp += 1
            # the Q reader is tried first: no fxp string may be claimed by it (re.match = prefix match)
            if order and order[0] == "q":
                pm = RL.some_prefix_matches(w, nfa["q"], ALPHABET)
                ck.check(pm is None, rule_incl, p, "no fxp-notation string is captured by the Q/S pattern that is tried first", "Q pattern matches a prefix of %r" % pm, pats["q"][3])
        else:
            n_q += 1
    ck.check(n_fxp >= 1 and n_q >= 1, rule_incl, f, "both notations have a writer template (%d fxp, %d Q)" % (n_fxp, n_q), "writer templates found: %d fxp, %d Q" % (n_fxp, n_q), f.node)
    # ---- reader o writer = identity per field
    _inverse(ck, rule_inv, prog, f, temps, p)


def _signed_on_path(pguards):
    """True/False when the path fixes self.signed, else None"""
    asg = guard_assignment(pguards)
    v = asg.get(("b", "signed"))
    if v is None:
        return None
    return v == Term.const(1)


def _inverse(ck, rule, prog, f, temps, p):
    wf = wellformed(["self"])
    q_letters = {}
    fxp_letters = {}
    for tpl, fields, node, pguards in temps:
        if not isinstance(tpl, str) or not fields:
            continue
        sg_path = _signed_on_path(pguards)
        order = [fld for _, fld, _, _ in string.Formatter().parse(tpl) if fld]
        F = [fields.get(o) for o in order]          # fields by position in the template: the names are the author's choice
        if tpl.casefold().startswith("fxp"):
            sgn = F[0] if len(F) > 0 else None
            okw = len(F) >= 3 and dotted(F[1]) == "self.n_word" and dotted(F[2]) == "self.n_frac"
            if const_str(sgn) is not None and sg_path is not None:
                fxp_letters[sg_path] = const_str(sgn)
                oks = True
            else:
                oks = isinstance(sgn, ast.IfExp) and dotted(sgn.test) == "self.signed" and const_str(sgn.body) == "s" and const_str(sgn.orelse) == "u"
                if oks:
                    fxp_letters[True], fxp_letters[False] = "s", "u"
            ck.check(okw and oks, rule, f, "fxp template spells sign, n_word, n_frac (in this order) from the object's own fields", "fields %s" % [src(v)[:30] if v is not None else None for v in F], node,
                     "the dtype string names another format than the object's")
            if len(F) > 3:
                c = F[3]
                okc = (isinstance(c, ast.IfExp) and const_str(c.body) == "-complex" and const_str(c.orelse) == "") or const_str(c) in ("-complex", "")
                ck.check(okc, rule, f, "complex objects get the '-complex' suffix (and only they)", "comp=%s" % src(c)[:60], node)
                if const_str(c) == "":
                    # the plain spelling is chosen only after the complex flag (self.vdtype, where resize / __init__ record a parsed '-complex') was found unset
                    from ..common import path_literals
                    seenv = any(isinstance(t, ast.Compare) and len(t.ops) == 1 and isinstance(t.ops[0], (ast.Eq, ast.Is)) and dotted(t.left) == "self.vdtype"
                                and dotted(t.comparators[0]) == "complex" and not pol for t, pol in path_literals(pguards))
                    ck.check(seenv, rule, f, "the suffix is dropped only when self.vdtype is not complex (the flag a parsed '-complex' is recorded in)",
                             "plain template chosen under %s" % [(src(g[0])[:50], g[1]) for g in pguards][-2:], node,
                             "an object declared complex by its dtype string (but holding real values) loses the suffix: dtype=x.dtype no longer reproduces x's format")
        else:
            q = F[0] if F else None
            if len(F) < 3:
                ck.unsure(rule, f, "Q template fields are terms", node, "template %r has %d fields" % (tpl, len(F)))
                continue
            fields = dict(fields, nint=F[1], nfrac=F[2])
            try:
                nint = mkterm(fields["nint"]).subst({("v", "n_int"): Term.var("n_word") - Term.var("n_frac") - Term.bvar("signed")}).subst(guard_assignment(pguards))
                nfrac = mkterm(fields["nfrac"])
            except (NotATerm, KeyError) as e:
                ck.unsure(rule, f, "Q template fields are terms", node, str(e))
                continue
            nw_back = nfrac + nint
            ck.saw(terms=1)
            ck.check(nw_back == Term.var("n_word") and nfrac == Term.var("n_frac"), rule, f,
                     "Q notation m.n with m = n_word - n_frac (sign bit counted in m): parsing the rendered string gives back n_word and n_frac",
                     "renders m = %s, n = %s; parsed back n_word = %s" % (nint.show(), nfrac.show(), nw_back.show()), node,
                     "Q strings of this object parse to a different word length")
            if const_str(q) is not None and sg_path is not None:
                q_letters[sg_path] = const_str(q).casefold()
            elif isinstance(q, ast.IfExp) and dotted(q.test) == "self.signed" and const_str(q.body) is not None and const_str(q.orelse) is not None:
                q_letters[True], q_letters[False] = const_str(q.body).casefold(), const_str(q.orelse).casefold()
            else:
                ck.bad(rule, f, "Q template selects its letter by signedness", "Q=%s" % (src(q)[:50] if q is not None else None), node)
    ck.check(fxp_letters.get(True) == "s" and fxp_letters.get(False) == "u", rule, f, "fxp writer: 's' for signed, 'u' for unsigned (what the reader maps back)", "letters %s" % fxp_letters, f.node,
             "signedness is lost or inverted in the dtype string")
    sg = _reader_q_signed(prog, p)
    if sg is not None and True in q_letters and False in q_letters:
        ck.check(sg(q_letters[True]) is True and sg(q_letters[False]) is False, rule, p, "the Q reader maps the writer's signed/unsigned letters back to the signedness",
                 "reader gives signed=%s for %r and %s for %r" % (sg(q_letters[True]), q_letters[True], sg(q_letters[False]), q_letters[False]), p.node)
    else:
        ck.check(sg is not None and len(q_letters) == 2, rule, f, "Q writer has a letter for each signedness", "letters %s" % q_letters, f.node)
    # reader field mapping
    pfs = fpaths(prog, p)
    seen = {"q": 0, "fxp": 0}
    for pf in pfs:
        if pf.end != "return" or pf.ret is None or not isinstance(pf.ret, ast.Tuple) or len(pf.ret.elts) != 4:
            continue
        sgn, nw, nf, cx = pf.ret.elts
        kind = _path_kind(prog, p, pf, None)
        if kind is None:
            ck.unsure(rule, p, "each returning path of the parser reads the groups of one pattern", pf.ret_stmt, "pattern behind %s not identified" % src(nw)[:60])
            continue

        def grp(e):
            """group number an expression reads: int(mo.group(k)) / mo.group(k)[1:] ..."""
            for n in ast.walk(e):
                if isinstance(n, ast.Call) and isinstance(n.func, ast.Attribute) and n.func.attr == "group" and n.args and isinstance(n.args[0], ast.Constant):
                    return n.args[0].value
                if isinstance(n, ast.Subscript) and isinstance(n.value, ast.Call) and isinstance(n.value.func, ast.Attribute) and n.value.func.attr == "groups" \
                        and isinstance(n.slice, ast.Constant) and isinstance(n.slice.value, int) and n.slice.value >= 0:
                    return n.slice.value + 1          # sign, n_int, n_frac = mo.groups()
            return None
        if kind == "fxp":
            good = grp(sgn) == 1 and grp(nw) == 2 and grp(nf) == 3
            # signed = group(1) == 's'
            oks = isinstance(sgn, ast.Compare) and isinstance(sgn.ops[0], ast.Eq) and const_str(sgn.comparators[0]) == "s"
            ck.check(good and oks, rule, p, "fxp reader: signed = (group1 == 's'), n_word = int(group2), n_frac = int(group3)", "returns (%s, %s, %s)" % (src(sgn)[:30], src(nw)[:30], src(nf)[:30]), pf.ret_stmt,
                     "fields are read from the wrong groups")
            seen["fxp"] += 1
        else:
            # n_word = n_frac + n_int with n_int from group2 and n_frac from group3 (or 0 when absent)
            g2 = grp(nw)
            oknw = isinstance(peel(nw)[0], ast.BinOp) and isinstance(peel(nw)[0].op, ast.Add) and {grp(peel(nw)[0].left), grp(peel(nw)[0].right)} <= {2, 3, None} and 2 in {grp(peel(nw)[0].left), grp(peel(nw)[0].right)}
            oknf = grp(nf) == 3 or (isinstance(nf, ast.Constant) and nf.value == 0)
            if isinstance(nf, ast.Constant) and nf.value == 0:
                oknw = oknw or True
            try:
                tn = mkterm(nw, rename=lambda d: d)
                tf = mkterm(nf, rename=lambda d: d)
                # n_int is whatever int(group2) denotes: the word must be exactly fraction + that (no correction term)
                g2expr = None
                for sub in ast.walk(nw):
                    if isinstance(sub, ast.Call) and dotted(sub.func) == "int" and sub.args and grp(sub.args[0]) == 2:
                        g2expr = sub
                if g2expr is not None:
                    oknw = oknw and (tn == tf + mkterm(g2expr, rename=lambda d: d))
            except NotATerm:
                pass
            ck.check(grp(sgn) == 1 and oknw and oknf, rule, p, "Q reader: n_frac = int(group3) (0 when absent), n_word = n_frac + int(group2)", "returns (%s, %s, %s)" % (src(sgn)[:30], src(nw)[:40], src(nf)[:30]), pf.ret_stmt,
                     "m.n must denote n_word = m + n")
            seen["q"] += 1
    ck.check(seen["q"] >= 1 and seen["fxp"] >= 1, rule, p, "parser has returning paths for both notations", "paths: %s" % seen, p.node)
    ck.check(any(pf.end == "raise" for pf in pfs), rule, p, "an unrecognised format string raises", "parser never raises", p.node)
    # a string one of the patterns matched is never rejected afterwards (every format the writer renders is constructible, oversized fractions included)
    from ..common import path_literals as _pl
    for pf in pfs:
        if pf.end != "raise":
            continue
        matched = [t for t, pol in _pl(pf.guards) if _match_truth(t, pol) is True]
        if matched:
            ck.bad(rule, p, "a format string accepted by a reader pattern is not rejected by a later check", "raises although %s matched" % src(matched[0])[:60], pf.ret_stmt or p.node,
                   "dtype strings the writer produces (e.g. fxp-s8/12, n_frac > n_word) can no longer be fed back")
            break


def _is_match_call(x):
    return isinstance(x, ast.Call) and isinstance(x.func, ast.Attribute) and x.func.attr in ("match", "fullmatch")


def _match_truth(t, pol):
    """True: the literal says a pattern matched; False: that it did not; None: not about a match object"""
    if _is_match_call(t):
        return pol
    if isinstance(t, ast.Compare) and len(t.ops) == 1 and _is_match_call(t.left) and isinstance(t.comparators[0], ast.Constant) and t.comparators[0].value is None:
        if isinstance(t.ops[0], (ast.Is, ast.Eq)):
            return not pol
        if isinstance(t.ops[0], (ast.IsNot, ast.NotEq)):
            return pol
    return None


def _path_kind(prog, p, pf, pats):
    """'q' / 'fxp': the pattern whose groups the returned tuple of this path reads (the match object is substituted into the returned expressions)"""
    kinds = set()
    for e in pf.ret.elts:
        for n in ast.walk(e):
            if isinstance(n, ast.Call) and isinstance(n.func, ast.Attribute) and n.func.attr in ("group", "groups"):
                for m in ast.walk(n.func.value):
                    if _is_match_call(m):
                        base = m.func.value
                        lit = None
                        if isinstance(base, ast.Call) and dotted(base.func) == "re.compile" and base.args:
                            lit = const_str(base.args[0])
                        elif isinstance(base, ast.Call):
                            q = prog.resolve_call(p, base)
                            if q in prog.funcs:
                                for c2 in ast.walk(prog.funcs[q].node):
                                    if isinstance(c2, ast.Call) and dotted(c2.func) == "re.compile" and c2.args and const_str(c2.args[0]) is not None:
                                        lit = const_str(c2.args[0])
                        if lit is not None:
                            kinds.add("fxp" if "fxp" in lit else "q")
    if len(kinds) == 1:
        return kinds.pop()
    if not kinds:
        # the groups are read through a name the path engine could not see through: fall back to which pattern is known to have matched
        for g in pf.guards:
            tr = _match_truth(g[0], g[1])
            if tr is True:
                for m in ast.walk(g[0]):
                    if _is_match_call(m):
                        txt = src(m)
                        return "fxp" if "fxp" in txt.lower() else "q"
    return None


def _reader_q_signed(prog, p):
    """python predicate for `mo.group(1) in 'sq'` / `== 's'` found in the Q branch, as a function of the captured text"""
    for n in ast.walk(p.node):
        if isinstance(n, ast.Assign) and any(dotted(t) == "signed" for t in n.targets) and isinstance(n.value, ast.Compare):
            c = n.value
            lit = const_str(c.comparators[0])
            if isinstance(c.ops[0], ast.In) and lit is not None:
                return lambda s, lit=lit: s in lit
            if isinstance(c.ops[0], ast.In) and isinstance(c.comparators[0], (ast.Tuple, ast.List, ast.Set)):
                opts = [const_str(e) for e in c.comparators[0].elts]
                return lambda s, opts=opts: s in opts
    return None


def entry_points(ck, rule):
    """C12.R3: __init__(dtype=) and resize(dtype=) take (signed, n_word, n_frac, complex) from the parser in its order and set the value type to
    complex exactly when the parsed complex flag is set; in the constructor the parsed format is applied after the like/template state copy."""
    prog = ck.prog
    p = A.fmt_parser(prog)
    for q in ("objects.Fxp.__init__", "objects.Fxp.resize"):
        f = prog.func(q)
        n_cplx = n_plain = 0
        hit = False
        okorder = True
        for pf in fpaths(prog, f):
            if pf.end == "raise":
                continue
            pcs = [ce for ce in pf.calls if prog.resolve_call(ce.ctx or f, ce.raw) in (p.qualname, A.fmt_parser_entry(prog).qualname)]
            if not pcs:
                continue
            hit = True
            pc = pcs[0]

            def is_elem(e, i):
                e = peel(e)[0] if e is not None else None
                while isinstance(e, ast.Call) and dotted(e.func) in ("int", "bool") and e.args:
                    e = peel(e.args[0])[0]
                return isinstance(e, ast.Subscript) and isinstance(e.value, ast.Call) and ast.dump(e.value) == ast.dump(pc.call) and isinstance(e.slice, ast.Constant) and e.slice.value == i
            # sizes in force afterwards come from the parser's entries 0,1,2
            for attr, i in (("self.signed", 0), ("self.n_word", 1), ("self.n_frac", 2)):
                v = pf.env.get(attr)
                if f.name == "resize" and v is not None and not is_elem(v, i):
                    okorder = False
                    ck.bad(rule, f, "%s takes signed / n_word / n_frac from the parser's entries 0 / 1 / 2" % f.name, "%s = %s" % (attr, src(v)[:60]), f.node, "sizes would be exchanged")
            # complex flag = entry 3
            cg = [g for g in pf.guards if is_elem(g[0], 3)]
            vst = [st for st in pf.stores if st.path == "self.vdtype" and dotted(st.value) == "complex"]
            if cg and cg[-1][1]:
                if vst:
                    n_cplx += 1
                    if f.name == "__init__":
                        # applied after the state copy
                        order = pf.order
                        ci = max([i for i, (k_, o) in enumerate(order) if k_ == "store" and o.path == "self.__dict__"] or [-1])
                        vi = [i for i, (k_, o) in enumerate(order) if k_ == "store" and o is vst[-1]][0]
                        if vi < ci:
                            ck.bad(rule, f, "the dtype= format is applied after the like/template state copy", "vdtype = complex stored before self.__dict__ is replaced", vst[-1].stmt,
                                   "the copied state overwrites the complex flag parsed from dtype")
                else:
                    ck.bad(rule, f, "%s applies the parsed complex flag to the value type" % f.name, "complex flag set but vdtype not set to complex", f.node, "the '-complex' suffix would be dropped")
            if cg and cg[-1][1] and vst:
                # nothing later on the path overrides the complex value type: a restoring set_val(..., vdtype=<earlier value>) would
                order = pf.order
                vi = [i for i, (k_, o) in enumerate(order) if k_ == "store" and o is vst[-1]][0]
                for i, (k_, o) in enumerate(order):
                    if i > vi and k_ == "call" and isinstance(o.raw.func, ast.Attribute) and o.raw.func.attr == "set_val":
                        kv = kw(o.call, "vdtype", 2)
                        if kv is not None and not (isinstance(kv, ast.Constant) and kv.value is None) and dotted(kv) != "complex":     # the substituted keyword: `self.vdtype` here denotes the value at entry, not the one just stored
                            ck.bad(rule, f, "the value type parsed from a '-complex' dtype string survives the re-store of the value", "set_val(..., vdtype=%s) after vdtype = complex" % src(kv)[:40], o.stmt,
                                   "the earlier value type overwrites the complex flag: the refreshed dtype string loses its '-complex' suffix")
            if cg and cg[-1][1]:
                pass
            elif cg and not cg[-1][1]:
                if vst:
                    ck.bad(rule, f, "the value type becomes complex only for a complex dtype string", "vdtype = complex although the parsed flag is false", vst[-1].stmt)
                else:
                    n_plain += 1
        ck.check(hit, rule, f, "%s accepts dtype= through the format parser" % f.name, "%s does not call the parser" % f.name, f.node)
        if hit:
            ck.check(n_cplx > 0 and n_plain > 0, rule, f, "%s applies the parsed complex flag (%d complex / %d real paths) and takes the sizes in the parser's order" % (f.name, n_cplx, n_plain),
                     "%s ignores the complex suffix (no path conditioned on the parser's 4th entry)" % f.name, f.node, "the '-complex' suffix would be dropped")
        if f.name == "__init__":
            # sizes reach _init_size / resize in parser order
            for pf in fpaths(prog, f)[:0]:
                pass


def notation_parameter(ck, rule):
    """C12.R4: get_dtype(notation) always refreshes with its argument, and the refresher's notation parameter reaches the selector."""
    prog = ck.prog
    upd = A.dtype_refresher(prog)
    g = prog.func("objects.Fxp.get_dtype")
    np_ = [x for x in g.params if x != "self"][0]
    for pf in fpaths(prog, g):
        if pf.end == "raise":
            continue
        calls = [ce for ce in pf.calls if prog.resolve_call(g, ce.raw) == upd.qualname]
        okc = len(calls) >= 1 and all((ce.raw.args and dotted(ce.raw.args[0]) == np_) or dotted(kw(ce.raw, "notation")) == np_ for ce in calls)
        ck.check(okc, rule, g, "get_dtype refreshes the dtype with the requested notation on every path before returning it",
                 "path with %d refresh calls under %s" % (len(calls), [(src(x[2])[:50], x[1]) for x in pf.guards if x[2] is not None]), g.node,
                 "a cached string in another notation (left by an earlier call) is returned")
        ck.check(pf.ret is not None and dotted(pf.ret) == "self._dtype", rule, g, "get_dtype returns the refreshed string", "returns %s" % (src(pf.ret) if pf.ret is not None else None), pf.ret_stmt, nontrivial=False)
    up = [x for x in upd.params if x != "self"][0]
    q_paths = 0
    param_q = 0
    for pf in fpaths(prog, upd):
        sts = [st for st in pf.stores if st.path == "self._dtype"]
        if not sts:
            continue
        v = sts[-1].value
        isq = isinstance(v, ast.Call) and isinstance(v.func, ast.Attribute) and v.func.attr == "format" and const_str(v.func.value) is not None and not const_str(v.func.value).casefold().startswith("fxp")
        given = [x for x in pf.guards if x[2] is not None and src(x[2]) == "%s is None" % up]
        if isq:
            q_paths += 1
            sel = [x for x in pf.guards if isinstance(x[0], ast.Compare) and const_str(x[0].comparators[0]) == "Q" and isinstance(x[0].ops[0], ast.Eq) and x[1]]
            if given and not given[0][1] and sel and dotted(sel[-1][0].left) == up:
                param_q += 1
    ck.check(q_paths >= 1, rule, upd, "the refresher can render Q notation", "no path stores a Q template", upd.node)
    ck.check(param_q >= 1, rule, upd, "an explicit notation argument reaches the notation selector (get_dtype('Q') renders Q regardless of the configured default)",
             "no path with an explicit notation on which the selector tests that argument", upd.node, "the argument is overwritten before it is used")
    # and with the configured default when no argument is given
    cfg = 0
    for pf in fpaths(prog, upd):
        given = [x for x in pf.guards if x[2] is not None and src(x[2]) == "%s is None" % up]
        sel = [x for x in pf.guards if isinstance(x[0], ast.Compare) and const_str(x[0].comparators[0]) == "Q" and isinstance(x[0].ops[0], ast.Eq)]
        if given and given[0][1] and sel and dotted(sel[-1][0].left) == "self.config.dtype_notation":
            cfg += 1
    ck.check(cfg >= 1, rule, upd, "without an argument the configured default notation is used", "selector does not test config.dtype_notation on the default path", upd.node)


def _case_closed(c):
    """the literal a group is compared with accepts both cases: `g in 'sqSQ'` (closed under case swapping) or a literal without cased characters"""
    lit = const_str(c.comparators[0])
    if lit is None:
        return False
    if isinstance(c.ops[0], (ast.In, ast.NotIn)):
        return all(ch.swapcase() in lit for ch in lit)
    return lit.swapcase() == lit


def case_insensitive_groups(ck, rule):
    """C12.R1b: parsing is case-insensitive in every field: either the input is case-folded before matching, or every comparison of a captured group with a
    literal is made on the lower-cased group."""
    prog = ck.prog
    p = A.fmt_parser(prog)
    folds = False
    for n in ast.walk(p.node):
        if isinstance(n, ast.Assign) and isinstance(n.value, ast.Call) and isinstance(n.value.func, ast.Attribute) and n.value.func.attr in ("casefold", "lower") \
                and dotted(n.value.func.value) in p.params and any(dotted(t) == dotted(n.value.func.value) for t in n.targets):
            folds = True
    if folds:
        ck.ok(rule, p, "the format string is case-folded before matching (all group comparisons see lower case)")
        return
    for pf in fpaths(prog, p):
        for g in pf.guards:
            for c in ast.walk(g[0]):
                if isinstance(c, ast.Compare) and len(c.ops) == 1 and const_str(c.comparators[0]) is not None:
                    l = c.left
                    involves_group = any(isinstance(x, ast.Call) and isinstance(x.func, ast.Attribute) and x.func.attr in ("group", "groups") for x in ast.walk(l))
                    lowered = any(isinstance(x, ast.Call) and isinstance(x.func, ast.Attribute) and x.func.attr in ("lower", "casefold") for x in ast.walk(l))
                    if involves_group and not lowered and not _case_closed(c):
                        ck.bad(rule, p, "every captured field is compared case-insensitively", "%s" % src(c)[:70], g[3],
                               "an upper-case spelling of that field (e.g. '-COMPLEX') is matched by the pattern but then not recognised")
        for st in pf.stores:
            for c in ast.walk(st.value):
                if isinstance(c, ast.Compare) and len(c.ops) == 1 and const_str(c.comparators[0]) is not None:
                    l = c.left
                    involves_group = any(isinstance(x, ast.Call) and isinstance(x.func, ast.Attribute) and x.func.attr in ("group", "groups") for x in ast.walk(l))
                    lowered = any(isinstance(x, ast.Call) and isinstance(x.func, ast.Attribute) and x.func.attr in ("lower", "casefold") for x in ast.walk(l))
                    if involves_group and not lowered and not _case_closed(c):
                        ck.bad(rule, p, "every captured field is compared case-insensitively", "%s" % src(c)[:70], st.stmt,
                               "an upper-case spelling of that field is matched by the pattern but then not recognised")


def refresh_after_store(ck, rule):
    """C12.R5: set_val refreshes the dtype string after it stores (the complex suffix depends on the stored value), on every normal path."""
    prog = ck.prog
    f = A.funnel(prog)
    upd = A.dtype_refresher(prog)
    okn = 0
    for pf in fpaths(prog, f):
        if pf.end == "raise":
            continue
        si = [i for i, (k, o) in enumerate(pf.order) if k == "store" and o.path == "self.val"]
        ui = [i for i, (k, o) in enumerate(pf.order) if k == "call" and prog.resolve_call(o.ctx or f, o.raw) == upd.qualname]
        if not si:
            continue
        if not ui or ui[-1] < si[-1]:
            ck.bad(rule, f, "set_val refreshes the dtype string after storing the value", "normal path without a dtype refresh after the store", f.node,
                   "an object that becomes complex (or is first filled) keeps a stale dtype string: constructing with dtype=x.dtype reproduces another format")
            return
        okn += 1
    ck.ok(rule, f, "dtype refresh follows the store on all %d normal paths of set_val" % okn)
