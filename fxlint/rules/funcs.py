"""Rules about functions.py: wrappers, sizing, kernels (C07, C08, C09, C15; C02.R7)."""
import ast

from ..model import dotted, src, calls_in, kw, AnalysisError
from ..common import fpaths, peel, actual, mkterm, mkbool, guard_assignment, same_expr, const_str, status_key
from ..terms import Term, exp2, ite, NotATerm, witness, tmin, tmax, t_or, fapp, nonneg, Facts
from .. import anchors as A


def results_through_funnel(ck, rule):
    """C02.R7 / C07.R4: in both wrappers every returned object is the result of out.set_val(val, raw=raw) or of the
    constructor fed with val; raw=True accompanies the kernel route and raw=False the repr route; the n_frac handed to
    the kernel is the one the sink stores with."""
    prog = ck.prog
    for w in A.wrappers(prog):
        pfs = fpaths(prog, w)
        ck.saw(w, paths=len(pfs))
        okn = 0
        failed = False
        for pf in pfs:
            if pf.end != "return":
                if pf.end == "end":
                    ck.bad(rule, w, "the wrapper returns the result object", "path falls off the end", w.node)
                    failed = True
                continue
            r, _ = peel(pf.ret) if pf.ret is not None else (None, None)
            sink = None
            if isinstance(r, ast.Call) and isinstance(r.func, ast.Attribute) and r.func.attr == "set_val":
                sink = ("set_val", r)
            elif isinstance(r, ast.Call) and prog.is_fxp_ctor(w, r):
                sink = ("ctor", r)
            if sink is None:
                ck.bad(rule, w, "function results are rebuilt through the constructor or out.set_val", "returns %s" % (src(pf.ret)[:80] if pf.ret is not None else None), pf.ret_stmt,
                       "a result that bypasses the funnel is not quantized into its format")
                failed = True
                break
            kind, call = sink
            val = call.args[0] if call.args else kw(call, "val")
            raw = kw(call, "raw", 1 if kind == "set_val" else None)
            vinner, _ = peel(val) if val is not None else (None, None)
            is_kernel = isinstance(vinner, ast.Call) and dotted(vinner.func) == "raw_func"
            is_repr = isinstance(vinner, ast.Call) and dotted(vinner.func) == "repr_func"
            if not (is_kernel or is_repr):
                ck.bad(rule, w, "the stored value is the kernel's or the repr function's result, unchanged", "stores %s" % (src(val)[:80] if val is not None else None), pf.ret_stmt,
                       "an extra operation between the computation and the single quantization of the sink")
                failed = True
                break
            rawv = raw.value if isinstance(raw, ast.Constant) else None
            if rawv is None or bool(rawv) != is_kernel:
                ck.bad(rule, w, "raw=True accompanies the integer-code kernel and raw=False the value route", "%s route stored with raw=%s" % ("kernel" if is_kernel else "repr", src(raw) if raw is not None else None), pf.ret_stmt,
                       "codes would be scaled again / values taken as codes")
                failed = True
                break
            if is_kernel:
                # n_frac passed to kernel == n_frac of the sink
                knf = None
                for k in vinner.keywords:
                    if k.arg is None and isinstance(k.value, ast.Name):
                        # **kwargs : find kwargs['n_frac'] store on the path
                        for st in pf.stores:
                            if isinstance(st.target, ast.Subscript) and st.path == k.value.id and const_str(st.target.slice) == "n_frac":
                                knf = st.value
                    elif k.arg == "n_frac":
                        knf = k.value
                if kind == "ctor":
                    snf = kw(call, "n_frac")
                else:
                    recv = call.func.value
                    snf = ast.Attribute(value=recv, attr="n_frac", ctx=ast.Load())
                if knf is None or snf is None or not same_expr(knf, snf):
                    ck.bad(rule, w, "the kernel is told the fraction length its result is stored with", "kernel n_frac=%s, sink n_frac=%s" % (src(knf) if knf is not None else None, src(snf) if snf is not None else None), pf.ret_stmt,
                           "the raw result would be interpreted at a different binary point")
                    failed = True
                    break
            okn += 1
        if not failed:
            ck.ok(rule, w, "all %d returning paths store the kernel/repr result once, through set_val or the constructor, with matching raw flag and n_frac" % okn)
