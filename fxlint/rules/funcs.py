"""Rules about functions.py: wrappers, sizing, kernels (C07, C08, C09, C15; C02.R7)."""
import ast

from ..model import dotted, src, calls_in, kw, AnalysisError
from ..common import (fpaths, peel, actual, mkterm, mkbool, guard_assignment, same_expr, const_str, status_key, truth_on_path, none_state,
                      isinstance_state, order_facts, simplify_extrema, str_state)
from ..terms import Term, exp2, ite, NotATerm, witness, tmin, tmax, t_or, fapp, nonneg, Facts
from .. import anchors as A


def results_through_funnel(ck, rule):
    """C02.R7 / C07.R4: in both wrappers every returned object is the result of out.set_val(val, raw=raw) or of the
    constructor fed with val; raw=True accompanies the kernel route and raw=False the repr route; the n_frac handed to
    the kernel is the one the sink stores with."""
    prog = ck.prog
    for w in A.wrappers(prog):
        pfs = fpaths(prog, w)
        ck.saw(w, paths=len(pfs))
        okn = 0
        failed = False
        for pf in pfs:
            if pf.end != "return":
                if pf.end == "end":
                    ck.bad(rule, w, "the wrapper returns the result object", "path falls off the end", w.node)
                    failed = True
                continue
            r, _ = peel(pf.ret) if pf.ret is not None else (None, None)
            sink = None
            if isinstance(r, ast.Call) and isinstance(r.func, ast.Attribute) and r.func.attr == "set_val":
                sink = ("set_val", r)
            elif isinstance(r, ast.Call) and prog.is_fxp_ctor(w, r):
                sink = ("ctor", r)
            if sink is None:
                ck.bad(rule, w, "function results are rebuilt through the constructor or out.set_val", "returns %s" % (src(pf.ret)[:80] if pf.ret is not None else None), pf.ret_stmt,
                       "a result that bypasses the funnel is not quantized into its format")
                failed = True
                break
            kind, call = sink
            val = call.args[0] if call.args else kw(call, "val")
            raw = kw(call, "raw", 1 if kind == "set_val" else None)
            vinner, _ = peel(val) if val is not None else (None, None)
            is_kernel = isinstance(vinner, ast.Call) and dotted(vinner.func) == "raw_func"
            is_repr = isinstance(vinner, ast.Call) and dotted(vinner.func) == "repr_func"
            if not (is_kernel or is_repr):
                ck.bad(rule, w, "the stored value is the kernel's or the repr function's result, unchanged", "stores %s" % (src(val)[:80] if val is not None else None), pf.ret_stmt,
                       "an extra operation between the computation and the single quantization of the sink")
                failed = True
                break
            rawv = truth_on_path(raw, pf.guards) if raw is not None else (False if kind == "set_val" or True else None)
            if raw is None:
                rawv = False     # default raw=False of set_val / the constructor
            if rawv is None or bool(rawv) != is_kernel:
                ck.bad(rule, w, "raw=True accompanies the integer-code kernel and raw=False the value route", "%s route stored with raw=%s" % ("kernel" if is_kernel else "repr", src(raw) if raw is not None else None), pf.ret_stmt,
                       "codes would be scaled again / values taken as codes")
                failed = True
                break
            if is_kernel:
                # n_frac passed to kernel == n_frac of the sink
                knf = None
                for k in vinner.keywords:
                    if k.arg is None and isinstance(k.value, ast.Name):
                        # **kwargs : find kwargs['n_frac'] store on the path
                        for st in pf.stores:
                            if isinstance(st.target, ast.Subscript) and (st.path == k.value.id or (st.base is not None and dotted(st.base) == k.value.id)) and const_str(st.target.slice) == "n_frac":
                                knf = st.value
                    elif k.arg is None and isinstance(k.value, ast.Call) and dotted(k.value.func) == "dict":
                        # **dict(kwargs, n_frac=...) : a copy of the keyword record with the entry set
                        for k2 in k.value.keywords:
                            if k2.arg == "n_frac":
                                knf = k2.value
                    elif k.arg is None and isinstance(k.value, ast.Dict):
                        for dk, dv in zip(k.value.keys, k.value.values):
                            if dk is not None and const_str(dk) == "n_frac":
                                knf = dv
                    elif k.arg == "n_frac":
                        knf = k.value
                if kind == "ctor":
                    snf = kw(call, "n_frac")
                else:
                    recv = call.func.value
                    snf = ast.Attribute(value=recv, attr="n_frac", ctx=ast.Load())
                if knf is None or snf is None or not same_expr(knf, snf):
                    ck.bad(rule, w, "the kernel is told the fraction length its result is stored with", "kernel n_frac=%s, sink n_frac=%s" % (src(knf) if knf is not None else None, src(snf) if snf is not None else None), pf.ret_stmt,
                           "the raw result would be interpreted at a different binary point")
                    failed = True
                    break
            okn += 1
        if not failed:
            ck.ok(rule, w, "all %d returning paths store the kernel/repr result once, through set_val or the constructor, with matching raw flag and n_frac" % okn)


# =========================================================================== kernels and sizing

from ..scaletype import Typer, Mismatch, Unknown
from ..paths import subst
from ..terms import equiv


class _Rewrite(ast.NodeTransformer):
    """canonical spellings used by the typer: kwargs['k'] if 'k' in kwargs else None -> kwargs['k'];
    np.cumsum(np.ones_like(..), axis=A)[.astype(int)] -> cumcount(A)"""

    def visit_Call(self, n):
        self.generic_visit(n)
        if isinstance(n.func, ast.Attribute) and n.func.attr == "astype" and isinstance(n.func.value, ast.Call) and dotted(n.func.value.func) == "cumcount":
            return n.func.value
        if dotted(n.func) == "np.cumsum" and n.args and isinstance(n.args[0], ast.Call) and dotted(n.args[0].func) in ("np.ones_like", "np.ones"):
            ax = kw(n, "axis", 1)
            return ast.Call(func=ast.Name(id="cumcount", ctx=ast.Load()), args=[ax if ax is not None else ast.Constant(value=None)], keywords=[])
        return n


def public_functions(prog):
    """top-level functions of functions.py that call one of the two wrappers: [(Func, wrapper Func, call node)]"""
    w1, w2 = A.wrappers(prog)
    out = []
    for q, f in prog.funcs.items():
        if f.module != "functions" or f.parent is not None or f in (w1, w2):
            continue
        for c in calls_in(f.node):
            r = prog.resolve_call(f, c)
            if r in (w1.qualname, w2.qualname) and not any(n is c for g in f.nested.values() for n in ast.walk(g.node)):
                out.append((f, prog.funcs[r], c))
    return out


def kernel_candidates(prog, f, call):
    """nested defs that can be bound to raw_func at this wrapper call (incl. `_k = _k_complex` rebinding)"""
    rf = kw(call, "raw_func", 1)
    names = set()
    if isinstance(rf, ast.Name):
        names.add(rf.id)
        for n in ast.walk(f.node):
            if isinstance(n, ast.Assign) and any(isinstance(t, ast.Name) and t.id == rf.id for t in n.targets) and isinstance(n.value, ast.Name):
                names.add(n.value.id)
    # path-based: what the (substituted) raw_func argument denotes on each path through the public function
    # (covers tuple unpacking, conditional expressions and table dispatch after normalisation)
    try:
        for pf in fpaths(prog, f):
            for ce in pf.calls:
                if ce.raw is call or (getattr(ce.raw, "lineno", None) == getattr(call, "lineno", -1) and dotted(ce.raw.func) == dotted(call.func)):
                    v = kw(ce.call, "raw_func", 1)
                    if isinstance(v, ast.Name):
                        names.add(v.id)
    except Exception:
        pass
    lams = [v for v in ([rf] if isinstance(rf, ast.Lambda) else [])]
    try:
        for pf in fpaths(prog, f):
            for ce in pf.calls:
                if ce.raw is call or (getattr(ce.raw, "lineno", None) == getattr(call, "lineno", -1) and dotted(ce.raw.func) == dotted(call.func)):
                    v = kw(ce.call, "raw_func", 1)
                    if isinstance(v, ast.Lambda):
                        lams.append(v)
    except Exception:
        pass
    for lam in lams:
        # the normaliser turned a reference to a one-expression nested kernel into the lambda it denotes (N2b): map it back to the def
        lp = [a.arg for a in lam.args.args]
        same = [nm for nm, g in f.nested.items() if [p for p in g.params] == lp]
        exact = [nm for nm in same if any(isinstance(s_, ast.Return) and s_.value is not None and ast.dump(s_.value) == ast.dump(lam.body) for s_ in f.nested[nm].node.body)]
        pick = exact or (same if len(same) == 1 else [])
        names.update(pick)
    out = [f.nested[n] for n in sorted(names) if n in f.nested]
    for n in sorted(names):
        if n not in f.nested:
            q = "%s.%s" % (f.module, n)
            if q in prog.funcs and prog.funcs[q] not in out:
                out.append(prog.funcs[q])          # kernel moved to module level
    return out


def operand_alias(f, wrapper, call):
    """{outer name -> kernel operand name}: wrapper called with x=a means the kernel's x is the outer a"""
    al = {}
    for p in ("x", "y"):
        v = kw(call, p)
        if isinstance(v, ast.Name) and v.id != p:
            al[v.id] = p
    return al


KERNEL_PUB = {}      # kernel qualname -> name of the public function that hands it to the wrapper


def pub_name(k):
    if k.qualname in KERNEL_PUB:
        return KERNEL_PUB[k.qualname]
    return k.parent.name if k.parent is not None else k.name


def kernel_typing(ck, rule, only=None, note_events=None):
    """C07.R3 / C08.R1 / C09.R1 / C15.R2: every raw kernel returns Code<n_frac> for its own (free) n_frac."""
    prog = ck.prog
    n_k = 0
    results = {}
    for f, w, call in public_functions(prog):
        if only is not None and f.name not in only:
            continue
        if f.name == "pow":
            continue    # element-wise Python-int power with Decimal roots: outside every property's operator list
        al = operand_alias(f, w, call)
        for k in kernel_candidates(prog, f, call):
            params = k.params
            if "n_frac" not in params:
                ck.note("kernel %s takes no n_frac (re-arrangement only)" % k.qualname)
                continue
            ops = [p for p in params[:params.index("n_frac")]]
            n_k += 1
            KERNEL_PUB[k.qualname] = f.name

            def ren(d, al=al):
                head = d.split(".")[0]
                if head in al:
                    return al[head] + d[len(head):]
                return d
            pfs = fpaths(prog, k)
            ck.saw(k, paths=len(pfs))
            closures = _closure_envs(prog, f, k, call, skip=set(al))
            for pf in pfs:
                if pf.end == "raise":
                    continue
                if pf.ret is None:
                    ck.bad(rule, k, "the kernel returns the raw result", "kernel path without return value", k.node)
                    continue
                for fenv, fguards in closures:
                    ret0 = subst(pf.ret, fenv) if fenv else pf.ret
                    ret = _Rewrite().visit(ast.fix_missing_locations(_copy(ret0)))
                    events = []
                    ty = Typer(ops + list(al.keys()), rename=ren, events=events)
                    try:
                        t = ty.ty(ret)
                    except Mismatch as m:
                        ck.bad(rule, k, "operands are aligned to a common binary point before they are combined", "%s: %s" % (m.what, src(m.node)[:100] if m.node is not None else ""), pf.ret_stmt,
                               m.detail)
                        continue
                    except (Unknown, NotATerm) as u:
                        ck.unsure(rule, k, "kernel body is in the scale-typing vocabulary", pf.ret_stmt, str(u))
                        continue
                    want = Term.var("n_frac")
                    ck.saw(terms=1)
                    if t.kind != "code":
                        ck.bad(rule, k, "the kernel returns an integer code", "returns %r" % t, pf.ret_stmt)
                        continue
                    asg = guard_assignment(list(pf.guards) + list(fguards), rename=ren)
                    same, cex = equiv(t.t.subst(asg), want.subst(asg))
                    if not same:
                        ck.bad(rule, k, "the kernel result is scaled by 2^n_frac, the fraction length its sink stores it with",
                               "result scaled by 2^(%s), sink expects 2^(n_frac)" % t.t.show(), pf.ret_stmt,
                               {"meaning": "the stored value is wrong by the factor 2^(%s)" % (t.t - want).show(), "witness": witness(t.t, want)})
                        continue
                    if k.qualname in results:
                        events = results[k.qualname][1] + events     # events of all paths of the kernel
                    results[k.qualname] = (t, events, ret, pf)
                    ck.ok(rule, k, "%s : Code<n_frac> (operands %s)" % (k.name, ", ".join(sorted(t.ops))), pf.ret_stmt)
    ck.extra["kernels_typed"] = len(results)
    if only is None and n_k < 18:
        raise AnalysisError("only %d raw kernels found (expected >= 18)" % n_k)
    if only is not None:
        missing = [nm for nm in only if nm != "pow" and nm not in set(KERNEL_PUB.values())]
        if missing:
            raise AnalysisError("no raw kernel found for %s (a rule that matches nothing never passes)" % ", ".join(missing))
    return results


def _copy(e):
    import copy
    return copy.deepcopy(e)


def _closure_envs(prog, f, k, call, skip=()):
    """[(env, guards)] : what the free variables of the nested kernel k denote when the wrapper is called in f, one entry per distinct
    binding over the paths of f reaching `call` (a kernel may read locals of the function that defines it)."""
    if k.parent is not f:
        return [({}, [])]
    import builtins
    bound = set(k.params)
    if k.kwarg:
        bound.add(k.kwarg)
    for n in ast.walk(k.node):
        if isinstance(n, ast.Name) and isinstance(n.ctx, ast.Store):
            bound.add(n.id)
        elif isinstance(n, ast.arg):
            bound.add(n.arg)
    flocals = set(f.params)
    for n in ast.walk(f.node):
        if isinstance(n, ast.Name) and isinstance(n.ctx, ast.Store):
            flocals.add(n.id)
    free = {n.id for n in ast.walk(k.node) if isinstance(n, ast.Name) and isinstance(n.ctx, ast.Load)} - bound
    free = {n for n in free if n in flocals and n not in f.nested and not hasattr(builtins, n) and n not in skip and n not in ("x", "y")}
    if not free:
        return [({}, [])]
    # a kernel parameter and an enclosing variable of the same name denote the same value only when the wrapper call forwards it under that name
    fwd = set()
    for pf in fpaths(prog, f):
        for st in pf.stores:
            if isinstance(st.target, ast.Subscript) and const_str(st.target.slice) is not None and isinstance(st.raw_value, ast.Name) \
                    and st.raw_value.id == const_str(st.target.slice) and any(kk.arg is None and dotted(kk.value) == st.path for kk in call.keywords):
                fwd.add(st.raw_value.id)          # kwargs['axis'] = axis ... wrapper(..., **kwargs)
    clash = {n for n in k.params if n in flocals and n not in fwd and not (isinstance(kw(call, n), ast.Name) and kw(call, n).id == n)}

    class _Outer(ast.NodeTransformer):
        def visit_Call(self, node):
            self.generic_visit(node)
            if prog.is_fxp_ctor(f, node) and len(node.args) == 1 and not node.keywords and isinstance(node.args[0], ast.Name) and node.args[0].id in skip:
                return node.args[0]               # Fxp(a) plays the operand a
            return node

        def visit_Name(self, node):
            if node.id in clash:
                return ast.copy_location(ast.Name(id="outer_" + node.id, ctx=node.ctx), node)
            return node
    import copy as _cp
    out, seen = [], set()
    for pf in fpaths(prog, f):
        if pf.end != "return" or not any(ce.raw is call or getattr(ce.raw, "lineno", None) == getattr(call, "lineno", -1) for ce in pf.calls):
            continue
        env = {n: _Outer().visit(_cp.deepcopy(pf.env[n])) for n in free if n in pf.env}
        used = set()
        for v in env.values():
            used |= {x.id for x in ast.walk(v) if isinstance(x, ast.Name)}
        gl = [(_Outer().visit(_cp.deepcopy(g[0])),) + tuple(g[1:]) for g in pf.guards if any(isinstance(x, ast.Name) and (x.id in free or x.id in used or x.id in f.params) for x in ast.walk(g[0]))]
        key = (tuple(sorted((n, ast.dump(v)) for n, v in env.items())), tuple((ast.dump(g[0]), g[1]) for g in gl))
        if key in seen:
            continue
        seen.add(key)
        out.append((env, gl))
    return out or [({}, [])]


def single_quantization(ck, rule, results, only=None):
    """C08.R2: between the exact integer computation and the sink there is no rounding / integer cast of the
    re-scaled result, and quotients are formed by integer floor division."""
    for q, (t, events, ret, pf) in sorted(results.items()):
        f = ck.prog.funcs[q]
        if only is not None and pub_name(f) not in only:
            continue
        badev = [e for e in events if e[0] in ("intcast", "round", "adjust", "recast")] + ([e for e in events if e[0] == "clamp"] if pub_name(f) not in ("clip", "fxp_max", "fxp_min") else []) \
            + ([e for e in events if e[0] == "floorshift"] if pub_name(f) not in ("pow",) else [])
        # cumprod's int_array over the list of conversion factors is a Pow2 list, not a code: events only record casts of codes
        ck.check(not badev, rule, f, "the kernel result reaches the sink without an intermediate rounding or integer cast",
                 "%s applied inside the kernel: %s" % (badev[0][0], src(badev[0][1])[:90]) if badev else "", pf.ret_stmt,
                 {"intcast": "a truncation before the sink's own rounding makes floor/ceil/around results wrong (double quantization)",
                  "round": "a second rounding besides the sink's", "adjust": "a number of LSBs is added to the code inside the kernel (a hand-made rounding): the exact quotient/result is altered before the sink quantizes it",
                  "clamp": "an operand or the result is clamped/selected inside the kernel: the exact result is replaced before the sink can flag and quantize it",
                  "floorshift": "operand codes are shifted right (floored) to a coarser binary point before they are combined: the dropped bits never reach the sink's rounding, so every mode behaves like floor on each operand (and raw differs from repr)",
                  "recast": "re-casting operand codes to another machine integer type reinterprets negative codes (int64 -> uint64 wraps) or narrows them"}.get(badev[0][0]) if badev else None)


def _nocoerce_paths(prog, f, call):
    """PathFacts of f reaching `call` on which no operand was coerced with Fxp(x)"""
    out = []
    for pf in fpaths(prog, f):
        if pf.end != "return":
            continue
        ces = [ce for ce in pf.calls if ce.raw is call]
        if not ces:
            continue
        coerced = False
        for nm in ("x", "y", "a"):
            if isinstance_state(pf.guards, nm) is False:
                coerced = True
        # operands rebound to a constructor call
        for nm in ("x", "y", "a"):
            v = pf.env.get(nm)
            if v is not None and dotted(v) != nm:
                coerced = True
        if not coerced:
            out.append(pf)
    return out


def wellformed(prefixes):
    """substitution x.n_int -> x.n_word - x.n_frac - [x.signed] for the given operand names (C02.R3 for operands)"""
    m = {}
    for p in prefixes:
        m[("v", p + ".n_int")] = Term.var(p + ".n_word") - Term.var(p + ".n_frac") - Term.bvar(p + ".signed")
    return m


def optimal_sizes_all(ck, prog, f, call, alias=None):
    """[(signed, n_word, n_int, n_frac, pf)] Terms of the optimal size packed at this wrapper call, one per (uncoerced) path; max/min atoms are
    resolved with the order facts of the path, so `b if b > a else a` and max(a, b) give the same terms"""
    res = []
    al = alias or {}

    def ren(d):
        head = d.split(".")[0]
        if head in al:
            return al[head] + d[len(head):]
        return d
    for pf in _nocoerce_paths(prog, f, call):
        ce = [c for c in pf.calls if c.raw is call][0]
        os_ = kw(ce.call, "optimal_size")
        if os_ is None or (isinstance(os_, ast.Constant) and os_.value is None):
            return None
        if not isinstance(os_, ast.Tuple) or len(os_.elts) != 4:
            return "unrecognised"
        tb = TermBuilder(rename=ren)
        try:
            sg = tb.boolean(os_.elts[0])
            nw = tb.term(os_.elts[1])
            ni = tb.term(os_.elts[2])
            nf = tb.term(os_.elts[3])
        except NotATerm as e:
            return "unrecognised: %s" % e
        asg = guard_assignment(pf.guards, rename=ren)
        res.append((sg.subst(asg), nw.subst(asg), ni.subst(asg), nf.subst(asg), pf, asg))
    return res or None


def optimal_sizes(ck, prog, f, call, alias=None):
    r = optimal_sizes_all(ck, prog, f, call, alias)
    if r is None or isinstance(r, str):
        return r
    # the path with the fewest guards (no case split) when there is one, else the first
    r0 = sorted(r, key=lambda x: len(x[4].guards))[0]
    return r0[:5]


from ..terms import TermBuilder


def sizing_record(ck, rule):
    """C07.R2: _get_sizing('optimal') hands the packed (signed, n_int, n_frac) through unchanged and the wrappers pass each
    under the keyword of its own role."""
    prog = ck.prog
    sz = A.sizing(prog)
    pfs = fpaths(prog, sz)
    ck.saw(sz, paths=len(pfs))
    okp = 0
    for pf in pfs:
        if pf.end != "return" or pf.ret is None:
            continue
        from ..common import str_state
        eq, ne = str_state(pf.guards, "sizing")
        if not (eq is not None and eq == {"optimal"}) or none_state(pf.guards, "optimal_size") is not False:
            continue
        r = pf.ret
        if not (isinstance(r, ast.Tuple) and len(r.elts) == 4):
            ck.bad(rule, sz, "_get_sizing returns (signed, n_word, n_int, n_frac)", "returns %s" % src(r)[:80], pf.ret_stmt)
            continue

        def elem(e):
            e = peel(e)[0]
            if isinstance(e, ast.Subscript) and dotted(e.value) == "optimal_size" and isinstance(e.slice, ast.Constant):
                return e.slice.value
            return None
        got = (elem(r.elts[0]), elem(r.elts[2]), elem(r.elts[3]))
        ck.check(got == (0, 2, 3), rule, sz, "under sizing='optimal' the result's signed / n_int / n_frac are the caller's optimal_size entries 0 / 2 / 3",
                 "returns optimal_size entries %s for (signed, n_int, n_frac)" % (got,), pf.ret_stmt,
                 "exchanged tuple entries give the result a wrong format")
        # n_word consistent: int(signed) + n_int + n_frac
        try:
            tb = TermBuilder()
            if isinstance(r.elts[1], ast.Constant) and r.elts[1].value is None:
                raise NotATerm("n_word None (sizes left to inference)")
            nw = tb.term(r.elts[1])
            o = tb.term(ast.Call(func=ast.Name(id="int", ctx=ast.Load()), args=[r.elts[0]], keywords=[])) + tb.term(r.elts[2]) + tb.term(r.elts[3])
            ck.check(nw == o, rule, sz, "n_word returned by _get_sizing equals [signed] + n_int + n_frac", "n_word = %s" % nw.show(), pf.ret_stmt)
        except NotATerm:
            pass
        okp += 1
    if okp == 0:
        ck.bad(rule, sz, "_get_sizing honours the caller's optimal_size under sizing='optimal'", "no path returns the optimal_size entries", sz.node,
               "the documented growth rules would be ignored")
    # wrappers: unpack and keyword roles
    for w in A.wrappers(prog):
        for pf in fpaths(prog, w):
            if pf.end != "return" or pf.ret is None:
                continue
            r = peel(pf.ret)[0]
            if isinstance(r, ast.Call) and prog.is_fxp_ctor(w, r):
                if none_state(pf.guards, "out") is False or none_state(pf.guards, "out_like") is False:
                    continue

                def from_sizing(e, idx):
                    e = peel(e)[0] if e is not None else None
                    return isinstance(e, ast.Subscript) and isinstance(e.value, ast.Call) and prog.resolve_call(w, e.value) == sz.qualname \
                        and isinstance(e.slice, ast.Constant) and e.slice.value == idx
                good = from_sizing(kw(r, "signed"), 0) and from_sizing(kw(r, "n_int"), 2) and from_sizing(kw(r, "n_frac"), 3) and kw(r, "n_word") is None
                ck.check(good, rule, w, "the wrapper builds the result with signed/n_int/n_frac taken from _get_sizing entries 0/2/3",
                         "constructor keywords signed=%s n_int=%s n_frac=%s" % tuple(src(kw(r, k))[:40] if kw(r, k) is not None else None for k in ("signed", "n_int", "n_frac")), pf.ret_stmt,
                         "sizes would be passed under the wrong role")
                break


GROWTH = {}


def growth_rules(ck, rule, names=("add", "sub", "mul")):
    """C07.R1: the optimal size terms equal the documented growth rules (equality, modulo operand well-formedness)."""
    prog = ck.prog
    xs, ys = Term.bvar("x.signed"), Term.bvar("y.signed")
    xw, yw, xf, yf = (Term.var(n) for n in ("x.n_word", "y.n_word", "x.n_frac", "y.n_frac"))
    wf = wellformed(["x", "y"])
    xi, yi = wf[("v", "x.n_int")], wf[("v", "y.n_int")]
    sg_o = t_or(xs, ys)
    oracle = {
        "add": (sg_o, tmax(xi, yi) + 1, tmax(xf, yf)),
        "sub": (sg_o, tmax(xi, yi) + 1, tmax(xf, yf)),
        "mul": (sg_o, xw + yw - sg_o - (xf + yf), xf + yf),
    }
    for f, w, call in public_functions(prog):
        if f.name not in names:
            continue
        rs = optimal_sizes_all(ck, prog, f, call)
        if rs is None or isinstance(rs, str):
            ck.bad(rule, f, "%s packs an optimal size for its result" % f.name, "optimal_size %s" % rs, call, "without it the result takes the first operand's size and can overflow")
            continue
        osg, oni, onf = oracle[f.name]
        okall = True
        for sg, nw, ni, nf, pf, asg in rs:
            ge = order_facts(pf.guards, rename=lambda d: d)
            ge = [(a.subst(wf), b.subst(wf)) for a, b in ge]
            ni2, nf2 = ni.subst(wf), nf.subst(wf)
            o_sg, o_ni, o_nf = osg.subst(asg), simplify_extrema(oni.subst(asg), ge), simplify_extrema(onf.subst(asg), ge)
            ni2, nf2 = simplify_extrema(ni2, ge), simplify_extrema(nf2, ge)
            ck.saw(f, terms=3)
            same, _ = equiv(sg, o_sg)
            okall &= ck.check(same, rule, f, "%s: result is signed iff an operand is signed" % f.name, "signed = %s" % sg.show(), call, "a signed operand stored in an unsigned result loses its sign")
            same, cex = equiv(nf2, o_nf)
            okall &= ck.check(same, rule, f, "%s: result n_frac = %s" % (f.name, onf.show()), "n_frac = %s" % nf2.show(), call,
                              {"witness": witness(nf2, o_nf), "meaning": "fraction bits are lost or the result is mis-sized"})
            same, cex = equiv(ni2, o_ni)
            okall &= ck.check(same, rule, f, "%s: result n_int = %s" % (f.name, "max(x.n_int, y.n_int) + 1" if f.name != "mul" else "x.n_word + y.n_word - [signed] - n_frac"),
                              "n_int = %s (booleans %s)" % (ni2.show(), cex), call, {"witness": witness(ni2, o_ni), "meaning": "the exact result does not fit: overflow with extreme operands"})
        # representative (unsplit) terms for the rules that substitute the optimal n_frac
        sg, nw, ni, nf, pf, asg = sorted(rs, key=lambda x: len(x[4].guards))[0]
        GROWTH[f.name] = (osg, oni, onf) if okall else (sg, ni.subst(wf), nf.subst(wf))


def alignment_exponents_nonneg(ck, rule, results, names, nfrac_of):
    """C07.R5 / C09.R4: under optimal sizing every alignment exponent (2**k factor applied to a code) is >= 0."""
    prog = ck.prog
    for q, (t, events, ret, pf) in sorted(results.items()):
        k = prog.funcs[q]
        fn = pub_name(k)
        if fn not in names or fn not in nfrac_of:
            continue
        nf = nfrac_of[fn]
        shifts = []
        ty = Typer([p for p in k.params if p in ("x", "y")], events=[])
        for n in ast.walk(ret):
            p = ty.pow2(n) if isinstance(n, (ast.BinOp, ast.Call)) else None
            if p is not None:
                shifts.append((p, n))
        for p, n in shifts:
            e = p.subst({("v", "n_frac"): nf})
            good = nonneg(e, Facts(nonneg_syms=("x.n_word", "y.n_word"), ge=[(Term.var("x.n_word"), Term.const(1)), (Term.var("y.n_word"), Term.const(1))]))
            ck.saw(terms=1)
            ck.check(good, rule, k, "with optimal sizing the alignment exponent of %s is non-negative (integer arithmetic, no rounding)" % fn,
                     "exponent %s = %s under optimal n_frac" % (p.show(), e.show()), n,
                     "a negative exponent multiplies codes by a fraction: the kernel rounds")


# =========================================================================== room (ordering) rules

def _sizes_for_all(ck, rule, f, w, call):
    """[(signed, n_int, n_frac, pf, asg)] one per uncoerced path (path guards applied, operand n_int expanded)"""
    al = operand_alias(f, w, call)
    rs = optimal_sizes_all(ck, ck.prog, f, call, alias=al)
    if rs is None or isinstance(rs, str):
        ck.bad(rule, f, "%s packs an optimal size for its result" % f.name, "optimal_size %s" % rs, call,
               "without it the result takes the operand's own size and overflows at the extremes")
        return []
    wf = wellformed(["x", "y"])
    out = []
    for sg, nw, ni, nf, pf, asg in rs:
        asg2 = {}
        for k_, v_ in asg.items():
            asg2[k_] = v_
        out.append((sg, ni.subst(wf).subst(asg2), nf.subst(wf).subst(asg2), pf, asg2))
    return out


def _sizes_for(ck, rule, f, w, call):
    r = _sizes_for_all(ck, rule, f, w, call)
    if not r:
        return None
    r0 = sorted(r, key=lambda x: len(x[3].guards))[0]
    return r0[:4]


def _ge(ck, rule, f, node, lhs, rhs, what, meaning, facts=None):
    d = lhs - rhs
    ck.saw(terms=1)
    good = nonneg(d, facts or Facts())
    if good:
        ck.ok(rule, f, what, node)
        return True
    # is it provably violated on the grid?  (reporting a witness; the decision itself is 'not provable')
    w = None
    try:
        syms = sorted(set(d.symbols()))
        from itertools import product as _p
        atoms = {x[1]: x[0] for x in d.all_atoms() if x[0] in ("v", "b", "p")}
        doms = [((0, 1) if atoms.get(s) in ("b", "p") else (1, 2, 3, 5, 8)) for s in syms]
        for vals in _p(*doms):
            env = dict(zip(syms, vals))
            try:
                v = d.evaluate(env)
            except Exception:
                continue
            if v < 0:
                w = {"assignment": {k: int(x) for k, x in env.items()}, "shortfall_bits": str(-v)}
                break
    except Exception:
        pass
    if w is not None:
        ck.bad(rule, f, what, "have %s, need at least %s" % (lhs.show(), rhs.show()), node, {"witness": w, "meaning": meaning})
    else:
        ck.unsure(rule, f, what, node, "cannot order %s >= %s with the fact table" % (lhs.show(), rhs.show()))
    return False


def division_room(ck, rule):
    """C09.R3: optimal sizes of truediv / floordiv / mod leave room for every quotient / remainder."""
    prog = ck.prog
    xs, ys = Term.bvar("x.signed"), Term.bvar("y.signed")
    wf = wellformed(["x", "y"])
    xi, yi = wf[("v", "x.n_int")], wf[("v", "y.n_int")]
    xf, yf = Term.var("x.n_frac"), Term.var("y.n_frac")
    for f, w, call in public_functions(prog):
        if f.name not in ("truediv", "floordiv", "mod"):
            continue
        rows = _sizes_for_all(ck, rule, f, w, call)
        for sg, ni, nf, pf, asg in rows:
            xs_, ys_ = xs.subst(asg), ys.subst(asg)
            if f.name in ("truediv", "floordiv"):
                _ge(ck, rule, f, call, sg, t_or(xs_, ys_), "%s: the result is signed when an operand is signed" % f.name, "negative quotients are lost")
                _ge(ck, rule, f, call, ni, (xi + yf).subst(asg) + xs_ * ys_,
                    "%s: n_int >= x.n_int + y.n_frac + [both signed] (largest |x| over smallest |y|; only (-)/(-) reaches +2^(x.n_int+y.n_frac))" % f.name,
                    "the extreme quotient min/(-LSB) overflows")
                if f.name == "floordiv":
                    _ge(ck, rule, f, call, nf, Term.const(0), "floordiv: the integer quotient is representable (n_frac >= 0)", "integer quotients are rounded")
            else:
                _ge(ck, rule, f, call, sg, ys_, "mod: the result is signed when the divisor is signed (remainder takes the divisor's sign)", "negative remainders are lost")
                # result signed  -> n_int >= y.n_int ; both unsigned -> n_int >= min(x.n_int, y.n_int)
                need = ite(t_or(xs_, ys_), yi, tmin(xi, yi)).subst(asg)
                _ge(ck, rule, f, call, ni, need, "mod: n_int >= y.n_int (|x%y| < |y|), or >= min(x.n_int, y.n_int) when both operands are unsigned",
                    "a remainder close to the divisor does not fit")
                _ge(ck, rule, f, call, nf, tmax(xf, yf), "mod: n_frac >= max(x.n_frac, y.n_frac) (the remainder lies on the finer grid)", "the remainder is rounded")
        if rows:
            sg, ni, nf, pf, asg = sorted(rows, key=lambda r_: len(r_[3].guards))[0]
            GROWTH[f.name] = (sg, ni, nf)


def division_operators(ck, rule, results):
    """C09.R2: quotients are formed by integer floor division of codes, remainders by % on equally scaled codes."""
    prog = ck.prog
    for q, (t, events, ret, pf) in sorted(results.items()):
        k = prog.funcs[q]
        fn = pub_name(k)
        if fn not in ("truediv", "floordiv", "mod"):
            continue
        td = [e for e in events if e[0] == "truediv"]
        ck.check(not td, rule, k, "%s forms its result with integer operations on codes (no true division)" % k.name,
                 "true division inside the raw kernel: %s" % (src(td[0][1])[:80] if td else ""), pf.ret_stmt,
                 "a float quotient loses exactness beyond 53 bits and is rounded, not floored")
        ops_ = {type(n.op).__name__ for n in ast.walk(ret) if isinstance(n, ast.BinOp)}
        if fn in ("truediv", "floordiv"):
            ck.check("FloorDiv" in ops_, rule, k, "%s divides codes with // (floor)" % k.name, "no floor division in %s" % k.name, pf.ret_stmt)
        else:
            ck.check("Mod" in ops_, rule, k, "%s takes the remainder with %% on aligned codes" % k.name, "no %% in %s" % k.name, pf.ret_stmt)


def reduction_room(ck, rule):
    """C15.R3: optimal sizes of sum/cumsum/trace/prod/cumprod/dot hold the result when every element is extreme."""
    prog = ck.prog
    xs, ys = Term.bvar("x.signed"), Term.bvar("y.signed")
    wf = wellformed(["x", "y"])
    xi, yi = wf[("v", "x.n_int")], wf[("v", "y.n_int")]
    xf, yf = Term.var("x.n_frac"), Term.var("y.n_frac")
    seen = set()
    for f, w, call in public_functions(prog):
        nm = f.name
        if nm not in ("sum", "cumsum", "trace", "prod", "cumprod", "dot"):
            continue
        seen.add(nm)
        r = _sizes_for(ck, rule, f, w, call)
        if r is None:
            continue
        sg, ni, nf, pf = r
        GROWTH[nm] = (sg, ni, nf)
        if nm in ("sum", "cumsum", "trace"):
            _ge(ck, rule, f, call, sg, xs, "%s: the result is signed when the operand is" % nm, "negative sums are lost")
            _ge(ck, rule, f, call, nf, xf, "%s: n_frac >= x.n_frac" % nm, "sums are rounded")
            # n_int = x.n_int + clog2(A) with A an over-estimate of the number of addends
            extra = ni - xi
            cl = [a for a in extra.atoms() if a[0] == "f" and a[1] == "clog2"]
            okcount = False
            if len(cl) == 1:
                arg = cl[0][2][0]
                names = arg.symbols()
                okcount = arg == Term.var("x.size") or (nm == "trace" and len(names) == 1 and "diagonal" in names[0] and names[0].rstrip(">").endswith(".size") and arg == Term.var(names[0]))
                rest = extra - Term.atom(cl[0])
                okcount = okcount and nonneg(rest)
            ck.check(okcount, rule, f, "%s: n_int >= x.n_int + ceil(log2(N)) with N at least the number of addends (%s)" % (nm, "diagonal length" if nm == "trace" else "x.size bounds every axis length"),
                     "n_int - x.n_int = %s" % extra.show(), call, "N extreme elements sum to N*2^x.n_int, which needs ceil(log2 N) more integer bits")
        elif nm in ("prod", "cumprod"):
            # unify the count symbol
            cnt_atoms = [a for a in (ni.all_atoms() | nf.all_atoms()) if a[0] == "v" and (a[1] == "x.size" or a[1].startswith("x.shape["))]
            N = Term.var("N")
            m = {a: N for a in cnt_atoms}
            ni2, nf2, sg2 = ni.subst(m), nf.subst(m), sg.subst(m)
            _ge(ck, rule, f, call, sg2, xs, "%s: the result is signed when the operand is" % nm, "negative products are lost")
            okall = True
            for case, sub, facts in (("N = 1", {("v", "N"): Term.const(1)}, Facts()),
                                     ("N >= 2", {("v", "N"): Term.var("M") + 2}, Facts(nonneg_syms=("M",) + (("x.n_int*",) if False else ())))):
                if nm == "cumprod":
                    facts = Facts(nonneg_syms=("M", "x.n_frac"))
                lhs_i = ni2.subst(sub)
                need_i = (N * xi).subst(sub) + (xs if case != "N = 1" else Term.const(0))
                lhs_f = nf2.subst(sub)
                need_f = (N * xf).subst(sub)
                okall &= _ge(ck, rule, f, call, lhs_i, need_i, "%s (%s): n_int >= N*x.n_int + [signed and N >= 2] ((-2^i)^N = +2^(N*i) for even N)" % (nm, case),
                             "an even number of most-negative elements multiplies to +2^(N*n_int), one past the maximum", facts)
                okall &= _ge(ck, rule, f, call, lhs_f, need_f, "%s (%s): n_frac >= N*x.n_frac (every product bit is kept)" % (nm, case), "the product is rounded", facts)
            if nm == "cumprod":
                ck.note("cumprod room is decided for x.n_frac >= 0 and the final prefix; shorter prefixes need x.n_int >= 0 (assumed as in the property's quantifier)")
        elif nm == "dot":
            _ge(ck, rule, f, call, sg, t_or(xs, ys), "dot: the result is signed when an operand is signed", "negative results are lost")
            _ge(ck, rule, f, call, nf, xf + yf, "dot: n_frac >= x.n_frac + y.n_frac", "products are rounded")
            extra = ni - xi - yi
            cl = [a for a in extra.atoms() if a[0] == "f" and a[1] == "clog2"]
            okc = False
            if len(cl) == 1:
                arg = cl[0][2][0]
                okc = arg == Term.var("x.shape[-1]") or arg == Term.var("y.shape[0]")
                rest = extra - Term.atom(cl[0]) - xs * ys
                okc = okc and nonneg(rest)
            ck.check(okc, rule, f, "dot: n_int >= x.n_int + y.n_int + ceil(log2 K) + [both signed], K = x.shape[-1] the number of accumulated products",
                     "n_int - x.n_int - y.n_int = %s" % extra.show(), call, "K extreme products sum to K*2^(x.n_int+y.n_int)")
    for nm in ("sum", "cumsum", "trace", "prod", "cumprod", "dot"):
        if nm not in seen:
            ck.bad(rule, "fxpmath/functions.py", "%s goes through the sizing wrapper" % nm, "functions.%s not found or does not call a wrapper" % nm)


def routes_converge(ck, rule):
    """C15.R1: each ndarray-style method resolves to the functions entry that @implements(np.<name>) registers and forwards
    axis/out/out_like/sizing/method."""
    prog = ck.prog
    table = {"sum": ("sum", "np.sum"), "cumsum": ("cumsum", "np.cumsum"), "prod": ("prod", "np.prod"), "cumprod": ("cumprod", "np.cumprod"),
             "dot": ("dot", "np.dot"), "trace": ("trace", "np.trace"), "max": ("fxp_max", "np.max"), "min": ("fxp_min", "np.min"),
             "clip": ("clip", "np.clip"), "transpose": ("transpose", "np.transpose"), "diagonal": ("diagonal", "np.diagonal")}
    # registry: decorators
    reg = {}
    for q, f in prog.funcs.items():
        if f.module == "functions" and f.parent is None:
            for d in f.node.decorator_list:
                if isinstance(d, ast.Call) and dotted(d.func) == "implements":
                    for a in d.args:
                        reg.setdefault(dotted(a), []).append(f.name)
    for meth, (fn, npname) in sorted(table.items()):
        m = prog.func("objects.Fxp." + meth, required=False)
        if m is None:
            ck.bad(rule, "objects.Fxp", "method %s exists" % meth, "method %s missing" % meth)
            continue
        ck.saw(m)
        regs = reg.get(npname, [])
        ck.check(regs == [fn], rule, "fxpmath/functions.py", "%s is implemented by functions.%s (and only it)" % (npname, fn), "%s registered for %s" % (regs, npname), None,
                 "numpy dispatch and the method would run different code")
        good = False
        want_default = {"out": "self.config.op_out", "out_like": "self.config.op_out_like", "sizing": "self.config.op_sizing", "method": "self.config.op_method"}
        for pf in fpaths(prog, m):
            if pf.end != "return" or pf.ret is None:
                continue
            c = peel(pf.ret)[0]
            rt = pf.ret_stmt
            if not (isinstance(c, ast.Call) and prog.resolve_call(m, c) == "functions." + fn):
                continue
            good = True
            if not (c.args and dotted(c.args[0]) == "self"):
                ck.bad(rule, m, "%s passes self as the operand" % meth, src(c)[:80], rt)
            for k_ in ("out", "out_like", "sizing", "method"):
                v = kw(c, k_)
                # the substituted keyword is the method's own parameter, or the entry popped from **kwargs with the configured default
                okf = v is not None and dotted(v) == k_ and k_ in m.params
                if not okf and v is None and any(kk.arg is None for kk in c.keywords):
                    # the keyword record itself is forwarded; its entry was given the configured default with kwargs.setdefault(k, default)
                    spread = [dotted(kk.value) for kk in c.keywords if kk.arg is None]
                    for ce in pf.calls:
                        rc = ce.raw
                        if isinstance(rc.func, ast.Attribute) and rc.func.attr == "setdefault" and dotted(rc.func.value) in spread and len(rc.args) == 2 and const_str(rc.args[0]) == k_:
                            okf = True
                            if not (meth == "dot" and k_ == "sizing"):
                                ck.check(dotted(rc.args[1]) == want_default[k_], rule, m, "%s takes the default of %s from its configuration" % (meth, k_), src(rc)[:80], rt, nontrivial=False)
                if not okf and isinstance(v, ast.Call) and dotted(v.func) in ("kwargs.pop", "kwargs.get") and v.args and const_str(v.args[0]) == k_:
                    okf = True
                    if len(v.args) == 2 and not (meth == "dot" and k_ == "sizing"):
                        ck.check(dotted(v.args[1]) == want_default[k_], rule, m, "%s takes the default of %s from its configuration" % (meth, k_), src(v)[:80], rt, nontrivial=False)
                ck.check(okf, rule, m, "%s forwards %s" % (meth, k_), "%s=%s" % (k_, src(v)[:60] if v is not None else None), rt, nontrivial=False)
            for p in m.params:
                if p in ("self", "x"):
                    continue
                v = kw(c, p)
                ck.check(v is not None and dotted(v) == p, rule, m, "%s forwards its %s argument" % (meth, p), "%s=%s" % (p, src(v)[:60] if v is not None else None), rt)
        ck.check(good, rule, m, "Fxp.%s returns functions.%s(self, ...)" % (meth, fn), "Fxp.%s does not call functions.%s" % (meth, fn), m.node,
                 "the method and numpy routes compute different things")
    # sort: in place on the codes (documented exception) and np.sort -> functions.sort
    ck.check(reg.get("np.sort") == ["sort"], rule, "fxpmath/functions.py", "np.sort is implemented by functions.sort", "%s" % reg.get("np.sort"))
    ck.extra["registry"] = {k: v for k, v in sorted(reg.items())}
    if len(reg) < 20:
        raise AnalysisError("numpy registry has only %d entries" % len(reg))


def governing_config(ck, rule):
    """C08.R3: the result of a two-operand function carries the first operand's configuration unless out / out_like is given."""
    prog = ck.prog
    w1, w2 = A.wrappers(prog)
    w = w2
    ops_ = [p for p in w.params if p in ("x", "y")]
    okn = 0
    for pf in fpaths(prog, w):
        if pf.end != "return" or pf.ret is None:
            continue
        r = peel(pf.ret)[0]
        states = set()
        for g in pf.guards:
            # raw test: `out` is rebound (out = out[0]) between the two tests, the name is what matters here
            st_ = none_state([(g[2] if g[2] is not None else g[0], g[1])], "out")
            if st_ is not None:
                states.add(st_)
        if len(states) > 1:
            continue    # out tested twice with different outcomes: excluded by the isinstance(out, Fxp) check in between
        out_given = (False in states)
        like_given = none_state([(g[2] if g[2] is not None else g[0], g[1]) for g in pf.guards], "out_like") is False
        if isinstance(r, ast.Call) and isinstance(r.func, ast.Attribute) and r.func.attr == "set_val":
            recv = peel(r.func.value)[0]
            base = recv.value if isinstance(recv, ast.Subscript) else recv
            good = out_given and dotted(base) == "out"
            ck.check(good, rule, w, "with out=, the result is stored into out itself (under out's configuration)", "set_val receiver %s" % src(r.func.value)[:40], pf.ret_stmt)
            okn += good
        elif isinstance(r, ast.Call) and prog.is_fxp_ctor(w, r):
            cfg = kw(r, "config")
            like = kw(r, "like")
            if out_given:
                ck.bad(rule, w, "with out=, the result is stored into out", "constructs a new object although out is given", pf.ret_stmt)
                continue
            if dotted(like) != "out_like":
                ck.bad(rule, w, "out_like is the template of the result", "like=%s" % (src(like) if like is not None else None), pf.ret_stmt)
                continue
            if like_given:
                good = cfg is None or (isinstance(cfg, ast.Constant) and cfg.value is None)
                ck.check(good, rule, w, "with out_like=, the result carries the template's configuration (no config override)", "config=%s" % (src(cfg) if cfg is not None else None), pf.ret_stmt)
            else:
                good = dotted(cfg) == ops_[0] + ".config"
                if not good and isinstance(cfg, ast.Attribute) and cfg.attr == "config" and isinstance(cfg.value, ast.Call) and prog.is_fxp_ctor(w, cfg.value) \
                        and cfg.value.args and dotted(cfg.value.args[0]) == ops_[0]:
                    good = True     # operand coerced with Fxp(x) on this path
                ck.check(good, rule, w, "without out/out_like the result inherits the first operand's configuration", "config=%s" % (src(cfg) if cfg is not None else None), pf.ret_stmt,
                         "rounding/overflow of the result would come from the wrong object (or the defaults)")
            okn += good
    if okn == 0:
        raise AnalysisError("two-operand wrapper: no result sink recognised")
    ck.note("one-operand wrapper builds results with the default configuration (its `config` local is unused) - outside C08's operators")


def route_selection(ck, rule):
    """C07.R8: the exact integer route is the default: both wrappers take the value (float) route only for method == 'repr', a scaled operand, or when
    no fraction length is imposed (n_frac is None); any other reason sends exact integer operands through binary64."""
    prog = ck.prog
    from ..common import path_literals
    for w in A.wrappers(prog):
        n = 0
        seen = set()
        for pf in fpaths(prog, w):
            if pf.end != "return":
                continue
            names = {dotted(ce.call.func) for ce in pf.calls}        # substituted: a stage extracted into a helper calls the same two callables
            if "repr_func" not in names or "raw_func" in names:
                continue
            n += 1
            def reason(t):
                if isinstance(t, ast.Attribute) and t.attr == "scaled":
                    return True
                if isinstance(t, ast.Compare) and len(t.ops) == 1:
                    l, op, r = t.left, t.ops[0], t.comparators[0]
                    if isinstance(op, ast.Eq) and dotted(l) == "method" and const_str(r) == "repr":
                        return True
                    if isinstance(op, ast.Is) and isinstance(r, ast.Constant) and r.value is None and ("n_frac" in src(l) or (isinstance(l, ast.Constant) and l.value is None)):
                        return True
                    if isinstance(op, ast.Is) and isinstance(r, ast.Constant) and r.value is None and isinstance(l, ast.Subscript) and isinstance(l.slice, ast.Constant) \
                            and l.slice.value == 3 and isinstance(l.value, ast.Call) and prog.resolve_call(w, l.value) == A.sizing(prog).qualname:
                        return True          # the fraction length as returned by the sizing function (4th entry), before any re-binding
                return False
            why = False
            lits = list(path_literals(pf.guards)) + list(path_literals([(g[2], g[1]) for g in pf.guards if g[2] is not None]))
            for t, pol in lits:
                if not pol:
                    continue
                alts = t.values if (isinstance(t, ast.BoolOp) and isinstance(t.op, ast.Or)) else [t]
                if all(reason(a) for a in alts):
                    why = True
            if not why:
                key = tuple((src(g[0])[:50], g[1]) for g in pf.guards[-3:])
                if key in seen:
                    continue
                seen.add(key)
                ck.bad(rule, w, "the value (float) route is taken only for method='repr', scaled operands or an unspecified fraction length",
                       "repr route under %s" % [(src(g[0])[:50], g[1]) for g in pf.guards if "repr" in src(g[0]) or "n_frac" in src(g[0]) or "scaled" in src(g[0])], w.node,
                       "results that need more than 53 bits are rounded (or wrap in int64) although the exact raw kernel exists")
        if n == 0:
            ck.bad(rule, w, "%s has a value route" % w.name, "no path calls repr_func", w.node)
        elif not seen:
            ck.ok(rule, w, "%s: %d value-route paths, each selected by method == 'repr' / scaled / n_frac is None" % (w.name, n))


def kernels_pure(ck, rule, names=("add", "sub", "mul", "truediv", "floordiv", "mod")):
    """C07.R9: the arithmetic kernels are expressions over the operands' codes: no augmented assignment (an in-place `a += b` neither broadcasts the left
    operand nor leaves a possibly shared buffer alone)."""
    prog = ck.prog
    n = 0
    for f, w, call in public_functions(prog):
        if f.name not in names:
            continue
        for k in kernel_candidates(prog, f, call):
            n += 1
            aug = [x for x in ast.walk(k.node) if isinstance(x, ast.AugAssign)]
            ck.check(not aug, rule, k, "%s combines its operands out of place" % k.name, "in-place %s" % (src(aug[0])[:60] if aug else ""), aug[0] if aug else None,
                     "x_raw += y_raw does not broadcast x_raw: operands of different shapes raise instead of combining element-wise")
    if n == 0:
        raise AnalysisError("no arithmetic kernels found")


def functions_return_results(ck, rule):
    """C15.R7 / C20.R9: every function of functions.py that computes through a wrapper returns, on all of its non-raising paths, that wrapper's result
    (no early return of a constant or of a stand-in), and no function returns one of its own operands as the result object."""
    prog = ck.prog
    w1, w2 = A.wrappers(prog)
    n = 0
    for f, w, call in public_functions(prog):
        for pf in fpaths(prog, f):
            if pf.end != "return":
                continue
            n += 1
            r = peel(pf.ret)[0] if pf.ret is not None else None
            viaw = isinstance(r, ast.Call) and prog.resolve_call(f, r) in (w1.qualname, w2.qualname)
            if not viaw:
                ck.bad(rule, f, "%s returns the wrapper's result on every path" % f.name, "returns %s under %s" % (src(pf.ret)[:50] if pf.ret is not None else None, [(src(g[0])[:40], g[1]) for g in pf.guards][-2:]), pf.ret_stmt,
                       "a result that bypasses the wrapper is not sized, quantized or flagged like the others (and may be the operand itself)")
                break
    for q, f in sorted(prog.funcs.items()):
        if f.module != "functions" or f.parent is not None or f.name.startswith("_"):
            continue
        ops_ = [p for p in f.params if p in ("x", "y", "a", "b")]
        if not ops_:
            continue
        for pf in fpaths(prog, f):
            if pf.end != "return" or pf.ret is None:
                continue
            r = pf.ret
            if isinstance(r, ast.Name) and r.id in ops_:
                ck.bad(rule, f, "%s never returns one of its operands as the result object" % f.name, "returns the parameter %s" % r.id, pf.ret_stmt,
                       "the caller's object and the result are one: later writes to the result change the operand")
                break
    if n == 0:
        raise AnalysisError("no wrapper-based function found")


def kernels_forward_keywords(ck, rule):
    """C15.R8: what a public function puts into the keyword record for its kernel (kwargs['offset'] = offset, ...) is consumed by the kernel: the kernel
    has a parameter of that name, or hands its keyword record on to the NumPy routine it wraps."""
    prog = ck.prog
    n = 0
    for f, w, call in public_functions(prog):
        keys = set()
        for pf in fpaths(prog, f):
            for st in pf.stores:
                if isinstance(st.target, ast.Subscript) and st.path == (f.kwarg or "kwargs") and const_str(st.sub) is not None:
                    keys.add(const_str(st.sub))
        if not keys:
            continue
        for k in kernel_candidates(prog, f, call):
            kwn = k.kwarg
            spread = bool(kwn) and any(kk.arg is None and dotted(kk.value) == kwn for c in calls_in(k.node) for kk in c.keywords)
            for key in sorted(keys - {"n_frac"}):
                n += 1
                named = key in k.params and any(isinstance(x, ast.Name) and x.id == key and isinstance(x.ctx, ast.Load) for x in ast.walk(k.node))
                reads = bool(kwn) and any(isinstance(x, ast.Subscript) and dotted(x.value) == kwn and const_str(x.slice) == key for x in ast.walk(k.node)) or \
                    bool(kwn) and any(isinstance(x, ast.Call) and isinstance(x.func, ast.Attribute) and x.func.attr in ("get", "pop") and dotted(x.func.value) == kwn and x.args and const_str(x.args[0]) == key
                                      for x in ast.walk(k.node))
                ck.check(named or spread or reads, rule, k, "%s uses the %s argument its public function forwards" % (k.name, key), "%s=... is accepted by **%s and dropped" % (key, kwn), k.node,
                         "%s reaches the value route but not the raw route: the two methods disagree" % key)
    # and a kernel adds nothing of its own to the record it hands to NumPy
    for f, w, call in public_functions(prog):
        for k in kernel_candidates(prog, f, call):
            kwn = k.kwarg
            if not kwn:
                continue
            for x in ast.walk(k.node):
                added = None
                if isinstance(x, ast.Call) and isinstance(x.func, ast.Attribute) and dotted(x.func.value) == kwn and x.func.attr in ("setdefault", "update", "__setitem__"):
                    added = src(x)[:60]
                elif isinstance(x, ast.Subscript) and isinstance(x.ctx, ast.Store) and dotted(x.value) == kwn:
                    added = src(x)[:60]
                if added:
                    ck.bad(rule, k, "%s hands NumPy the caller's keywords only (adds none of its own)" % k.name, added, x,
                           "an extra argument such as initial= changes the reduction's result for some inputs")
    if n == 0:
        raise AnalysisError("no forwarded kernel keywords found")


def template_sizes(ck, rule):
    """C08.R3b: with out_like= (and no out) the template alone decides signedness and sizes: both wrappers call the constructor with
    signed / n_int / n_frac / n_word all None on that path (an operand-derived signedness would override the template's)."""
    prog = ck.prog
    for w in A.wrappers(prog):
        n = 0
        for pf in fpaths(prog, w):
            if pf.end != "return" or pf.ret is None:
                continue
            r = peel(pf.ret)[0]
            if not (isinstance(r, ast.Call) and prog.is_fxp_ctor(w, r)):
                continue
            raw_guards = [(g[2] if g[2] is not None else g[0], g[1]) for g in pf.guards]
            if none_state(raw_guards, "out_like") is not False:
                continue
            n += 1
            imposed = []
            for k_ in ("signed", "n_word", "n_int", "n_frac"):
                v = kw(r, k_)
                if v is not None and not (isinstance(v, ast.Constant) and v.value is None):
                    imposed.append("%s=%s" % (k_, src(v)[:40]))
            ck.check(not imposed, rule, w, "with out_like= the result takes signedness and sizes from the template only", "constructor also receives %s" % ", ".join(imposed), pf.ret_stmt,
                     "two unsigned operands with a signed template give an unsigned result: negative results saturate at 0")
        if n == 0:
            ck.bad(rule, w, "%s has an out_like path that builds the result from the template" % w.name, "no constructor call on an out_like path", w.node)


def arg_forwarding(ck, rule):
    """C15.R1 (argument part): the numpy-style arguments of each function reach the computation unchanged: on every path to the wrapper
    call the entry kwargs[<name>] (assignment, kwargs.update(name=...)) or the keyword passed to the wrapper is the parameter itself."""
    prog = ck.prog
    fwd = ("axis", "axes", "offset", "axis1", "axis2", "a_min", "a_max", "newshape", "order")
    n = 0
    for f, w, call in public_functions(prog):
        ps = [p for p in f.params if p in fwd]
        if not ps:
            continue
        for pf in fpaths(prog, f):
            ces = [ce for ce in pf.calls if ce.raw is call]
            if not ces:
                continue
            ce = ces[0]
            for p in ps:
                n += 1
                stores = [st for st in pf.stores if isinstance(st.target, ast.Subscript) and st.path == "kwargs" and const_str(st.sub) == p]
                direct = kw(ce.call, p)
                if stores:
                    v = stores[-1].value
                    ck.check(dotted(v) == p, rule, f, "%s forwards its %s argument unchanged to the computation" % (f.name, p), "kwargs[%r] = %s" % (p, src(v)[:50]), stores[-1].stmt,
                             "the caller's %s is replaced (e.g. axis=None silently becomes another axis)" % p)
                elif direct is not None:
                    ck.check(dotted(direct) == p, rule, f, "%s forwards its %s argument unchanged" % (f.name, p), "%s=%s" % (p, src(direct)[:50]), call)
                else:
                    used = any(isinstance(nn, ast.Name) and nn.id == p for g in f.nested.values() for nn in ast.walk(g.node))
                    ck.check(used, rule, f, "%s uses its %s argument" % (f.name, p), "%s never reaches the computation" % p, f.node)
            break
    if n < 10:
        raise AnalysisError("only %d forwarded numpy arguments found" % n)


def repr_operator_table(ck, rule):
    """C09.R2 (repr siblings): the value-route functions of the division family apply the operator of their name to their operands."""
    prog = ck.prog
    table = {"truediv": ("_truediv_repr", ast.Div), "floordiv": ("_floordiv_repr", ast.FloorDiv), "mod": ("_mod_repr", ast.Mod)}
    for fn, (name, opc) in table.items():
        outer = prog.func("functions." + fn)
        k = outer.nested.get(name)
        if k is None:
            # whatever is bound to repr_func at the wrapper call
            ck.note("%s has no nested %s; repr route uses %s" % (fn, name, "a numpy function"))
            continue
        ps = k.params
        for pf in fpaths(prog, k):
            if pf.end != "return" or pf.ret is None:
                continue
            e = peel(pf.ret)[0]
            good = isinstance(e, ast.BinOp) and isinstance(e.op, opc) and dotted(e.left) == ps[0] and dotted(e.right) == ps[1]
            ck.check(good, rule, k, "%s computes x %s y on the values (the operator the raw kernel mirrors)" % (name, {ast.Div: "/", ast.FloorDiv: "//", ast.Mod: "%"}[opc]),
                     "%s returns %s" % (name, src(pf.ret)[:60]), pf.ret_stmt, "raw and repr methods disagree (e.g. truncation toward zero instead of floor for negative quotients)")
