"""Rules about functions.py: wrappers, sizing, kernels (C07, C08, C09, C15; C02.R7)."""
import ast

from ..model import dotted, src, calls_in, kw, AnalysisError
from ..common import fpaths, peel, actual, mkterm, mkbool, guard_assignment, same_expr, const_str, status_key
from ..terms import Term, exp2, ite, NotATerm, witness, tmin, tmax, t_or, fapp, nonneg, Facts
from .. import anchors as A


def results_through_funnel(ck, rule):
    """C02.R7 / C07.R4: in both wrappers every returned object is the result of out.set_val(val, raw=raw) or of the
    constructor fed with val; raw=True accompanies the kernel route and raw=False the repr route; the n_frac handed to
    the kernel is the one the sink stores with."""
    prog = ck.prog
    for w in A.wrappers(prog):
        pfs = fpaths(prog, w)
        ck.saw(w, paths=len(pfs))
        okn = 0
        failed = False
        for pf in pfs:
            if pf.end != "return":
                if pf.end == "end":
                    ck.bad(rule, w, "the wrapper returns the result object", "path falls off the end", w.node)
                    failed = True
                continue
            r, _ = peel(pf.ret) if pf.ret is not None else (None, None)
            sink = None
            if isinstance(r, ast.Call) and isinstance(r.func, ast.Attribute) and r.func.attr == "set_val":
                sink = ("set_val", r)
            elif isinstance(r, ast.Call) and prog.is_fxp_ctor(w, r):
                sink = ("ctor", r)
            if sink is None:
                ck.bad(rule, w, "function results are rebuilt through the constructor or out.set_val", "returns %s" % (src(pf.ret)[:80] if pf.ret is not None else None), pf.ret_stmt,
                       "a result that bypasses the funnel is not quantized into its format")
                failed = True
                break
            kind, call = sink
            val = call.args[0] if call.args else kw(call, "val")
            raw = kw(call, "raw", 1 if kind == "set_val" else None)
            vinner, _ = peel(val) if val is not None else (None, None)
            is_kernel = isinstance(vinner, ast.Call) and dotted(vinner.func) == "raw_func"
            is_repr = isinstance(vinner, ast.Call) and dotted(vinner.func) == "repr_func"
            if not (is_kernel or is_repr):
                ck.bad(rule, w, "the stored value is the kernel's or the repr function's result, unchanged", "stores %s" % (src(val)[:80] if val is not None else None), pf.ret_stmt,
                       "an extra operation between the computation and the single quantization of the sink")
                failed = True
                break
            rawv = raw.value if isinstance(raw, ast.Constant) else None
            if rawv is None or bool(rawv) != is_kernel:
                ck.bad(rule, w, "raw=True accompanies the integer-code kernel and raw=False the value route", "%s route stored with raw=%s" % ("kernel" if is_kernel else "repr", src(raw) if raw is not None else None), pf.ret_stmt,
                       "codes would be scaled again / values taken as codes")
                failed = True
                break
            if is_kernel:
                # n_frac passed to kernel == n_frac of the sink
                knf = None
                for k in vinner.keywords:
                    if k.arg is None and isinstance(k.value, ast.Name):
                        # **kwargs : find kwargs['n_frac'] store on the path
                        for st in pf.stores:
                            if isinstance(st.target, ast.Subscript) and st.path == k.value.id and const_str(st.target.slice) == "n_frac":
                                knf = st.value
                    elif k.arg == "n_frac":
                        knf = k.value
                if kind == "ctor":
                    snf = kw(call, "n_frac")
                else:
                    recv = call.func.value
                    snf = ast.Attribute(value=recv, attr="n_frac", ctx=ast.Load())
                if knf is None or snf is None or not same_expr(knf, snf):
                    ck.bad(rule, w, "the kernel is told the fraction length its result is stored with", "kernel n_frac=%s, sink n_frac=%s" % (src(knf) if knf is not None else None, src(snf) if snf is not None else None), pf.ret_stmt,
                           "the raw result would be interpreted at a different binary point")
                    failed = True
                    break
            okn += 1
        if not failed:
            ck.ok(rule, w, "all %d returning paths store the kernel/repr result once, through set_val or the constructor, with matching raw flag and n_frac" % okn)


# =========================================================================== kernels and sizing

from ..scaletype import Typer, Mismatch, Unknown
from ..paths import subst
from ..terms import equiv


class _Rewrite(ast.NodeTransformer):
    """canonical spellings used by the typer: kwargs['k'] if 'k' in kwargs else None -> kwargs['k'];
    np.cumsum(np.ones_like(..), axis=A)[.astype(int)] -> cumcount(A)"""

    def visit_IfExp(self, n):
        self.generic_visit(n)
        t = n.test
        if isinstance(t, ast.Compare) and len(t.ops) == 1 and isinstance(t.ops[0], ast.In) and isinstance(t.left, ast.Constant) \
                and isinstance(n.body, ast.Subscript) and isinstance(n.body.slice, ast.Constant) and n.body.slice.value == t.left.value \
                and dotted(n.body.value) == dotted(t.comparators[0]) and isinstance(n.orelse, ast.Constant) and n.orelse.value is None:
            return n.body
        return n

    def visit_Call(self, n):
        self.generic_visit(n)
        if isinstance(n.func, ast.Attribute) and n.func.attr == "astype" and isinstance(n.func.value, ast.Call) and dotted(n.func.value.func) == "cumcount":
            return n.func.value
        if dotted(n.func) == "np.cumsum" and n.args and isinstance(n.args[0], ast.Call) and dotted(n.args[0].func) in ("np.ones_like", "np.ones"):
            ax = kw(n, "axis", 1)
            return ast.Call(func=ast.Name(id="cumcount", ctx=ast.Load()), args=[ax if ax is not None else ast.Constant(value=None)], keywords=[])
        return n


def public_functions(prog):
    """top-level functions of functions.py that call one of the two wrappers: [(Func, wrapper Func, call node)]"""
    w1, w2 = A.wrappers(prog)
    out = []
    for q, f in prog.funcs.items():
        if f.module != "functions" or f.parent is not None or f in (w1, w2):
            continue
        for c in calls_in(f.node):
            r = prog.resolve_call(f, c)
            if r in (w1.qualname, w2.qualname) and not any(n is c for g in f.nested.values() for n in ast.walk(g.node)):
                out.append((f, prog.funcs[r], c))
    return out


def kernel_candidates(prog, f, call):
    """nested defs that can be bound to raw_func at this wrapper call (incl. `_k = _k_complex` rebinding)"""
    rf = kw(call, "raw_func", 1)
    names = set()
    if isinstance(rf, ast.Name):
        names.add(rf.id)
        for n in ast.walk(f.node):
            if isinstance(n, ast.Assign) and any(isinstance(t, ast.Name) and t.id == rf.id for t in n.targets) and isinstance(n.value, ast.Name):
                names.add(n.value.id)
    return [f.nested[n] for n in sorted(names) if n in f.nested]


def operand_alias(f, wrapper, call):
    """{outer name -> kernel operand name}: wrapper called with x=a means the kernel's x is the outer a"""
    al = {}
    for p in ("x", "y"):
        v = kw(call, p)
        if isinstance(v, ast.Name) and v.id != p:
            al[v.id] = p
    return al


def kernel_typing(ck, rule, only=None, note_events=None):
    """C07.R3 / C08.R1 / C09.R1 / C15.R2: every raw kernel returns Code<n_frac> for its own (free) n_frac."""
    prog = ck.prog
    n_k = 0
    results = {}
    for f, w, call in public_functions(prog):
        if only is not None and f.name not in only:
            continue
        al = operand_alias(f, w, call)
        for k in kernel_candidates(prog, f, call):
            params = k.params
            if "n_frac" not in params:
                ck.note("kernel %s takes no n_frac (re-arrangement only)" % k.qualname)
                continue
            ops = [p for p in params[:params.index("n_frac")]]
            n_k += 1

            def ren(d, al=al):
                head = d.split(".")[0]
                if head in al:
                    return al[head] + d[len(head):]
                return d
            pfs = fpaths(prog, k)
            ck.saw(k, paths=len(pfs))
            for pf in pfs:
                if pf.end == "raise":
                    continue
                if pf.ret is None:
                    ck.bad(rule, k, "the kernel returns the raw result", "kernel path without return value", k.node)
                    continue
                ret = _Rewrite().visit(ast.fix_missing_locations(_copy(pf.ret)))
                events = []
                ty = Typer(ops + list(al.keys()), rename=ren, events=events)
                try:
                    t = ty.ty(ret)
                except Mismatch as m:
                    ck.bad(rule, k, "operands are aligned to a common binary point before they are combined", "%s: %s" % (m.what, src(m.node)[:100] if m.node is not None else ""), pf.ret_stmt,
                           m.detail)
                    continue
                except (Unknown, NotATerm) as u:
                    ck.unsure(rule, k, "kernel body is in the scale-typing vocabulary", pf.ret_stmt, str(u))
                    continue
                want = Term.var("n_frac")
                ck.saw(terms=1)
                if t.kind != "code":
                    ck.bad(rule, k, "the kernel returns an integer code", "returns %r" % t, pf.ret_stmt)
                    continue
                same, cex = equiv(t.t, want)
                if not same:
                    ck.bad(rule, k, "the kernel result is scaled by 2^n_frac, the fraction length its sink stores it with",
                           "result scaled by 2^(%s), sink expects 2^(n_frac)" % t.t.show(), pf.ret_stmt,
                           {"meaning": "the stored value is wrong by the factor 2^(%s)" % (t.t - want).show(), "witness": witness(t.t, want)})
                    continue
                results[k.qualname] = (t, events, ret, pf)
                ck.ok(rule, k, "%s : Code<n_frac> (operands %s)" % (k.name, ", ".join(sorted(t.ops))), pf.ret_stmt)
    ck.extra["kernels_typed"] = len(results)
    if only is None and n_k < 18:
        raise AnalysisError("only %d raw kernels found (expected >= 18)" % n_k)
    return results


def _copy(e):
    import copy
    return copy.deepcopy(e)


def single_quantization(ck, rule, results, only=None):
    """C08.R2: between the exact integer computation and the sink there is no rounding / integer cast of the
    re-scaled result, and quotients are formed by integer floor division."""
    for q, (t, events, ret, pf) in sorted(results.items()):
        f = ck.prog.funcs[q]
        if only is not None and f.parent.name not in only:
            continue
        badev = [e for e in events if e[0] in ("intcast", "round")]
        # cumprod's int_array over the list of conversion factors is a Pow2 list, not a code: events only record casts of codes
        ck.check(not badev, rule, f, "the kernel result reaches the sink without an intermediate rounding or integer cast",
                 "%s applied inside the kernel: %s" % (badev[0][0], src(badev[0][1])[:90]) if badev else "", pf.ret_stmt,
                 "a truncation before the sink's own rounding makes floor/ceil/around results wrong (double quantization)")


def _nocoerce_path(prog, f, call):
    """PathFacts of f reaching `call` on which no operand was coerced with Fxp(x)"""
    for pf in fpaths(prog, f):
        if pf.end != "return":
            continue
        if not any(ce.raw is call for ce in pf.calls):
            continue
        coerced = False
        for g in pf.guards:
            t = g[2]
            if isinstance(t, ast.UnaryOp) and isinstance(t.op, ast.Not) and isinstance(t.operand, ast.Call) and dotted(t.operand.func) == "isinstance" and g[1]:
                coerced = True
        if not coerced:
            return pf
    return None


def wellformed(prefixes):
    """substitution x.n_int -> x.n_word - x.n_frac - [x.signed] for the given operand names (C02.R3 for operands)"""
    m = {}
    for p in prefixes:
        m[("v", p + ".n_int")] = Term.var(p + ".n_word") - Term.var(p + ".n_frac") - Term.bvar(p + ".signed")
    return m


def optimal_sizes(ck, prog, f, call, alias=None):
    """(signed, n_word_eff, n_int, n_frac) Terms of the optimal size packed at this wrapper call, or None"""
    pf = _nocoerce_path(prog, f, call)
    if pf is None:
        return None
    ce = [c for c in pf.calls if c.raw is call][0]
    os_ = kw(ce.call, "optimal_size")
    if os_ is None or (isinstance(os_, ast.Constant) and os_.value is None):
        return None
    if not isinstance(os_, ast.Tuple) or len(os_.elts) != 4:
        return "unrecognised"
    al = alias or {}

    def ren(d):
        head = d.split(".")[0]
        if head in al:
            return al[head] + d[len(head):]
        return d
    tb = TermBuilder(rename=ren)
    try:
        sg = tb.boolean(os_.elts[0])
        nw = tb.term(os_.elts[1])
        ni = tb.term(os_.elts[2])
        nf = tb.term(os_.elts[3])
    except NotATerm as e:
        return "unrecognised: %s" % e
    return sg, nw, ni, nf, pf


from ..terms import TermBuilder


def sizing_record(ck, rule):
    """C07.R2: _get_sizing('optimal') hands the packed (signed, n_int, n_frac) through unchanged and the wrappers pass each
    under the keyword of its own role."""
    prog = ck.prog
    sz = A.sizing(prog)
    pfs = fpaths(prog, sz)
    ck.saw(sz, paths=len(pfs))
    okp = 0
    for pf in pfs:
        if pf.end != "return" or pf.ret is None:
            continue
        gopt = [g for g in pf.guards if g[2] is not None and isinstance(g[2], ast.Compare) and dotted(g[2].left) == "sizing" and const_str(g[2].comparators[0]) == "optimal" and g[1]]
        gnn = [g for g in pf.guards if g[2] is not None and isinstance(g[2], ast.Compare) and dotted(g[2].left) == "optimal_size" and isinstance(g[2].ops[0], ast.IsNot) and g[1]]
        if not gopt or not gnn:
            continue
        r = pf.ret
        if not (isinstance(r, ast.Tuple) and len(r.elts) == 4):
            ck.bad(rule, sz, "_get_sizing returns (signed, n_word, n_int, n_frac)", "returns %s" % src(r)[:80], pf.ret_stmt)
            continue

        def elem(e):
            e = peel(e)[0]
            if isinstance(e, ast.Subscript) and dotted(e.value) == "optimal_size" and isinstance(e.slice, ast.Constant):
                return e.slice.value
            return None
        got = (elem(r.elts[0]), elem(r.elts[2]), elem(r.elts[3]))
        ck.check(got == (0, 2, 3), rule, sz, "under sizing='optimal' the result's signed / n_int / n_frac are the caller's optimal_size entries 0 / 2 / 3",
                 "returns optimal_size entries %s for (signed, n_int, n_frac)" % (got,), pf.ret_stmt,
                 "exchanged tuple entries give the result a wrong format")
        # n_word consistent: int(signed) + n_int + n_frac
        try:
            tb = TermBuilder()
            if isinstance(r.elts[1], ast.Constant) and r.elts[1].value is None:
                raise NotATerm("n_word None (sizes left to inference)")
            nw = tb.term(r.elts[1])
            o = tb.term(ast.Call(func=ast.Name(id="int", ctx=ast.Load()), args=[r.elts[0]], keywords=[])) + tb.term(r.elts[2]) + tb.term(r.elts[3])
            ck.check(nw == o, rule, sz, "n_word returned by _get_sizing equals [signed] + n_int + n_frac", "n_word = %s" % nw.show(), pf.ret_stmt)
        except NotATerm:
            pass
        okp += 1
    if okp == 0:
        ck.bad(rule, sz, "_get_sizing honours the caller's optimal_size under sizing='optimal'", "no path returns the optimal_size entries", sz.node,
               "the documented growth rules would be ignored")
    # wrappers: unpack and keyword roles
    for w in A.wrappers(prog):
        for pf in fpaths(prog, w):
            if pf.end != "return" or pf.ret is None:
                continue
            r = peel(pf.ret)[0]
            if isinstance(r, ast.Call) and prog.is_fxp_ctor(w, r):
                noout = [g for g in pf.guards if g[2] is not None and src(g[2]) in ("out is not None", "out_like is not None") and g[1]]
                if noout:
                    continue

                def from_sizing(e, idx):
                    e = peel(e)[0] if e is not None else None
                    return isinstance(e, ast.Subscript) and isinstance(e.value, ast.Call) and prog.resolve_call(w, e.value) == sz.qualname \
                        and isinstance(e.slice, ast.Constant) and e.slice.value == idx
                good = from_sizing(kw(r, "signed"), 0) and from_sizing(kw(r, "n_int"), 2) and from_sizing(kw(r, "n_frac"), 3) and kw(r, "n_word") is None
                ck.check(good, rule, w, "the wrapper builds the result with signed/n_int/n_frac taken from _get_sizing entries 0/2/3",
                         "constructor keywords signed=%s n_int=%s n_frac=%s" % tuple(src(kw(r, k))[:40] if kw(r, k) is not None else None for k in ("signed", "n_int", "n_frac")), pf.ret_stmt,
                         "sizes would be passed under the wrong role")
                break


GROWTH = {}


def growth_rules(ck, rule, names=("add", "sub", "mul")):
    """C07.R1: the optimal size terms equal the documented growth rules (equality, modulo operand well-formedness)."""
    prog = ck.prog
    xs, ys = Term.bvar("x.signed"), Term.bvar("y.signed")
    xw, yw, xf, yf = (Term.var(n) for n in ("x.n_word", "y.n_word", "x.n_frac", "y.n_frac"))
    wf = wellformed(["x", "y"])
    xi, yi = wf[("v", "x.n_int")], wf[("v", "y.n_int")]
    sg_o = t_or(xs, ys)
    oracle = {
        "add": (sg_o, tmax(xi, yi) + 1, tmax(xf, yf)),
        "sub": (sg_o, tmax(xi, yi) + 1, tmax(xf, yf)),
        "mul": (sg_o, xw + yw - sg_o - (xf + yf), xf + yf),
    }
    for f, w, call in public_functions(prog):
        if f.name not in names:
            continue
        r = optimal_sizes(ck, prog, f, call)
        if r is None or isinstance(r, str):
            ck.bad(rule, f, "%s packs an optimal size for its result" % f.name, "optimal_size %s" % r, call, "without it the result takes the first operand's size and can overflow")
            continue
        sg, nw, ni, nf, pf = r
        osg, oni, onf = oracle[f.name]
        ni2, nf2 = ni.subst(wf), nf.subst(wf)
        ck.saw(f, terms=3)
        same, _ = equiv(sg, osg)
        ck.check(same, rule, f, "%s: result is signed iff an operand is signed" % f.name, "signed = %s" % sg.show(), call, "a signed operand stored in an unsigned result loses its sign")
        same, cex = equiv(nf2, onf)
        ck.check(same, rule, f, "%s: result n_frac = %s" % (f.name, onf.show()), "n_frac = %s" % nf2.show(), call,
                 {"witness": witness(nf2, onf), "meaning": "fraction bits are lost or the result is mis-sized"})
        same, cex = equiv(ni2, oni)
        ck.check(same, rule, f, "%s: result n_int = %s" % (f.name, "max(x.n_int, y.n_int) + 1" if f.name != "mul" else "x.n_word + y.n_word - [signed] - n_frac"),
                 "n_int = %s (booleans %s)" % (ni2.show(), cex), call, {"witness": witness(ni2.subst({}), oni), "meaning": "the exact result does not fit: overflow with extreme operands"})
        GROWTH[f.name] = (sg, ni2, nf2)


def alignment_exponents_nonneg(ck, rule, results, names, nfrac_of):
    """C07.R5 / C09.R4: under optimal sizing every alignment exponent (2**k factor applied to a code) is >= 0."""
    prog = ck.prog
    for q, (t, events, ret, pf) in sorted(results.items()):
        k = prog.funcs[q]
        fn = k.parent.name
        if fn not in names or fn not in nfrac_of:
            continue
        nf = nfrac_of[fn]
        shifts = []
        ty = Typer([p for p in k.params if p in ("x", "y")], events=[])
        for n in ast.walk(ret):
            p = ty.pow2(n) if isinstance(n, (ast.BinOp, ast.Call)) else None
            if p is not None:
                shifts.append((p, n))
        for p, n in shifts:
            e = p.subst({("v", "n_frac"): nf})
            good = nonneg(e, Facts(nonneg_syms=("x.n_int_plus", )))
            ck.saw(terms=1)
            ck.check(good, rule, k, "with optimal sizing the alignment exponent of %s is non-negative (integer arithmetic, no rounding)" % fn,
                     "exponent %s = %s under optimal n_frac" % (p.show(), e.show()), n,
                     "a negative exponent multiplies codes by a fraction: the kernel rounds")
