"""C20 - objects are independent and inputs are never mutated."""
from . import fresh, routes, funcs, pipeline

from . import routes, fresh, flags, sizes, conv, dtype, carriers, funcs, ops, strings, pipeline, widths

EXPLANATION = (
    "R1 every deriving route the statement lists (unary, shifts, bitwise, like, deepcopy, function wrappers) returns an object created by the constructor "
    "or from a deep copy - no Fxp.copy()/copy.copy on the way; indexing assigns the bare view self.val[index] (the documented exception); R2 the constructor "
    "deep-copies like=/template state, installs a fresh status record after that copy on every path, and stores only a fresh or deep-copied Config; R3/R4 "
    "the buffer stored by set_val passes through copying casts (no copy=False, np.array on every normaliser path) and indexed stores write into the existing "
    "buffer; R5 no function writes into a container parameter (item assignment / in-place method) unless it was rebound to a fresh copy first; R6 each of the "
    "validated Config attributes is stored only in its own setter, under a test on the very value stored, with raise on the other branch; Config.update goes "
    "through setattr. Residual: mutation through NumPy views the user holds; aliasing through objects stored inside Config (op_out etc. are references by design)."
    ' Added after the third round of seeded changes: R7 no function writes class-level state; status records are replaced only in the constructor (C04.R3 ownership).'
    ' Added after the fourth round of seeded changes: R8 objects carry only the documented attributes and no function writes module-level containers (no caches / memos that go stale); R9 no function returns one of its operands as the result object and the method routes converge with their configuration defaults (C15.R1).'
    ' Added after the fifth round of seeded changes: C04.R7; C20.R8 also forbids mutable default arguments and private attributes hung on operands (x._cache, x.__dict__[...]).'
    ' Added after the sixth round of seeded changes: R8 also forbids writes into class-level containers, directly or through a local alias (a memo shared by every object).')
ASSUMPTIONS = ["copy.deepcopy recursively copies dicts, lists, ndarrays and instances; copy.copy / Fxp.copy() copy one level (lemma)",
               "ndarray.astype / np.array copy unless copy=False (lemma)"]
TRUSTED = ["CPython ast", "freshness lattice of DESIGN A7"]


def run(ck):
    fresh.returned_objects_fresh(ck, "C20.R1")
    fresh.constructor_state(ck, "C20.R2")
    fresh.stored_buffer_is_private(ck, "C20.R4")
    routes.no_store_into_immutable(ck, "C20.R5")
    routes.no_alias_writes(ck, "C20.R5")
    routes.config_not_shared(ck, "C20.R2")
    fresh.config_validation(ck, "C20.R6")
    funcs.results_through_funnel(ck, "C02.R7")
    pipeline.store_pipeline(ck, "C01.R2", want_bounds=False)
    fresh.no_class_state_writes(ck, "C20.R7")
    flags.sticky_and_ownership(ck, "C20.R3")
    fresh.no_hidden_state(ck, "C20.R8")                  # results depend on the documented state only (no caches / memos)
    funcs.routes_converge(ck, "C15.R1")
    funcs.functions_return_results(ck, "C20.R9")
    fresh.reset_only_by_user(ck, "C04.R7")
