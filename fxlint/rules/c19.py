"""C19 - no silent wrap at the 64-bit machine boundary in arithmetic or in storing."""
from . import widths, carriers, funcs, routes

from . import routes, fresh, flags, sizes, conv, dtype, carriers, funcs, ops, strings, pipeline, widths

EXPLANATION = (
    "Carrier/width typing (the rule is the property): with the storage invariant 'o.val is a Python-int object array iff o.n_word >= 64, else int64/uint64' (decided by C18.R1 on "
    "set_val, wrap and every kernel guard) each arithmetic node of _add_raw/_sub_raw/_mul_raw gets an exact bit width (bits(o.val)=n_word, bits(e*2^k)=bits+k, bits(e1*e2)=sum) under the "
    "optimal n_frac; R1 a node that can be a machine integer needs a cast guard `T >= 64` with bits <= T+1 (ordering decided on terms) or an operand bound n_word <= 63 that covers it; a cast of codes to a fixed machine type (astype(np.int64)) takes the value out of its operand's carrier: unsigned words need one more bit and sums of such values need their own bound; conditional expressions inside a kernel are case-split with their tests as guards; "
    "R2 no node combines an int64 with a uint64 array (NumPy-2 promotes to float64) unless a guard implied by x.signed != y.signed makes one side Python ints; R3 set_val's machine-integer "
    "branch must be left whenever |val|*2^n_frac can reach 2^63 (the test must be on the scaled value with the int64 capacity); R4 the value type handed to the pre-scale cast never turns "
    "Python ints into float64. Today's tree has 8 genuine violations of R1-R3 (listed in known_findings.json with failing inputs); any other node or kernel is still reported."
    " Added after the third round of seeded changes: R5 the machine carrier is int64/uint64; R6 the exact integer route is not left for any reason other than method='repr', scaling or n_frac None; operators pass op_method (C08.R4); _init_size relation for n_int == 0 (C06.R1); constructor state (C20.R2)."
    ' Added after the fourth round of seeded changes: the store pipeline has nothing (no clamp in value units) between the input and the scaling (C01.R2); C20.R8 objects carry only the documented attributes and no function writes module-level containers (no caches / memos that go stale) (a memo of alignment factors keyed by the shift alone returns an unpromoted factor).'
    ' Added after the fifth round of seeded changes: resize re-stores after every size write, so a widened word moves to the Python-int carrier (C10.R2); C20.R8 also forbids mutable default arguments and private attributes hung on operands (x._cache, x.__dict__[...]) (a cached Python-int copy of the codes goes stale after indexed stores).'
    ' Added after the sixth round of seeded changes: R7 the two sides of a combining node are on one carrier: unless the guards bound every operand word to 63 bits or both sides are Python ints on the path, a word below 64 bits meets a word of 64 bits or more as np.int64 (+) Python int, which raises OverflowError for scalars (genuine defect G12, repaired by /repo d03d948; the reverse patch is reported).')
ASSUMPTIONS = ["NumPy >= 2 promotion: int64 (+) uint64 -> float64; array (+) Python int keeps the array dtype; object arrays hold exact Python ints",
               "optimal sizing (C07.R1) gives n_frac = max(x.n_frac, y.n_frac) for +,- and x.n_frac + y.n_frac for *"]
TRUSTED = ["CPython ast", "fxlint ordering procedure", "NumPy promotion lemma"]


def run(ck):
    widths.kernel_widths(ck, "C19.R1", "C19.R2")
    widths.scaling_guard(ck, "C19.R3")
    routes.carrier_types(ck, "C19.R4")
    carriers.threshold_everywhere(ck, "C18.R1")
    pipeline.overflow_dispatch(ck, "C02.R6", "C03.R2", flags.handler_roles_quiet(ck.prog))   # what leaves the kernels is clamped element by element on Python numbers
    res = funcs.kernel_typing(ck, "C07.R3", only=("add", "sub", "mul"))
    funcs.single_quantization(ck, "C08.R2", res)
    carriers.machine_carrier(ck, "C19.R5")
    fresh.constructor_state(ck, "C20.R2")            # results and operands are built by the constructor: own status record, own final configuration
    sizes.init_size_relation(ck, "C06.R1")
    funcs.route_selection(ck, "C19.R6")
    ops.operator_siblings(ck, "C08.R4", only=("__add__", "__sub__", "__rsub__", "__mul__"))
    fresh.no_hidden_state(ck, "C20.R8")                  # results depend on the documented state only (no caches / memos)
    pipeline.store_pipeline(ck, "C01.R2", want_bounds=False)   # nothing (no clamp in value units) sits between the input and the scaling
    sizes.resize_rules(ck, {"refresh": "C10.R2", "restore_raw": "C10.R1"})   # a widened word is re-stored (and so moved to the Python-int carrier at 64 bits)
