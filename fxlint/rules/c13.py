"""C13 - bitwise operators act on the n_word-bit two's-complement word."""
from . import ops, fresh

from . import routes, fresh, flags, sizes, conv, dtype, carriers, funcs, ops, strings, pipeline, widths

EXPLANATION = (
    "R1 primitive table: utils.binary_and/or/xor return (x mod 2^n) OP (y mod 2^n) with OP the operator of their name on every path (no early return of an "
    "unreduced operand); binary_invert normalises to 2^n - 1 - x; R2 method siblings __and__/__or__/__xor__/__invert__: on every path with an Fxp operand the "
    "word-length equality check precedes everything and its failing branch raises; the primitive of the same name is called with n_word=self.n_word on self.val and on the other word's codes (re-typed at most to an integer carrier, never to a value type); the "
    "result is re-signed with twos_complement_repr(nbits=self.n_word) iff self.signed; the pattern is stored raw into self.deepcopy(); R3 twos_complement_repr maps "
    "patterns in [0,2^n) by the sign-bit test (bit n-1, boundary 100..0 included) to v - 2^n; reflected/in-place aliases only onto the same commutative operator. "
    "Residual: iteration over array operands by @array_support (outside the quantifier's scalar patterns); Python's & | ^ on ints (lemma)."
    ' Added after the third round of seeded changes: R4 element-wise helpers read and rebuild arrays in the same (C) order; raw stores bypass the scale/bias map (C17.R1); codes reach the buffer only through set_val (C02.R1).'
    ' Added after the fourth round of seeded changes: C20.R8 objects carry only the documented attributes and no function writes module-level containers (no caches / memos that go stale).'
    ' Added after the fifth round of seeded changes: constructor state (C20.R2); C20.R8 also forbids mutable default arguments and private attributes hung on operands (x._cache, x.__dict__[...]).'
    ' Added after the sixth round of seeded changes: (no new rule; the checks of this property are now also part of C18).')
ASSUMPTIONS = ["for 0 <= v < 2^n: (v & 2^(n-1)) != 0  <=>  v >= 2^(n-1)"]
TRUSTED = ["CPython ast", "fxlint term normaliser"]


def run(ck):
    ops.bit_primitives(ck, "C13.R1")
    ops.bit_methods(ck, "C13.R2")
    ops.resign_helper(ck, "C13.R3")
    ops.operator_siblings(ck, "C08.R4", only=())
    fresh.returned_objects_fresh(ck, "C20.R1")
    conv.order_consistency(ck, "C13.R4")
    conv.store_map(ck, "C17.R1")                       # patterns are stored raw: raw stores bypass the scale/bias map
    routes.who_writes_codes(ck, "C02.R1")
    fresh.no_hidden_state(ck, "C20.R8")                  # results depend on the documented state only (no caches / memos)
    fresh.constructor_state(ck, "C20.R2")
