"""C09 - division family: quotient within one LSB, exact floor-division and modulo."""
from . import funcs, ops

from . import routes, fresh, flags, sizes, conv, dtype, carriers, funcs, ops, strings, pipeline, widths

EXPLANATION = (
    "R1 binary-scale typing of _truediv_raw, _floordiv_raw, _mod_raw and the complex kernels: each returns Code<n_frac> for a free n_frac; "
    "R2 quotients are integer floor divisions of codes (no true division inside a raw kernel), remainders are % on equally scaled codes; "
    "R3 the optimal sizes satisfy the room requirements derived in DESIGN C09 (n_int >= x.n_int + y.n_frac + [both signed]; floordiv n_frac >= 0; "
    "mod signed >= divisor's sign, n_int >= y.n_int or min(...) when both unsigned, n_frac >= max) - decided by the ordering procedure of the term "
    "engine with a counter-example grid for reports; R4 for / and % the alignment exponents are >= 0 under optimal sizing; the four operator methods "
    "reach truediv/floordiv/mod with the right operand order. Residual: raw==repr numeric identity; binary64 exactness of // on aligned doubles."
    ' Added after the third round of seeded changes: current n_int after resize (C02.R3), the 64-bit machine carrier the pre-scaling runs in (C18.R5), transparent numpy dispatch for np.divide/floor_divide/mod (C15.R5), template sizes (C08.R3b), route selection (C07.R8), constructor state (C20.R2).'
    ' Added after the fourth round of seeded changes: R9 kernels out of place (C07.R9); read-back conversions (C16.R2); C20.R8 objects carry only the documented attributes and no function writes module-level containers (no caches / memos that go stale).'
    ' Added after the fifth round of seeded changes: C20.R8 also forbids mutable default arguments and private attributes hung on operands (x._cache, x.__dict__[...]).'
    ' Added after the sixth round of seeded changes: shift counts are typed as terms (np.array(k, dtype=...) wrappers are transparent) and operand right shifts are floorshift events (C09.R2).')
ASSUMPTIONS = ["operands are well-formed (n_int = n_word - n_frac - [signed], n_word >= 1)", "Python/NumPy // floors and % takes the divisor's sign (lemma)"]
TRUSTED = ["CPython ast", "fxlint ordering procedure (sound, incomplete)", "scale typing rules of DESIGN A6"]


def run(ck):
    res = funcs.kernel_typing(ck, "C09.R1", only=("truediv", "floordiv", "mod"))
    funcs.division_operators(ck, "C09.R2", res)
    funcs.single_quantization(ck, "C09.R2", res)
    funcs.repr_operator_table(ck, "C09.R2")
    funcs.division_room(ck, "C09.R3")
    nf = {k: v[2] for k, v in funcs.GROWTH.items()}
    funcs.alignment_exponents_nonneg(ck, "C09.R4", res, ("truediv", "mod"), nf)
    funcs.sizing_record(ck, "C07.R2")
    funcs.results_through_funnel(ck, "C07.R4")
    ops.operator_siblings(ck, "C08.R4", only=("__truediv__", "__rtruediv__", "__floordiv__", "__rfloordiv__", "__mod__", "__rmod__"))
    sizes.resize_rules(ck, {"nint": "C02.R3"})
    sizes.init_size_relation(ck, "C06.R1")             # results are built from (signed, n_int, n_frac): the word follows from them with the signedness in force        # optimal sizes of the division family read x.n_int
    routes.numpy_dispatch_transparent(ck, "C15.R5")  # np.floor_divide / np.mod / np.divide hand their operands over unconverted
    carriers.machine_carrier(ck, "C18.R5")            # kernels pre-scale x.val * 2^k in the operand's carrier: it must be the 64-bit one
    funcs.template_sizes(ck, "C08.R3")
    fresh.constructor_state(ck, "C20.R2")            # results and operands are built by the constructor: own status record, own final configuration
    funcs.route_selection(ck, "C07.R8")
    funcs.kernels_pure(ck, "C07.R9")
    ops.conversions(ck, "C16.R2")
    fresh.no_hidden_state(ck, "C20.R8")                  # results depend on the documented state only (no caches / memos)
