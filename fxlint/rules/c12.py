"""C12 - dtype strings and formats determine each other in every notation."""
from . import dtype, sizes

from . import routes, fresh, flags, sizes, conv, dtype, carriers, funcs, ops, strings, pipeline, widths

EXPLANATION = (
    "R1 language inclusion by automata: each writer template of the dtype refresher (fields typed from their expressions: sign letters, positive n_word, any-integer n_frac incl. "
    "negative, non-negative m for Q, optional '-complex') is compiled to an NFA, the reader patterns are parsed with CPython's own regex parser, and casefold(L(writer)) is shown "
    "to be included in L(reader) by subset construction; no fxp string is captured by the Q pattern that the parser tries first; R2 reader o writer is the identity per field "
    "(group/field agreement, Q: n_word' = n + m with m = n_word - n_frac as terms, signedness letters evaluated on the writer's alphabet); R3 both entry points (__init__, resize) "
    "unpack the parser's tuple in order and apply the complex flag, the constructor after the like/template copy; R4 get_dtype refreshes with its argument on every path and the "
    "refresher's notation parameter reaches the selector (config default otherwise); resize refreshes the dtype after the last size write (C02.R5). Nothing of substance is residual; "
    "utils.get_sizes_from_dtype (fxp_sum's reader) is outside the statement."
    ' Added after the third round of seeded changes: no function writes class-level state such as Fxp.template (C20.R7).'
    " Added after the fourth round of seeded changes: the plain (no '-complex') template is chosen only after self.vdtype was found not complex; the Q reader's n_word is exactly n_frac + int(group 2) as terms; C20.R8 objects carry only the documented attributes and no function writes module-level containers (no caches / memos that go stale)."
    ' Added after the fifth round of seeded changes: a string matched by a reader pattern is never rejected by a later check; constructor state (C20.R2): the notation default of an object is its own; C20.R8 also forbids mutable default arguments and private attributes hung on operands (x._cache, x.__dict__[...]).'
    " Added after the sixth round of seeded changes: the parser is followed through a pure delegation (return helper(fmt)), each returning path is classified by the pattern whose groups it reads, in-literal tests that accept both cases count as case-insensitive; R3 a restoring set_val(..., vdtype=<earlier value>) after vdtype = complex is reported (the '-complex' suffix would be lost on resize(dtype=...)).")
ASSUMPTIONS = ["str.format renders an int field as its decimal numeral ('-' prefix when negative) (lemma)", "re.match anchors at the start only"]
TRUSTED = ["CPython ast", "CPython re._parser", "fxlint.regexlang subset construction (< 100 states)"]


def run(ck):
    dtype.language_rules(ck, "C12.R1", "C12.R2")
    dtype.case_insensitive_groups(ck, "C12.R1")
    dtype.entry_points(ck, "C12.R3")
    dtype.refresh_after_store(ck, "C12.R5")
    dtype.notation_parameter(ck, "C12.R4")
    sizes.resize_rules(ck, {"refresh": "C02.R5"})
    fresh.no_class_state_writes(ck, "C20.R7")
    fresh.no_hidden_state(ck, "C20.R8")                  # results depend on the documented state only (no caches / memos)
    fresh.constructor_state(ck, "C20.R2")
