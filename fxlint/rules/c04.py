"""C04 - status flags and callbacks report exactly what happened, and are sticky."""
from . import flags
from .. import anchors as A

from . import routes, fresh, flags, sizes, conv, dtype, carriers, funcs, ops, strings, pipeline, widths

EXPLANATION = (
    "Static decision of the flag protocol from the source of objects.py/functions.py/callbacks.py: "
    "R1 each overflow/underflow store in the overflow handler is control-dependent on exactly its own strict "
    "any-reduction range test on the handler's value parameter and both tests lie on every path; "
    "R2 the inaccuracy store in set_val is control-dependent on exactly the comparison input == stored/factor "
    "(operands identified by per-path provenance), on every normal path; R3 sticky writes and flag ownership over "
    "all status write sites; R4 reset() clears the three flags in place and keeps the constructor's key set; "
    "R5 callback names/registry agreement, co-guarding, exactly one value-change notification per normal path; "
    "R6 both function wrappers and the normaliser propagate every operand's inaccuracy flag. "
    "Residual (not decided): that the handler's value argument at run time is the rounded value for every NumPy dtype "
    "(trusted lemma on np.any / comparison semantics); complex writes call the handler twice (outside the quantifier)."
    ' Added after the third round of seeded changes: on the resize route the exact re-scaled codes are handed to set_val without a cast of its own (C10.R1), and the numpy post-processor passes the result object itself on (C15.R5), so flags are neither hidden nor dropped on those routes.'
    " Added after the fourth round of seeded changes: no route stores codes without set_val's notifications (C02.R1); the int value type is promoted on every path that applies the scale/bias map, so mapped values are not truncated unflagged (C17.R8); C20.R8 objects carry only the documented attributes and no function writes module-level containers (no caches / memos that go stale)."
    ' Added after the fifth round of seeded changes: R7 no library function calls reset() and Config.update has no early exit; the re-scaling routes hand exact codes to set_val (C10.R1/R2); C20.R8 also forbids mutable default arguments and private attributes hung on operands (x._cache, x.__dict__[...]).'
    ' Added after the sixth round of seeded changes: the range tests may live in a helper of their own (also with *parts): the function that stores the flags is found by role (flag_writer), its tests may be any(np.any(p > max) for p in parts), and every value array handed to it must be a rounding result (C04.R1).')
ASSUMPTIONS = [
    "np.any(a > b) is true iff some element of a exceeds b (NumPy semantics, lemma table)",
    "callbacks are invoked only through the runner method (checked: every call site passes a literal hook name)",
    "paths are enumerated with loops taken 0 and 1 times; exception paths enter handlers with the try body skipped",
]
TRUSTED = ["CPython ast", "fxlint.paths structural path enumeration", "lemma: np.any/np.equal/.all() elementwise semantics"]


def run(ck):
    h, roles = flags.handler_roles(ck, "C04.R1")
    flags.inaccuracy_guard(ck, "C04.R2")
    flags.sticky_and_ownership(ck, "C04.R3")
    flags.reset_rule(ck, "C04.R4")
    flags.callbacks_in_handler(ck, "C04.R5", h, roles)
    flags.callback_names(ck, "C04.R5")
    flags.propagation(ck, "C04.R6")
    fresh.constructor_state(ck, "C20.R2")              # derived objects start with a fresh, unshared status record
    conv.getitem_keeps_map(ck, "C17.R6")               # indexing builds its element with the constructor (own status record)
    fresh.returned_objects_fresh(ck, "C20.R1")
    # handler is fed the rounded value with the format's bounds: decided in pipeline rules (C01.R2/C02.R2),
    # imported here so that C04 stands alone
    pipeline.handler_call_sites(ck, "C04.R1", roles)
    sizes.resize_rules(ck, {"restore_raw": "C10.R1"}) # resize hands the exact re-scaled codes to set_val (inaccuracy is seen)
    routes.numpy_dispatch_transparent(ck, "C15.R5")  # results of the numpy route keep the flags of the result object
    routes.who_writes_codes(ck, "C02.R1")               # "every write": no route stores codes without the notifications of set_val
    conv.scaled_value_type(ck, "C17.R8")
    fresh.no_hidden_state(ck, "C20.R8")                  # results depend on the documented state only (no caches / memos)
    conv.rescaling_siblings(ck, "C10.R1", "C10.R2")     # re-scaling routes hand exact codes to set_val, where inaccuracy is decided
    fresh.reset_only_by_user(ck, "C04.R7")
