"""C16 - comparisons and numeric conversions agree with the exact stored value."""
from . import ops, pipeline

from . import routes, fresh, flags, sizes, conv, dtype, carriers, funcs, ops, strings, pipeline, widths

EXPLANATION = (
    "R1 comparator table: each of __lt__ __le__ __eq__ __ne__ __gt__ __ge__ returns, on both its Fxp and plain-number path, a single comparison with the operator of its "
    "own name between self.get_val() and the other operand's value (x.get_val() for an Fxp) - never raw codes, never through a helper that re-aligns codes; "
    "R2 conversions: astype(float)/get_val return code / 2^n_frac, astype(int) returns code // 2^n_frac (floor) and the code itself only on paths where the guards fix "
    "n_frac == 0; int()/float()/bool() delegate; raw() returns the stored code; uraw() normalises to ite(code < 0, 2^n_word + code, code); the conversion factor is "
    "2^n_frac on all branches (C01.R3). Residual: float equality of values beyond 2^53 (outside the quantifier)."
    ' Added after the third round of seeded changes: the value type get_val() casts to is never a narrow NumPy dtype (C01.R6).'
    ' Added after the fourth round of seeded changes: C20.R8 objects carry only the documented attributes and no function writes module-level containers (no caches / memos that go stale) (a memoised get_val() goes stale when codes change through a view).'
    " Added after the fifth round of seeded changes: the compared values are not re-typed before the comparison (no astype to the other operand's dtype); constructor state (C20.R2); C20.R8 also forbids mutable default arguments and private attributes hung on operands (x._cache, x.__dict__[...])."
    ' Added after the sixth round of seeded changes: item() reads its element through astype / get_val on every path (C16.R2).')
ASSUMPTIONS = ["Python // floors; / on int64 and a power of two is exact below 2^53"]
TRUSTED = ["CPython ast", "fxlint term normaliser"]


def run(ck):
    ops.comparator_table(ck, "C16.R1")
    ops.conversions(ck, "C16.R2")
    ops.value_type_fixup(ck, "C16.R3")
    pipeline.factor_rule(ck, "C01.R3")
    routes.carrier_types(ck, "C01.R6")               # get_val() casts to the value type: it must not be a narrow NumPy dtype
    fresh.no_hidden_state(ck, "C20.R8")                  # results depend on the documented state only (no caches / memos)
    fresh.constructor_state(ck, "C20.R2")
