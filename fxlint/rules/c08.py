"""C08 - arithmetic into an imposed format equals the exact result quantized into it."""
from . import funcs, ops, pipeline, flags

from . import routes, fresh, flags, sizes, conv, dtype, carriers, funcs, ops, strings, pipeline, widths

EXPLANATION = (
    "R1 the add/sub/mul kernels are typed Code<n_frac> with n_frac a free symbol, so the raw result has the sink's binary point for every imposed format "
    "(same/largest/smallest, out, out_like, constants); R2 single quantization: nothing between the exact kernel result and the sink rounds, casts to int, "
    "adjusts or re-casts it, and the wrapper stores it once (raw=True with the same n_frac) through the constructor or out.set_val, where C01's pipeline applies "
    "the governing configuration; R3 governing configuration: first operand's config without out/out_like, none with out_like (template's), out.set_val with out; "
    "R4 sibling table of the 11 operator methods (constant branch -> converter + const_op_sizing, Fxp branch -> op_sizing, own function, operand order for reflected "
    "methods, forwarded out/out_like/method; reflected aliases only for commutative operators); R5 constant conversion table ('same' -> Fxp(x, like=self), "
    "'best' -> Fxp(x), else raise; keys = Config's list); R6 unary -, +, abs rebuild raw codes in the operand's own format; fresh status on like=/template "
    "construction so stale flags are not inherited. Residual: raw and repr methods producing bit-identical doubles."
    ' Added after the third round of seeded changes: R3b with out_like= the constructor receives no operand-derived signedness or size; both range tests on every store (C04.R1); route selection (C07.R8); transparent numpy dispatch (C15.R5).'
    ' Added after the fourth round of seeded changes: C20.R8 objects carry only the documented attributes and no function writes module-level containers (no caches / memos that go stale) (a memo of converted constants keyed by value alone ignores the modes it was converted under).'
    ' Added after the fifth round of seeded changes: C20.R8 also forbids mutable default arguments and private attributes hung on operands (x._cache, x.__dict__[...]).'
    " Added after the sixth round of seeded changes: C08.R2 records right shifts / floor divisions of operand codes by a power of two inside a kernel (floorshift): aligning to a coarser binary point by flooring each operand bypasses the sink's rounding.")
ASSUMPTIONS = ["the sink (constructor/set_val) quantizes as decided under C01 with the configuration it is given"]
TRUSTED = ["CPython ast", "scale typing rules of DESIGN A6"]


def run(ck):
    res = funcs.kernel_typing(ck, "C08.R1", only=("add", "sub", "mul"))
    funcs.single_quantization(ck, "C08.R2", res)
    funcs.results_through_funnel(ck, "C08.R2")
    funcs.governing_config(ck, "C08.R3")
    ops.operator_siblings(ck, "C08.R4")
    ops.const_conversion(ck, "C08.R5")
    ops.unary_ops(ck, "C08.R6")
    funcs.sizing_record(ck, "C07.R2")
    fresh.constructor_state(ck, "C20.R2")
    pipeline.store_pipeline(ck, "C01.R2", want_bounds=False)
    h_, _r = flags.handler_roles(ck, "C04.R1")        # "flags set accordingly": both range tests on every store
    funcs.template_sizes(ck, "C08.R3")
    routes.numpy_dispatch_transparent(ck, "C15.R5")
    sizes.resize_rules(ck, {"nint": "C02.R3"})
    sizes.init_size_relation(ck, "C06.R1")             # results are built from (signed, n_int, n_frac): the word follows from them with the signedness in force
    funcs.route_selection(ck, "C07.R8")
    fresh.no_hidden_state(ck, "C20.R8")                  # results depend on the documented state only (no caches / memos)
