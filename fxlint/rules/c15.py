"""C15 - NumPy reductions and linear algebra on fixed-point arrays are exact."""
from . import funcs

from . import routes, fresh, flags, sizes, conv, dtype, carriers, funcs, ops, strings, pipeline, widths

EXPLANATION = (
    "R1 routes converge: each of sum/cumsum/prod/cumprod/dot/trace/max/min/clip/transpose/diagonal as a method returns the functions entry that "
    "@implements(np.<name>) registers, forwarding axis/out/out_like/sizing/method; R2 scale typing of the reduction kernels incl. prod (N*t), cumprod "
    "(position count * t) and dot (t1+t2): each returns Code<n_frac>; no rounding/int cast inside; R3 optimal sizes leave room for all-extreme inputs: "
    "sum/cumsum/trace n_int >= x.n_int + clog2(N) with N an over-estimate of the addend count, products n_int >= N*x.n_int + [signed and N>=2], n_frac >= "
    "N*x.n_frac, dot n_int >= x.n_int + y.n_int + clog2(K) + [both signed]; results are stored once through the funnel. Residual: functions not in the registry "
    "(matmul) run on floats through the fallback; NumPy's own reductions are trusted to be exact on int64/object below their capacity (C19)."
    " Added after the third round of seeded changes: R5 __array_ufunc__/__array_function__ hand the caller's arguments and keyword record to the registered function unchanged and the post-processor passes the result object itself on; R6 __array__ exports values unless array_op_method == 'raw'; template sizes (C08.R3b); route selection (C07.R8)."
    " Added after the fourth round of seeded changes: R7 every wrapper-based function returns the wrapper's result on all non-raising paths (no early stand-in result); C20.R8 objects carry only the documented attributes and no function writes module-level containers (no caches / memos that go stale)."
    ' Added after the fifth round of seeded changes: R8 what a public function puts into the keyword record (offset, axes, axis ...) is consumed by its raw kernel - this rule found the genuine defect G11 (transpose ignored axes on the raw route), repaired by fix: 63e2726; C20.R8 also forbids mutable default arguments and private attributes hung on operands (x._cache, x.__dict__[...]).')
ASSUMPTIONS = ["x.size >= the number of elements reduced along any axis; diagonal(...).size is the trace length; x.shape[-1] is dot's contraction length",
               "cumprod: x.n_frac >= 0 and x.n_int >= 0 as in the property's quantifier"]
TRUSTED = ["CPython ast", "fxlint ordering procedure (sound, incomplete)", "scale typing rules of DESIGN A6"]


def run(ck):
    funcs.routes_converge(ck, "C15.R1")
    funcs.arg_forwarding(ck, "C15.R1")
    res = funcs.kernel_typing(ck, "C15.R2")
    funcs.single_quantization(ck, "C15.R2", res, only=("sum", "cumsum", "prod", "cumprod", "dot", "trace", "fxp_max", "fxp_min", "sort", "clip", "transpose", "diagonal"))
    funcs.reduction_room(ck, "C15.R3")
    routes.dispatch_results_unconstrained(ck, "C15.R4")
    routes.numpy_dispatch_transparent(ck, "C15.R5")
    funcs.sizing_record(ck, "C07.R2")
    funcs.results_through_funnel(ck, "C07.R4")
    funcs.template_sizes(ck, "C08.R3")
    fresh.constructor_state(ck, "C20.R2")            # results and operands are built by the constructor: own status record, own final configuration
    conv.array_protocol_values(ck, "C15.R6")
    funcs.route_selection(ck, "C07.R8")
    fresh.no_hidden_state(ck, "C20.R8")                  # results depend on the documented state only (no caches / memos)
    funcs.functions_return_results(ck, "C15.R7")
    funcs.kernels_forward_keywords(ck, "C15.R8")
