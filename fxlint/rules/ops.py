"""Operator-method sibling tables (C08.R4/R5/R6, C13, C16)."""
import ast

from ..model import dotted, src, calls_in, kw, AnalysisError
from ..common import fpaths, peel, actual, const_str, same_expr, isinstance_state, str_state, truth_on_path
from .. import anchors as A

ARITH = {"__add__": ("add", False), "__sub__": ("sub", False), "__rsub__": ("sub", True), "__mul__": ("mul", False),
         "__truediv__": ("truediv", False), "__rtruediv__": ("truediv", True), "__floordiv__": ("floordiv", False),
         "__rfloordiv__": ("floordiv", True), "__mod__": ("mod", False), "__rmod__": ("mod", True), "dot": ("dot", False)}
COMMUTATIVE_ALIASES = {"__radd__": "__add__", "__rmul__": "__mul__", "__rand__": "__and__", "__ror__": "__or__", "__rxor__": "__xor__"}
INPLACE_ALIASES = {"__iadd__": "__add__", "__isub__": "__sub__", "__imul__": "__mul__", "__itruediv__": "__truediv__", "__ifloordiv__": "__floordiv__",
                   "__imod__": "__mod__", "__ipow__": "__pow__", "__irshift__": "__rshift__", "__ilshift__": "__lshift__", "__iand__": "__and__",
                   "__ior__": "__or__", "__ixor__": "__xor__"}


def operator_siblings(ck, rule, only=None):
    """each arithmetic operator method: converts a non-Fxp operand with the constant converter and takes const_op_sizing on that
    branch / op_sizing otherwise; calls the function of its own name with (self, x) or (x, self) for reflected methods; forwards
    op_out, op_out_like, op_method."""
    prog = ck.prog
    cc = A.const_conv(prog)
    for name, (fn, reflected) in ARITH.items():
        if only is not None and name not in only:
            continue
        m = prog.func("objects.Fxp." + name, required=False)
        if m is None:
            ck.bad(rule, "objects.Fxp", "operator method %s exists" % name, "method %s missing" % name)
            continue
        op = [p for p in m.params if p != "self"][0]
        pfs = fpaths(prog, m)
        ck.saw(m, paths=len(pfs))
        n_ok = 0
        for pf in pfs:
            if pf.end != "return" or pf.ret is None:
                if pf.end == "end":
                    ck.bad(rule, m, "%s returns the result of its function" % name, "path without return", m.node)
                continue
            r = pf.ret
            target = prog.resolve_call(m, pf.ret_stmt.value) if isinstance(pf.ret_stmt.value, ast.Call) else None
            if target != "functions." + fn:
                ck.bad(rule, m, "%s computes with functions.%s" % (name, fn), "%s returns %s" % (name, src(pf.ret_stmt.value)[:70]), pf.ret_stmt,
                       "the operator is wired to another operation")
                continue
            st_fx = isinstance_state(pf.guards, op)
            if st_fx is None:
                ck.bad(rule, m, "%s distinguishes a fixed-point operand from a constant" % name, "path without isinstance(%s, Fxp) test" % op, m.node)
                continue
            const_branch = (st_fx is False)
            a0, a1 = (r.args + [None, None])[:2]
            want_self, want_x = (1, 0) if reflected else (0, 1)
            args = [a0, a1]
            okself = dotted(args[want_self]) == "self"
            xarg = args[want_x]
            if const_branch:
                okx = isinstance(xarg, ast.Call) and prog.resolve_call(m, xarg) == cc.qualname and xarg.args and dotted(xarg.args[0]) == op
            else:
                okx = dotted(xarg) == op
            if not (okself and okx):
                ck.bad(rule, m, "%s passes its operands as %s" % (name, "(x, self)" if reflected else "(self, x)"),
                       "%s calls %s(%s, %s)" % (name, fn, src(a0)[:40] if a0 is not None else None, src(a1)[:40] if a1 is not None else None), pf.ret_stmt,
                       "operands exchanged or the constant is not converted: a - b computed as b - a / constant mis-sized")
                continue
            sz = kw(r, "sizing")
            want_sz = "self.config.const_op_sizing" if const_branch else "self.config.op_sizing"
            if name == "dot":
                # sizing = kwargs.pop('sizing', _sizing)
                good = isinstance(sz, ast.Call) and len(sz.args) == 2 and dotted(sz.args[1]) == want_sz
            else:
                good = dotted(sz) == want_sz
            if not good:
                ck.bad(rule, m, "%s takes %s when the other operand is %s" % (name, "const_op_sizing" if const_branch else "op_sizing", "a constant" if const_branch else "an Fxp"),
                       "sizing=%s on the %s branch" % (src(sz)[:60] if sz is not None else None, "constant" if const_branch else "Fxp"), pf.ret_stmt,
                       "the result of an operation with a constant/an Fxp is sized by the wrong policy")
                continue
            fw = {"out": "self.config.op_out", "out_like": "self.config.op_out_like", "method": "self.config.op_method"}
            badfw = []
            for k_, want in fw.items():
                v = kw(r, k_)
                if name == "dot":
                    okv = isinstance(v, ast.Call) and len(v.args) == 2 and dotted(v.args[1]) == want
                else:
                    okv = dotted(v) == want
                if not okv:
                    badfw.append("%s=%s" % (k_, src(v)[:40] if v is not None else None))
            if badfw:
                ck.bad(rule, m, "%s forwards op_out / op_out_like / op_method from its configuration" % name, "%s passes %s" % (name, ", ".join(badfw)), pf.ret_stmt)
                continue
            n_ok += 1
        if n_ok >= 2:
            ck.ok(rule, m, "%s -> functions.%s%s, constant and Fxp branches sized by const_op_sizing / op_sizing" % (name, fn, " (reflected)" if reflected else ""))
    # aliases: reflected names may alias the forward method only for commutative operators
    al = prog.aliases_of("Fxp")
    for a, t in sorted(al.items()):
        if a.startswith("__r") and a not in ("__repr__", "__rshift__", "__rpow__") and a.endswith("__"):
            okal = COMMUTATIVE_ALIASES.get(a) == t
            ck.check(okal, rule, "objects.Fxp", "reflected operator %s may alias the forward method only when the operator is commutative" % a,
                     "%s = %s" % (a, t), None, "x - y and y - x (etc.) would give the same result")
        elif a in INPLACE_ALIASES:
            ck.check(INPLACE_ALIASES[a] == t, rule, "objects.Fxp", "in-place operator %s is the forward operator" % a, "%s = %s" % (a, t))
    if "__rpow__" in al:
        ck.note("__rpow__ = __pow__ aliases a non-commutative operator (outside C08's operators + - *)")


def const_conversion(ck, rule):
    """C08.R5: 'same' -> Fxp(x, like=self); 'best' (and unset) -> Fxp(x); anything else raises; keys == Config's allowed list."""
    prog = ck.prog
    from .pipeline import config_list
    cc = A.const_conv(prog)
    xp = [p for p in cc.params if p != "self"][0]
    allowed = config_list(prog, "_op_input_size_list")
    pfs = fpaths(prog, cc)
    ck.saw(cc, paths=len(pfs))
    handled = {}
    for pf in pfs:
        if pf.end == "raise":
            continue
        cur = pf.env.get("op_input_size")
        curname = dotted(cur) if cur is not None and dotted(cur) else "op_input_size"
        eq, ne = str_state(pf.guards, curname)      # substituted tests: the value in force after `op_input_size = self.config.op_input_size`
        keys = sorted(eq, key=lambda v: str(v)) if eq else []
        st_fx = isinstance_state(pf.guards, xp)
        if st_fx is True:
            ck.check(pf.ret is not None and dotted(pf.ret) == xp, rule, cc, "an Fxp operand is passed through unchanged", "returns %s" % (src(pf.ret) if pf.ret is not None else None), pf.ret_stmt, nontrivial=False)
            continue
        key = keys[0] if keys else None
        if not keys or pf.ret is None:
            continue
        r = peel(pf.ret)[0]
        isctor = isinstance(r, ast.Call) and prog.is_fxp_ctor(cc, r)
        if not isctor:
            ck.bad(rule, cc, "constants are converted by constructing an Fxp", "%r -> %s" % (key, src(pf.ret)[:60]), pf.ret_stmt)
            continue
        pos_ok = len(r.args) == 1 and dotted(r.args[0]) == xp
        kws = {k.arg: k.value for k in r.keywords}
        if "same" in keys:
            good = pos_ok and set(kws) == {"like"} and dotted(kws["like"]) == "self" and keys == ["same"]
            ck.check(good, rule, cc, "op_input_size='same': the constant is converted into the operand's own format, Fxp(x, like=self)", "%s -> %s" % (keys, src(r)[:70]), pf.ret_stmt,
                     "the constant is quantized into another format than the documented one")
        else:
            good = pos_ok and not kws
            ck.check(good, rule, cc, "op_input_size=%s: the constant gets its best (inferred) format, Fxp(x)" % keys, "%s -> %s" % (keys, src(r)[:70]), pf.ret_stmt,
                     "extra arguments constrain the inferred format (e.g. forcing the operand's signedness saturates negative constants)")
        for k_ in keys:
            handled[k_ if k_ is not None else "<unset>"] = True
    for k_ in allowed:
        ck.check(k_ in handled, rule, cc, "configured op_input_size %r has a branch in the converter" % k_, "%r not handled" % k_)
    ck.check(any(pf.end == "raise" for pf in pfs), rule, cc, "an unknown op_input_size raises", "no raising branch")


def unary_ops(ck, rule):
    """C08.R6: -x, +x, abs(x) build Fxp(op(self.val), signed=self.signed, n_word=self.n_word, n_frac=self.n_frac, raw=True)."""
    prog = ck.prog
    table = {"__neg__": "USub", "__pos__": "UAdd", "__abs__": "abs"}
    for name, opk in table.items():
        m = prog.func("objects.Fxp." + name)
        for pf in fpaths(prog, m):
            if pf.end != "return" or pf.ret is None:
                ck.bad(rule, m, "%s returns a new object" % name, "path without return value", m.node)
                continue
            r = peel(pf.ret)[0]
            if not (isinstance(r, ast.Call) and prog.is_fxp_ctor(m, r) and r.args):
                ck.bad(rule, m, "%s rebuilds its result through the constructor" % name, "returns %s" % src(pf.ret)[:70], pf.ret_stmt)
                continue
            a = r.args[0]
            if opk == "abs":
                okop = isinstance(a, ast.Call) and dotted(a.func) in ("abs", "np.abs") and len(a.args) == 1 and dotted(a.args[0]) == "self.val"
            else:
                okop = isinstance(a, ast.UnaryOp) and type(a.op).__name__ == opk and dotted(a.operand) == "self.val"
            kws = {k.arg: k.value for k in r.keywords}
            okfmt = dotted(kws.get("signed")) == "self.signed" and dotted(kws.get("n_word")) == "self.n_word" and dotted(kws.get("n_frac")) == "self.n_frac" \
                and isinstance(kws.get("raw"), ast.Constant) and kws["raw"].value is True and "n_int" not in kws
            ck.check(okop, rule, m, "%s applies its operator to the operand's codes" % name, "argument %s" % src(a)[:50], pf.ret_stmt)
            ck.check(okfmt, rule, m, "%s keeps the operand's format and stores the codes raw" % name,
                     "keywords %s" % {k: src(v) for k, v in kws.items()}, pf.ret_stmt, "the result would be re-scaled or re-sized")


# ------------------------------------------------------------------------------------------------ C13 bitwise

from ..common import mkterm, mkbool, guard_cases, guard_assignment
from ..terms import Term, exp2, NotATerm, witness, tmax, fapp, ite

BITOPS = {"binary_and": ast.BitAnd, "binary_or": ast.BitOr, "binary_xor": ast.BitXor}


def _reduced(e, pname, nparam):
    """e is `int(p) % (1 << n)` / `p % 2**n` / `p & ((1<<n)-1)` for parameter p"""
    e = peel(e)[0]
    if isinstance(e, ast.BinOp) and isinstance(e.op, (ast.Mod, ast.BitAnd)):
        base = peel(e.left)[0]
        if isinstance(base, ast.Call) and dotted(base.func) == "int" and base.args:
            base = peel(base.args[0])[0]
        if dotted(base) != pname:
            return False
        try:
            m = mkterm(e.right, rename=lambda d: d)
        except NotATerm:
            return False
        M = m if isinstance(e.op, ast.Mod) else m + 1
        return M == exp2(Term.var(nparam))
    return False


def bit_primitives(ck, rule):
    """C13.R1: utils.binary_and/or/xor apply & | ^ to both operands reduced mod 2^n_word on every path; binary_invert = 2^n - 1 - x."""
    prog = ck.prog
    for name, opc in BITOPS.items():
        f = prog.func("utils." + name)
        xp, yp = f.params[0], f.params[1]
        okn = 0
        for pf in fpaths(prog, f):
            if pf.end == "raise":
                continue
            if pf.ret is None:
                ck.bad(rule, f, "%s returns the combined pattern" % name, "path without return value", f.node)
                continue
            e = peel(pf.ret)[0]
            if isinstance(e, ast.Call) and dotted(e.func) == "int" and e.args:
                e = peel(e.args[0])[0]
            if not (isinstance(e, ast.BinOp) and isinstance(e.op, (ast.BitAnd, ast.BitOr, ast.BitXor))):
                ck.bad(rule, f, "%s combines the two n_word-bit patterns on every path" % name, "returns %s under %s" % (src(pf.ret)[:60], [(src(g[2])[:40], g[1]) for g in pf.guards if g[2] is not None]), pf.ret_stmt,
                       "a path that returns an operand without reducing/combining it leaks a negative or oversized value")
                continue
            if not isinstance(e.op, opc):
                ck.bad(rule, f, "%s applies the operator of its name" % name, "%s uses %s" % (name, type(e.op).__name__), pf.ret_stmt, "the wrong bitwise operator")
                continue
            rx = _reduced(e.left, xp, "n_word") or _reduced(e.right, xp, "n_word")
            ry = _reduced(e.left, yp, "n_word") or _reduced(e.right, yp, "n_word")
            if not (rx and ry):
                ck.bad(rule, f, "%s reduces both operands modulo 2^n_word before combining them" % name, "operands %s, %s" % (src(e.left)[:40], src(e.right)[:40]), pf.ret_stmt,
                       "a negative (signed) operand is not converted to its two's-complement pattern")
                continue
            okn += 1
        if okn:
            ck.ok(rule, f, "%s = (x mod 2^n) %s (y mod 2^n) on %d path(s)" % (name, {"binary_and": "&", "binary_or": "|", "binary_xor": "^"}[name], okn))
        ck.saw(f)
    f = prog.func("utils.binary_invert")
    for pf in fpaths(prog, f):
        if pf.end != "return" or pf.ret is None:
            continue
        e = peel(pf.ret)[0]
        if isinstance(e, ast.Call) and dotted(e.func) == "int" and e.args:
            e = e.args[0]
        isnone = [g for g in pf.guards if g[2] is not None and src(g[2]) == "n_word is None"]
        if isnone and isnone[-1][1]:
            continue
        try:
            t = mkterm(e, rename=lambda d: d)
        except NotATerm as ex:
            ck.unsure(rule, f, "binary_invert is a term", pf.ret_stmt, str(ex))
            continue
        o = exp2(Term.var("n_word")) - 1 - Term.var(f.params[0])
        ck.check(t == o, rule, f, "binary_invert(x) = 2^n_word - 1 - x (all n_word bits flipped)", "returns %s" % t.show(), pf.ret_stmt, {"witness": witness(t, o)})


def resign_helper(ck, rule):
    """C13.R3: twos_complement_repr maps a pattern in [0, 2^n) to the signed code: v >= 2^(n-1) -> v - 2^n (boundary included)."""
    prog = ck.prog
    f = prog.func("utils.twos_complement_repr")
    vp, nb = f.params[0], f.params[1]
    M, H = exp2(Term.var(nb)), exp2(Term.var(nb) - 1)
    v = Term.var(vp)
    seen_adjust = False
    for pf in fpaths(prog, f):
        if pf.end != "return" or pf.ret is None:
            continue
        neg = [g for g in pf.guards if g[2] is not None and isinstance(g[2], ast.Compare) and dotted(g[2].left) == vp and isinstance(g[2].ops[0], ast.Lt)
               and isinstance(g[2].comparators[0], ast.Constant) and g[2].comparators[0].value == 0]
        if neg and neg[0][1]:
            continue     # negative inputs: outside the patterns the operators feed it
        # remaining guards: the sign test
        tests = [g for g in pf.guards if g not in neg]
        r = peel(pf.ret)[0]
        # value after reduction is val % M ; classify return as reduced or reduced - M
        def strip(e):
            e = peel(e)[0]
            if isinstance(e, ast.BinOp) and isinstance(e.op, ast.Sub):
                try:
                    if mkterm(e.right, rename=lambda d: d) == M:
                        return strip(e.left)[0], True
                except NotATerm:
                    pass
            return e, False
        base, adjusted = strip(r)
        def unint(e):
            e = peel(e)[0]
            while isinstance(e, ast.Call) and dotted(e.func) == "int" and e.args:
                e = peel(e.args[0])[0]
            return e
        okbase = isinstance(base, ast.BinOp) and isinstance(base.op, (ast.Mod, ast.BitAnd)) and dotted(unint(base.left)) == vp
        if not okbase:
            ck.bad(rule, f, "the pattern is first reduced modulo 2^nbits", "returns %s" % src(r)[:60], pf.ret_stmt)
            continue
        if not tests:
            ck.bad(rule, f, "the sign bit decides whether 2^nbits is subtracted", "unconditional result", pf.ret_stmt)
            continue
        g = tests[-1]
        kind = _sign_test(g[2], vp, nb)
        if kind is None or kind.startswith("wrongconst"):
            k2 = _sign_test(g[0], vp, nb)        # the substituted test: named sub-expressions (modulus, sign_bit, residue) are seen through
            if k2 is not None:
                kind = k2
        if kind is None:
            ck.unsure(rule, f, "sign test is the bit test (v & 2^(n-1)) != 0 or the comparison v >= 2^(n-1)", g[3], src(g[2])[:80])
            continue
        if kind == "strict":
            ck.bad(rule, f, "the boundary pattern 100..0 (= 2^(nbits-1)) is re-signed to the minimum code", "sign test %s" % src(g[2])[:70], g[3],
                   "with a strict comparison the pattern 100..0 stays +2^(n-1), which is out of range (then saturated to the maximum)")
            continue
        if kind.startswith("wrongconst"):
            ck.bad(rule, f, "the sign test examines bit n-1", "sign test %s" % src(g[2])[:70], g[3])
            continue
        took_sign = g[1] if kind == "set" else (not g[1])
        if took_sign != adjusted:
            ck.bad(rule, f, "2^nbits is subtracted exactly when the sign bit is set", "%s on the %s branch" % ("subtracts" if adjusted else "keeps", "sign-set" if took_sign else "sign-clear"), pf.ret_stmt)
            continue
        seen_adjust = seen_adjust or adjusted
    ck.check(seen_adjust, rule, f, "twos_complement_repr: v mod 2^n, minus 2^n when bit n-1 is set (boundary included)", "no re-signing path recognised", f.node)
    ck.saw(f)


def _sign_test(t, vp, nb):
    """'set' when test true means sign bit set; 'clear' when true means clear; 'strict' for v > H; None unknown"""
    H = exp2(Term.var(nb) - 1)
    if isinstance(t, ast.Compare) and len(t.ops) == 1:
        l, op, r = t.left, t.ops[0], t.comparators[0]
        # (int(v) & H) != 0
        lp = peel(l)[0]
        if isinstance(lp, ast.BinOp) and isinstance(lp.op, ast.BitAnd) and isinstance(r, ast.Constant) and r.value == 0:
            try:
                m = mkterm(lp.right, rename=lambda d: d)
            except NotATerm:
                return None
            if m != H:
                return "wrongconst"
            if isinstance(op, ast.NotEq):
                return "set"
            if isinstance(op, ast.Eq):
                return "clear"
        try:
            rt = mkterm(r, rename=lambda d: d)
        except NotATerm:
            return None
        base = peel(l)[0]
        if rt == H:
            if isinstance(op, ast.GtE):
                return "set"
            if isinstance(op, ast.Lt):
                return "clear"
            if isinstance(op, (ast.Gt, ast.LtE)):
                return "strict"
        elif isinstance(op, (ast.GtE, ast.Lt, ast.Gt, ast.LtE)):
            return "wrongconst"
    return None


def bit_methods(ck, rule):
    """C13.R2: __and__/__or__/__xor__/__invert__: word-length inequality raises; own primitive with n_word=self.n_word; re-sign iff signed;
    result = deep copy of self with the pattern stored raw."""
    prog = ck.prog
    table = {"__and__": "binary_and", "__or__": "binary_or", "__xor__": "binary_xor", "__invert__": "binary_invert"}
    tc = prog.func("utils.twos_complement_repr")
    for name, prim in table.items():
        m = prog.func("objects.Fxp." + name)
        pfs = fpaths(prog, m)
        ck.saw(m, paths=len(pfs))
        xp = [p for p in m.params if p != "self"]
        xp = xp[0] if xp else None
        n_ok = 0
        raised = False
        for pf in pfs:
            # what the path's guards imply (substituted tests, conjunctions decomposed, unit propagation): named sub-conditions and
            # merged / split tests give the same literals
            from ..common import path_literals, isinstance_state
            fxp_branch = bool(xp and isinstance_state(pf.guards, xp))
            same_wl = None
            for t, pol in path_literals(pf.guards):
                if isinstance(t, ast.Compare) and len(t.ops) == 1 and isinstance(t.ops[0], (ast.Eq, ast.NotEq)) \
                        and {dotted(t.left), dotted(t.comparators[0])} == {"self.n_word", "%s.n_word" % xp}:
                    same_wl = pol if isinstance(t.ops[0], ast.Eq) else (not pol)
            if pf.end == "raise":
                if same_wl is False:
                    raised = True
                continue
            if fxp_branch:
                # the check must be decided on every Fxp path (no path around it)
                if same_wl is not True:
                    ck.bad(rule, m, "operands of different word lengths are rejected before anything is combined", "Fxp operand path without the n_word equality check: guards %s" % [(src(g[0])[:40], g[1]) for g in pf.guards], m.node,
                           "two words of different length are silently combined")
                    continue
            if pf.ret is None:
                ck.bad(rule, m, "%s returns the result object" % name, "path without return", m.node)
                continue
            # returned object: deep copy of self, value stored raw
            sv = [ce for ce in pf.calls if isinstance(ce.raw.func, ast.Attribute) and ce.raw.func.attr == "set_val"]
            if len(sv) != 1:
                ck.bad(rule, m, "%s stores its result once through set_val" % name, "%d set_val calls" % len(sv), m.node)
                continue
            recv = peel(sv[0].call.func.value)[0]
            okrecv = isinstance(recv, ast.Call) and ((isinstance(recv.func, ast.Attribute) and recv.func.attr == "deepcopy" and dotted(recv.func.value) == "self") or (dotted(recv.func) == "copy.deepcopy" and dotted(recv.args[0]) == "self"))
            if not okrecv:
                ck.bad(rule, m, "the result is a deep copy of x (x's format, nothing shared)", "result object %s" % src(recv)[:50], sv[0].stmt, "the result shares state with the operand or has another format")
                continue
            raw = kw(sv[0].call, "raw", 1)
            if not (isinstance(raw, ast.Constant) and raw.value is True):
                ck.bad(rule, m, "the bit pattern is stored as a raw code", "raw=%s" % (src(raw) if raw is not None else None), sv[0].stmt)
                continue
            val = sv[0].call.args[0] if sv[0].call.args else kw(sv[0].call, "val")
            sg = [g for g in pf.guards if g[2] is not None and dotted(g[2]) == "self.signed"]
            signed = bool(sg and sg[-1][1])
            inner = peel(val)[0]
            if signed:
                okrs = isinstance(inner, ast.Call) and prog.resolve_call(m, inner) == tc.qualname and dotted(kw(inner, "nbits", 1)) == "self.n_word"
                if not okrs:
                    ck.bad(rule, m, "a signed result is re-signed with twos_complement_repr(nbits=self.n_word)", "signed path stores %s" % src(val)[:70], sv[0].stmt,
                           "patterns with the top bit set stay positive and saturate")
                    continue
                inner = peel(inner.args[0])[0]
            elif isinstance(inner, ast.Call) and prog.resolve_call(m, inner) == tc.qualname:
                ck.bad(rule, m, "an unsigned result is not re-signed", "unsigned path re-signs", sv[0].stmt)
                continue
            okprim = isinstance(inner, ast.Call) and prog.resolve_call(m, inner) == "utils." + prim and dotted(kw(inner, "n_word")) == "self.n_word"
            if not okprim:
                ck.bad(rule, m, "%s computes with utils.%s(n_word=self.n_word)" % (name, prim), "computes %s" % src(inner)[:70], sv[0].stmt, "wrong primitive or word length")
                continue
            a0 = peel(inner.args[0])[0] if inner.args else None
            if dotted(a0) != "self.val":
                ck.bad(rule, m, "the first operand of the primitive is x's code", "first operand %s" % (src(a0)[:40] if a0 is not None else None), sv[0].stmt)
                continue
            if xp and fxp_branch and len(inner.args) >= 2:
                # second operand: the other word's codes, at most re-typed to an integer carrier (never to a value type such as float)
                a1 = inner.args[1]
                base, casts = a1, []
                while isinstance(base, ast.Call) and isinstance(base.func, ast.Attribute) and base.func.attr == "astype" and base.args:
                    casts.append(base.args[0])
                    base = base.func.value
                okb = dotted(base) == "%s.val" % xp
                okc = all((dotted(cst) or "").endswith(".val.dtype") or dotted(cst) in ("object", "int", "np.int64", "np.uint64", "np.object_") for cst in casts)
                if not (okb and okc):
                    ck.bad(rule, m, "the second operand of the primitive is the other word's code, re-typed at most to an integer carrier",
                           "second operand %s" % src(a1)[:60], sv[0].stmt, "a cast of the codes to the value type (float) rounds patterns above 2^53")
                    continue
            n_ok += 1
        if xp:
            ck.check(raised, rule, m, "%s raises when the word lengths differ" % name, "no raising path guarded by the n_word comparison", m.node,
                     "operands of different word lengths are silently combined")
        if n_ok:
            ck.ok(rule, m, "%s: utils.%s on n_word bits, re-signed iff signed, stored raw into a deep copy (%d paths)" % (name, prim, n_ok))


# ------------------------------------------------------------------------------------------------ C14 shifts

from ..scaletype import Typer, Mismatch, Unknown


def shift_rules(ck, rule_type, rule_growth, rule_pure):
    prog = ck.prog
    for name, sign in (("__rshift__", -1), ("__lshift__", +1)):
        m = prog.func("objects.Fxp." + name)
        npar = [p for p in m.params if p != "self"][0]
        pfs = fpaths(prog, m)
        ck.saw(m, paths=len(pfs))
        n = Term.var(npar)
        okp = 0
        for pf in pfs:
            if pf.end == "raise":
                continue
            if pf.ret is None:
                ck.bad(rule_type, m, "%s returns the shifted object" % name, "path without return value", m.node)
                continue
            mode = [g for g in pf.guards if g[2] is not None and isinstance(g[2], ast.Compare) and dotted(g[2].left) in ("self.config.shifting", "self.shifting")]
            rawg = [(g[2] if g[2] is not None else g[0], g[1]) for g in pf.guards]
            eq_m, ne_m = str_state(rawg, "self.config.shifting")
            eq2, ne2 = str_state(rawg, "self.shifting")
            eq_m = eq_m if eq_m is not None else eq2
            ne_m = ne_m | ne2
            is_expand = True if eq_m == {"expand"} else (False if ("expand" in ne_m or (eq_m is not None and "expand" not in eq_m)) else None)
            # ---- operand untouched
            for st in pf.stores:
                if st.path.startswith("self.") or (st.path == "self"):
                    ck.bad(rule_pure, m, "shifting never modifies its operand", "%s writes %s" % (name, st.path), st.stmt, "x is changed by x %s n" % (">>" if sign < 0 else "<<"))
            # ---- find the sink: either Y.set_val(E, raw=True) or Y.val = E with Y a fresh object
            sink = None
            svs = [ce for ce in pf.calls if isinstance(ce.raw.func, ast.Attribute) and ce.raw.func.attr == "set_val"]
            vst = [st for st in pf.stores if st.path.endswith(".val") and not st.path.startswith("self")]
            if svs:
                ce = svs[-1]
                recv = peel(ce.call.func.value)[0]
                val = ce.call.args[0] if ce.call.args else kw(ce.call, "val")
                raw = kw(ce.call, "raw", 1)
                if not (isinstance(raw, ast.Constant) and raw.value is True):
                    ck.bad(rule_type, m, "the shifted codes are stored raw", "raw=%s" % (src(raw) if raw is not None else None), ce.stmt)
                    continue
                sink = (recv, val, ce.stmt)
            elif vst:
                st = vst[-1]
                base = pf.env.get(st.path.rsplit(".", 1)[0])
                sink = (peel(base)[0] if base is not None else None, st.value, st.stmt)
            if sink is None:
                ck.bad(rule_type, m, "%s stores the shifted codes into a new object" % name, "no store of shifted codes on this path", m.node)
                continue
            recv, val, node = sink
            # the value must be the operand's codes shifted in the operator's own direction
            v = peel(val)[0]
            want_op = ast.RShift if sign < 0 else ast.LShift
            if not (isinstance(v, ast.BinOp) and isinstance(v.op, (ast.RShift, ast.LShift))):
                ck.bad(rule_type, m, "the result's codes are the operand's codes shifted by n", "stores %s" % src(val)[:70], node,
                       "not an arithmetic shift of the codes (e.g. a zero fast path loses the sign fill of negative values)")
                continue
            base = peel(v.left)[0]
            # base: self.val or (deep copy of self).val
            okbase = dotted(base) == "self.val" or (isinstance(base, ast.Attribute) and base.attr == "val" and isinstance(peel(base.value)[0], ast.Call)
                                                   and isinstance(peel(base.value)[0].func, ast.Attribute) and peel(base.value)[0].func.attr == "deepcopy")
            if not okbase:
                ck.bad(rule_type, m, "the shifted codes are the operand's own", "shifts %s" % src(v.left)[:50], node)
                continue
            if not isinstance(v.op, want_op):
                ck.bad(rule_type, m, "%s shifts in its own direction" % name, "uses %s" % type(v.op).__name__, node, "x >> n computed as x << n or vice versa")
                continue
            try:
                k = mkterm(peel(v.right)[0], rename=lambda d: d)
            except NotATerm as e:
                ck.unsure(rule_type, m, "shift count is a term", node, str(e))
                continue
            # receiver format
            F_nfrac = F_nword = None
            fresh_copy = False
            if isinstance(recv, ast.Call) and prog.is_fxp_ctor(m, recv):
                # constructor arguments by keyword or by position: Fxp(val, signed, n_word, n_frac, n_int, ...)
                F_nfrac, F_nword = kw(recv, "n_frac", 3), kw(recv, "n_word", 2)
                okfmt = dotted(kw(recv, "signed", 1)) == "self.signed"
                if not okfmt:
                    ck.bad(rule_growth, m, "the result keeps the operand's signedness", "signed=%s" % (src(kw(recv, "signed", 1)) if kw(recv, "signed", 1) is not None else None), node)
                    continue
            elif isinstance(recv, ast.Call) and isinstance(recv.func, ast.Attribute) and recv.func.attr == "deepcopy" and dotted(recv.func.value) == "self":
                fresh_copy = True
            else:
                ck.bad(rule_pure, m, "the result is a new object (constructor or deep copy of the operand)", "result object %s" % (src(recv)[:50] if recv is not None else None), node,
                       "the operand itself (or a shallow copy sharing its state) is modified/returned")
                continue
            nf = mkterm(F_nfrac, rename=lambda d: d) if F_nfrac is not None else Term.var("self.n_frac")
            nw = mkterm(F_nword, rename=lambda d: d) if F_nword is not None else Term.var("self.n_word")
            sf, sw = Term.var("self.n_frac"), Term.var("self.n_word")
            # scale: code c >> k represents the same real at scale t - k ; stored at nf. value exponent = (t -+ k) - nf must be -+n
            t = sf + (k if sign > 0 else -k)
            expo = t - nf
            ck.saw(terms=1)
            if expo != n * sign:
                ck.bad(rule_type, m, "x %s n equals x * 2^(%sn): the stored code has the result's binary point" % (">>" if sign < 0 else "<<", "-" if sign < 0 else ""),
                       "codes shifted by %s and stored with n_frac = %s: value scaled by 2^(%s)" % (k.show(), nf.show(), expo.show()), node,
                       {"witness": witness(expo, n * sign), "meaning": "the result is wrong by a power of two"})
                continue
            # ---- growth and mode dispatch
            expanding = not fresh_copy and (nw != sw or nf != sf)
            is_expand_guard = [g for g in mode if const_str(g[2].comparators[0]) == "expand"]
            if expanding:
                okm = is_expand is True
                if not okm:
                    ck.bad(rule_growth, m, "the format grows only in 'expand' mode", "format grows under %s" % [(src(g[2]), g[1]) for g in mode], node,
                           "in trunc/keep mode the format must stay unchanged (one of the three modes takes the wrong branch)")
                    continue
                if sign < 0:
                    e1, e2 = nw - sw, nf - sf
                    if e1 != e2:
                        ck.bad(rule_growth, m, "expand >> grows word and fraction by the same amount", "word grows by %s, fraction by %s" % (e1.show(), e2.show()), node)
                        continue
                    if k != n - e2:
                        ck.bad(rule_growth, m, "expand >> shifts the codes by n minus the fraction growth", "shifts by %s with growth %s" % (k.show(), e2.show()), node)
                        continue
                else:
                    o = tmax(sw, fapp("amax", fapp("bitlen", Term.var("self.val"))) + Term.bvar("self.signed") + n)
                    nwb = mkterm(F_nword, rename=lambda d: d, bool_names=("self.signed",))
                    if nwb != o:
                        ck.bad(rule_growth, m, "expand << sizes the word as max(n_word, bit length of the largest |code| + sign bit + n)", "n_word = %s" % nwb.show()[:120], node,
                               "the word is too short for some code (e.g. -1 needs one bit plus the sign): the shifted value is clamped")
                        continue
            else:
                if not mode:
                    okm = True
                elif is_expand is None:
                    okm = False
                elif is_expand is False:
                    okm = True
                else:
                    # under == 'expand' nothing grows on this path: fine for >> when the expansion amount is 0; << always sizes the word
                    okm = True if sign < 0 else (F_nword is not None and dotted(F_nword) != "self.n_word")
                if not okm:
                    ck.bad(rule_growth, m, "trunc/keep modes are selected as 'not expand'", "format kept under %s" % [(src(g[2]), g[1]) for g in mode], node,
                           "a mode other than 'expand' is routed to the expanding branch or vice versa")
                    continue
            okp += 1
        if okp:
            ck.ok(rule_type, m, "%s: codes shifted by n with the result's binary point on %d paths; growth only under shifting == 'expand'" % (name, okp))


# ------------------------------------------------------------------------------------------------ C16 comparisons / conversions

CMP = {"__lt__": ast.Lt, "__le__": ast.LtE, "__eq__": ast.Eq, "__ne__": ast.NotEq, "__gt__": ast.Gt, "__ge__": ast.GtE}


def comparator_table(ck, rule):
    prog = ck.prog
    for name, opc in CMP.items():
        m = prog.func("objects.Fxp." + name, required=False)
        if m is None:
            ck.bad(rule, "objects.Fxp", "comparison method %s is defined" % name, "%s missing (Python would fall back to identity/NotImplemented)" % name)
            continue
        xp = [p for p in m.params if p != "self"][0]
        pfs = fpaths(prog, m)
        ck.saw(m, paths=len(pfs))
        okn = 0
        for pf in pfs:
            if pf.end != "return" or pf.ret is None:
                if pf.end != "raise":
                    ck.bad(rule, m, "%s returns the truth value" % name, "path without return value", m.node)
                continue
            r = pf.ret
            isf = [g for g in pf.guards if g[2] is not None and isinstance(g[2], ast.Call) and dotted(g[2].func) == "isinstance" and dotted(g[2].args[0]) == xp]
            fxp_branch = bool(isf and isf[-1][1])
            if not (isinstance(r, ast.Compare) and len(r.ops) == 1):
                ck.bad(rule, m, "%s compares the two stored values" % name, "returns %s" % src(r)[:70], pf.ret_stmt,
                       "the result is not the relation between the exact values (e.g. codes aligned with a flooring shift)")
                continue
            l, op, rr = r.left, r.ops[0], r.comparators[0]

            def is_val(e, who):
                e, casts_ = peel(e)
                if any(c_[0] == "astype" for c_ in casts_):
                    return False         # a value re-typed before the comparison (e.g. to the other operand's integer dtype) is not the value any more
                return isinstance(e, ast.Call) and isinstance(e.func, ast.Attribute) and e.func.attr in ("get_val", "astype", "__call__") and dotted(e.func.value) == who and not e.args and not e.keywords
            left_ok = is_val(l, "self")
            right_ok = is_val(rr, xp) if fxp_branch else dotted(rr) == xp
            if not left_ok or not right_ok:
                # swapped sides with flipped operator are fine
                sw = {ast.Lt: ast.Gt, ast.Gt: ast.Lt, ast.LtE: ast.GtE, ast.GtE: ast.LtE, ast.Eq: ast.Eq, ast.NotEq: ast.NotEq}
                l2ok = is_val(rr, "self") and (is_val(l, xp) if fxp_branch else dotted(l) == xp)
                if l2ok:
                    op = sw[type(op)]()
                else:
                    ck.bad(rule, m, "%s compares self's value with the other operand's value (never raw codes of different scale)" % name,
                           "compares %s with %s" % (src(l)[:40], src(rr)[:40]), pf.ret_stmt, "codes of different n_frac are not comparable; a plain number must be compared with the value")
                    continue
            if not isinstance(op, opc):
                ck.bad(rule, m, "%s applies the relation of its own name" % name, "%s uses %s" % (name, type(op).__name__), pf.ret_stmt, "the wrong relation is returned")
                continue
            okn += 1
        if okn >= 2:
            ck.ok(rule, m, "%s: value %s value on both the Fxp and the plain-number path" % (name, {ast.Lt: "<", ast.LtE: "<=", ast.Eq: "==", ast.NotEq: "!=", ast.Gt: ">", ast.GtE: ">="}[opc]))
        elif okn == 1:
            ck.bad(rule, m, "%s handles both an Fxp and a plain-number operand" % name, "only one comparison path recognised", m.node)


def conversions(ck, rule):
    """C16.R2: float = code / 2^n_frac; int = floor (//) or the code itself exactly when n_frac == 0; uraw; raw; __int__/__float__/__bool__."""
    prog = ck.prog
    f = prog.func("objects.Fxp.astype")
    fac = A.factor(prog)
    pfs = fpaths(prog, f)
    ck.saw(f, paths=len(pfs))
    seen_float = seen_int_div = seen_int_raw = 0
    for pf in pfs:
        if pf.end != "return" or pf.ret is None:
            continue
        scaled = [g for g in pf.guards if g[2] is not None and any(dotted(x) == "self.scaled" for x in ast.walk(g[2]))]
        if scaled and scaled[-1][1]:
            continue
        r = peel(pf.ret)[0]
        if isinstance(r, ast.Constant) and r.value is None:
            continue
        # which dtype branch
        gtxt = [(src(g[2]), g[1]) for g in pf.guards if g[2] is not None]
        is_int_branch = any(("dtype == int" in t or "np.integer" in t) and p for t, p in gtxt)
        is_float_branch = any(("dtype == float" in t or "np.floating" in t) and p for t, p in gtxt) or any(t == "dtype is None" and p for t, p in gtxt[1:2])
        is_cplx = any(("dtype == complex" in t) and p for t, p in gtxt)

        def rawsel(e):
            e = peel(e)[0]
            if dotted(e) == "self.val":
                return True
            if isinstance(e, ast.Subscript) and dotted(e.value) == "self.val":
                return True
            if isinstance(e, ast.Call) and isinstance(e.func, ast.Attribute) and e.func.attr == "item" and dotted(e.func.value) == "self.val":
                return True
            return False
        if is_int_branch:
            if rawsel(r):
                # raw shortcut: only when the factor is provably 1
                cases = guard_cases(pf.guards, rename=lambda d: d)
                ok1 = all(c.get(("v", "self.n_frac")) == Term.const(0) for c in cases)
                ck.check(ok1, rule, f, "astype(int) returns the code itself only when n_frac == 0 (factor 1)", "raw code returned under %s" % [t for t in gtxt if "n_frac" in t[0]], pf.ret_stmt,
                         "for other fraction lengths the integer value is floor(code * 2^-n_frac), not the code")
                seen_int_raw += ok1
            elif isinstance(r, ast.BinOp) and isinstance(r.op, ast.FloorDiv) and rawsel(r.left) and isinstance(r.right, ast.Call) and prog.resolve_call(f, r.right) == fac.qualname and not r.right.args:
                seen_int_div += 1
            else:
                ck.bad(rule, f, "astype(int) returns floor(code / 2^n_frac)", "int branch returns %s" % src(r)[:70], pf.ret_stmt, "true division + int() truncates toward zero instead of flooring")
        elif is_cplx:
            continue
        else:
            if isinstance(r, ast.BinOp) and isinstance(r.op, ast.Div) and rawsel(r.left) and isinstance(r.right, ast.Call) and prog.resolve_call(f, r.right) == fac.qualname and not r.right.args:
                seen_float += 1
            else:
                ck.bad(rule, f, "astype(float)/get_val return code / 2^n_frac", "returns %s under %s" % (src(r)[:60], gtxt[-3:]), pf.ret_stmt)
    ck.check(seen_float >= 1 and seen_int_div >= 1 and seen_int_raw >= 1, rule, f,
             "astype: float = code/2^n_frac (%d paths), int = code // 2^n_frac (%d paths), code itself iff n_frac == 0 (%d paths)" % (seen_float, seen_int_div, seen_int_raw),
             "float/int conversion branches not all recognised (%d/%d/%d)" % (seen_float, seen_int_div, seen_int_raw), f.node)
    # get_val delegates
    g = prog.func("objects.Fxp.get_val")
    okd = any(isinstance(n, ast.Return) and isinstance(n.value, ast.Call) and prog.resolve_call(g, n.value) == f.qualname for n in ast.walk(g.node))
    ck.check(okd, rule, g, "get_val delegates to astype", "get_val does not return self.astype(...)", g.node)
    # raw / uraw
    rw = prog.func("objects.Fxp.raw")
    okr = all(isinstance(n.value, ast.Attribute) and dotted(n.value) == "self.val" for n in ast.walk(rw.node) if isinstance(n, ast.Return))
    ck.check(okr, rule, rw, "raw() returns the stored signed code", "raw() returns something else", rw.node)
    u = prog.func("objects.Fxp.uraw")
    for pf_ in fpaths(prog, u):
        if pf_.end == "return" and pf_.ret is not None:
            n = pf_.ret_stmt
            e = peel(pf_.ret)[0]
            M = exp2(Term.var("self.n_word"))
            good = False
            why = "not the two's-complement image ite(val < 0, 2^n_word + val, val)"
            if isinstance(e, ast.Call) and dotted(e.func) == "np.where" and len(e.args) == 3:
                c, a, b = e.args
                if isinstance(c, ast.Compare) and len(c.ops) == 1 and dotted(c.left) == "self.val" and isinstance(c.comparators[0], ast.Constant) and c.comparators[0].value == 0:
                    try:
                        ta, tb = mkterm(a, rename=lambda d: d), mkterm(b, rename=lambda d: d)
                        v = Term.var("self.val")
                        if isinstance(c.ops[0], ast.Lt):
                            good = ta == M + v and tb == v
                        elif isinstance(c.ops[0], ast.GtE):
                            good = ta == v and tb == M + v
                        else:
                            why = "comparison with 0 must be strict (<) / >="
                        if not good and (ta - v - M != Term() and tb - v - M != Term()):
                            why = "negative codes must be mapped to 2^n_word + code"
                    except NotATerm:
                        pass
            elif isinstance(e, ast.BinOp) and isinstance(e.op, (ast.Mod, ast.BitAnd)) and dotted(peel(e.left)[0]) == "self.val":
                try:
                    m_ = mkterm(e.right, rename=lambda d: d)
                    good = (m_ == M) if isinstance(e.op, ast.Mod) else (m_ + 1 == M)
                except NotATerm:
                    pass
            elif isinstance(e, ast.Call) and "twos_complement_repr" in (dotted(e.func) or ""):
                why = "twos_complement_repr maps patterns to signed codes (the inverse direction): unsigned codes >= 2^(n-1) become negative"
            ck.check(good, rule, u, "uraw() is the n_word-bit two's-complement image: negative codes -> 2^n_word + code, others unchanged", "uraw returns %s" % src(pf_.ret)[:80], n, why)
    for name, conv, arg in (("__int__", "int", "int"), ("__float__", "float", "float")):
        m = prog.func("objects.Fxp." + name)
        okc = False
        for n in ast.walk(m.node):
            if isinstance(n, ast.Return) and isinstance(n.value, ast.Call) and dotted(n.value.func) == conv and n.value.args:
                a = n.value.args[0]
                okc = isinstance(a, ast.Call) and prog.resolve_call(m, a) == f.qualname and a.args and dotted(a.args[0]) == arg
        if not okc:
            # path-based: a shared helper (self._as_python_scalar(int)) is inlined, the returned expression is what it denotes
            rets = [pf_ for pf_ in fpaths(prog, m) if pf_.end == "return" and pf_.ret is not None]
            okc = bool(rets) and all(isinstance(pf_.ret, ast.Call) and dotted(pf_.ret.func) == conv and pf_.ret.args and isinstance(pf_.ret.args[0], ast.Call)
                                     and prog.resolve_call(m, pf_.ret.args[0]) == f.qualname and pf_.ret.args[0].args and dotted(pf_.ret.args[0].args[0]) == arg for pf_ in rets)
        ck.check(okc, rule, m, "%s() is %s(self.astype(%s))" % (conv, conv, arg), "%s does not delegate to astype(%s)" % (name, arg), m.node)
    m = prog.func("objects.Fxp.__bool__")
    okb = any(isinstance(n, ast.Return) and isinstance(n.value, ast.Call) and dotted(n.value.func) == "bool" and n.value.args and isinstance(n.value.args[0], ast.Call)
              and isinstance(n.value.args[0].func, ast.Attribute) and n.value.args[0].func.attr in ("get_val", "astype", "raw") or
              isinstance(n, ast.Return) and isinstance(n.value, ast.Call) and dotted(n.value.func) == "bool" and n.value.args and dotted(n.value.args[0]) == "self.val" for n in ast.walk(m.node))
    ck.check(okb, rule, m, "bool() is true iff the value (code) is non-zero", "__bool__ does not test the value", m.node)
    it = prog.func("objects.Fxp.item", required=False)
    if it is not None:
        nret = 0
        for pf_ in fpaths(prog, it):
            if pf_.end != "return" or pf_.ret is None:
                continue
            nret += 1
            r = pf_.ret
            okr = isinstance(r, ast.Call) and prog.resolve_call(it, r) in (f.qualname, g.qualname)
            ck.check(okr, rule, it, "item() reads its element through astype / get_val (code * 2^-n_frac, then the scale / bias read map)", "item returns %s" % src(r)[:70], pf_.ret_stmt,
                     "a conversion of its own leaves out the read map of scaled objects (and the value-type rules of astype)")
        if nret == 0:
            raise AnalysisError("Fxp.item: no returning path")


def value_type_fixup(ck, rule):
    """C16.R3: after a non-raw store into a format with fraction bits the object's value type is float (get_val of an int-typed object floors):
    on every path of set_val that keeps an integer value type, the guards establish n_frac <= 0 or a raw store."""
    prog = ck.prog
    f = A.funnel(prog)
    from ..common import path_literals, order_facts
    from ..terms import nonneg, Facts
    n_ok = 0
    for pf in fpaths(prog, f):
        if pf.end == "raise":
            continue
        raw = truth_on_path(ast.Name(id="raw", ctx=ast.Load()), [(g[2] if g[2] is not None else g[0], g[1]) for g in pf.guards if g[2] is not None and "raw" in src(g[2]) and "format" not in src(g[2])])
        vst = [st for st in pf.stores if st.path == "self.vdtype"]
        if not vst:
            continue
        final = vst[-1].value
        if dotted(final) in ("float", "complex"):
            n_ok += 1
            continue
        if dotted(final) == "vdtype":
            continue      # raw store: the caller-supplied value type is kept as is (raw codes, no value semantics involved)
        # the value type stays whatever the normaliser reported (may be an integer type): then n_frac must be known <= 0
        lits = path_literals(pf.guards)
        int_known = None
        for t, pol in lits:
            if isinstance(t, ast.Call) and dotted(t.func) == "np.issubdtype" and len(t.args) == 2 and dotted(t.args[1]) in ("np.integer", "int"):
                int_known = pol if int_known is None else int_known
        if int_known is False:
            n_ok += 1
            continue      # not an integer type on this path
        nf = Term.var("self.n_frac")
        ge = order_facts(pf.guards, rename=lambda d: d)
        okle = nonneg(-nf, Facts(ge=ge))
        if not okle:
            # the conjunction `integer type and n_frac > 0` was false: case split
            okle = any(isinstance(t, ast.BoolOp) and isinstance(t.op, ast.And) and not pol and
                       any(isinstance(v, ast.Compare) and dotted(v.left) == "self.n_frac" and isinstance(v.ops[0], ast.Gt) and isinstance(v.comparators[0], ast.Constant) and v.comparators[0].value == 0 for v in t.values) or
                       any(isinstance(v, ast.Compare) and dotted(v.left) == "self.n_frac" and isinstance(v.ops[0], ast.GtE) and isinstance(v.comparators[0], ast.Constant) and v.comparators[0].value == 1 for v in (t.values if isinstance(t, ast.BoolOp) else []))
                       for t, pol in lits)
        if not okle:
            ck.bad(rule, f, "an integer value type is kept only for formats without fraction bits (otherwise reads would floor the value)",
                   "value type left as %s although n_frac may be positive: guards %s" % (src(final)[:40], [(src(t)[:50], p_) for t, p_ in lits if "n_frac" in src(t)]), vst[-1].stmt,
                   "get_val()/comparisons of an int-typed object with n_frac = 1.. return floor(value)")
            return
        n_ok += 1
    ck.check(n_ok > 0, rule, f, "value-type fix-up: integer value types survive a value store only when n_frac <= 0 (%d paths)" % n_ok, "no value-type store found in set_val", f.node)
