"""Operator-method sibling tables (C08.R4/R5/R6, C13, C16)."""
import ast

from ..model import dotted, src, calls_in, kw, AnalysisError
from ..common import fpaths, peel, actual, const_str, same_expr
from .. import anchors as A

ARITH = {"__add__": ("add", False), "__sub__": ("sub", False), "__rsub__": ("sub", True), "__mul__": ("mul", False),
         "__truediv__": ("truediv", False), "__rtruediv__": ("truediv", True), "__floordiv__": ("floordiv", False),
         "__rfloordiv__": ("floordiv", True), "__mod__": ("mod", False), "__rmod__": ("mod", True), "dot": ("dot", False)}
COMMUTATIVE_ALIASES = {"__radd__": "__add__", "__rmul__": "__mul__", "__rand__": "__and__", "__ror__": "__or__", "__rxor__": "__xor__"}
INPLACE_ALIASES = {"__iadd__": "__add__", "__isub__": "__sub__", "__imul__": "__mul__", "__itruediv__": "__truediv__", "__ifloordiv__": "__floordiv__",
                   "__imod__": "__mod__", "__ipow__": "__pow__", "__irshift__": "__rshift__", "__ilshift__": "__lshift__", "__iand__": "__and__",
                   "__ior__": "__or__", "__ixor__": "__xor__"}


def operator_siblings(ck, rule, only=None):
    """each arithmetic operator method: converts a non-Fxp operand with the constant converter and takes const_op_sizing on that
    branch / op_sizing otherwise; calls the function of its own name with (self, x) or (x, self) for reflected methods; forwards
    op_out, op_out_like, op_method."""
    prog = ck.prog
    cc = A.const_conv(prog)
    for name, (fn, reflected) in ARITH.items():
        if only is not None and name not in only:
            continue
        m = prog.func("objects.Fxp." + name, required=False)
        if m is None:
            ck.bad(rule, "objects.Fxp", "operator method %s exists" % name, "method %s missing" % name)
            continue
        op = [p for p in m.params if p != "self"][0]
        pfs = fpaths(prog, m)
        ck.saw(m, paths=len(pfs))
        n_ok = 0
        for pf in pfs:
            if pf.end != "return" or pf.ret is None:
                if pf.end == "end":
                    ck.bad(rule, m, "%s returns the result of its function" % name, "path without return", m.node)
                continue
            r = pf.ret
            target = prog.resolve_call(m, pf.ret_stmt.value) if isinstance(pf.ret_stmt.value, ast.Call) else None
            if target != "functions." + fn:
                ck.bad(rule, m, "%s computes with functions.%s" % (name, fn), "%s returns %s" % (name, src(pf.ret_stmt.value)[:70]), pf.ret_stmt,
                       "the operator is wired to another operation")
                continue
            isfxp = [g for g in pf.guards if g[2] is not None and isinstance(g[2], ast.UnaryOp) and isinstance(g[2].operand, ast.Call)
                     and dotted(g[2].operand.func) == "isinstance" and dotted(g[2].operand.args[0]) == op]
            const_branch = bool(isfxp and isfxp[-1][1])
            a0, a1 = (r.args + [None, None])[:2]
            want_self, want_x = (1, 0) if reflected else (0, 1)
            args = [a0, a1]
            okself = dotted(args[want_self]) == "self"
            xarg = args[want_x]
            if const_branch:
                okx = isinstance(xarg, ast.Call) and prog.resolve_call(m, xarg) == cc.qualname and xarg.args and dotted(xarg.args[0]) == op
            else:
                okx = dotted(xarg) == op
            if not (okself and okx):
                ck.bad(rule, m, "%s passes its operands as %s" % (name, "(x, self)" if reflected else "(self, x)"),
                       "%s calls %s(%s, %s)" % (name, fn, src(a0)[:40] if a0 is not None else None, src(a1)[:40] if a1 is not None else None), pf.ret_stmt,
                       "operands exchanged or the constant is not converted: a - b computed as b - a / constant mis-sized")
                continue
            sz = kw(r, "sizing")
            want_sz = "self.config.const_op_sizing" if const_branch else "self.config.op_sizing"
            if name == "dot":
                # sizing = kwargs.pop('sizing', _sizing)
                good = isinstance(sz, ast.Call) and len(sz.args) == 2 and dotted(sz.args[1]) == want_sz
            else:
                good = dotted(sz) == want_sz
            if not good:
                ck.bad(rule, m, "%s takes %s when the other operand is %s" % (name, "const_op_sizing" if const_branch else "op_sizing", "a constant" if const_branch else "an Fxp"),
                       "sizing=%s on the %s branch" % (src(sz)[:60] if sz is not None else None, "constant" if const_branch else "Fxp"), pf.ret_stmt,
                       "the result of an operation with a constant/an Fxp is sized by the wrong policy")
                continue
            fw = {"out": "self.config.op_out", "out_like": "self.config.op_out_like", "method": "self.config.op_method"}
            badfw = []
            for k_, want in fw.items():
                v = kw(r, k_)
                if name == "dot":
                    okv = isinstance(v, ast.Call) and len(v.args) == 2 and dotted(v.args[1]) == want
                else:
                    okv = dotted(v) == want
                if not okv:
                    badfw.append("%s=%s" % (k_, src(v)[:40] if v is not None else None))
            if badfw:
                ck.bad(rule, m, "%s forwards op_out / op_out_like / op_method from its configuration" % name, "%s passes %s" % (name, ", ".join(badfw)), pf.ret_stmt)
                continue
            n_ok += 1
        if n_ok >= 2:
            ck.ok(rule, m, "%s -> functions.%s%s, constant and Fxp branches sized by const_op_sizing / op_sizing" % (name, fn, " (reflected)" if reflected else ""))
    # aliases: reflected names may alias the forward method only for commutative operators
    al = prog.aliases_of("Fxp")
    for a, t in sorted(al.items()):
        if a.startswith("__r") and a not in ("__repr__", "__rshift__", "__rpow__") and a.endswith("__"):
            okal = COMMUTATIVE_ALIASES.get(a) == t
            ck.check(okal, rule, "objects.Fxp", "reflected operator %s may alias the forward method only when the operator is commutative" % a,
                     "%s = %s" % (a, t), None, "x - y and y - x (etc.) would give the same result")
        elif a in INPLACE_ALIASES:
            ck.check(INPLACE_ALIASES[a] == t, rule, "objects.Fxp", "in-place operator %s is the forward operator" % a, "%s = %s" % (a, t))
    if "__rpow__" in al:
        ck.note("__rpow__ = __pow__ aliases a non-commutative operator (outside C08's operators + - *)")


def const_conversion(ck, rule):
    """C08.R5: 'same' -> Fxp(x, like=self); 'best' (and unset) -> Fxp(x); anything else raises; keys == Config's allowed list."""
    prog = ck.prog
    from .pipeline import config_list
    cc = A.const_conv(prog)
    xp = [p for p in cc.params if p != "self"][0]
    allowed = config_list(prog, "_op_input_size_list")
    pfs = fpaths(prog, cc)
    ck.saw(cc, paths=len(pfs))
    handled = {}
    for pf in pfs:
        if pf.end == "raise":
            continue
        key = None
        for g in pf.guards:
            t = g[2]
            if g[1] and isinstance(t, ast.Compare) and len(t.ops) == 1 and isinstance(t.ops[0], ast.Eq) and dotted(t.left) == "op_input_size" and const_str(t.comparators[0]) is not None:
                key = const_str(t.comparators[0])
            if g[1] and isinstance(t, ast.Compare) and isinstance(t.ops[0], ast.Is) and dotted(t.left) == "op_input_size":
                key = key or "<unset>"
        isfxp = [g for g in pf.guards if g[2] is not None and isinstance(g[2], ast.UnaryOp) and isinstance(g[2].operand, ast.Call) and dotted(g[2].operand.func) == "isinstance"]
        if isfxp and not isfxp[-1][1]:
            ck.check(pf.ret is not None and dotted(pf.ret) == xp, rule, cc, "an Fxp operand is passed through unchanged", "returns %s" % (src(pf.ret) if pf.ret is not None else None), pf.ret_stmt, nontrivial=False)
            continue
        if key is None or pf.ret is None:
            continue
        r = peel(pf.ret)[0]
        isctor = isinstance(r, ast.Call) and prog.is_fxp_ctor(cc, r)
        if not isctor:
            ck.bad(rule, cc, "constants are converted by constructing an Fxp", "%r -> %s" % (key, src(pf.ret)[:60]), pf.ret_stmt)
            continue
        pos_ok = len(r.args) == 1 and dotted(r.args[0]) == xp
        kws = {k.arg: k.value for k in r.keywords}
        if key == "same":
            good = pos_ok and set(kws) == {"like"} and dotted(kws["like"]) == "self"
            ck.check(good, rule, cc, "op_input_size='same': the constant is converted into the operand's own format, Fxp(x, like=self)", "'same' -> %s" % src(r)[:70], pf.ret_stmt,
                     "the constant is quantized into another format than the documented one")
        else:
            good = pos_ok and not kws
            ck.check(good, rule, cc, "op_input_size=%s: the constant gets its best (inferred) format, Fxp(x)" % key, "%s -> %s" % (key, src(r)[:70]), pf.ret_stmt,
                     "extra arguments constrain the inferred format (e.g. forcing the operand's signedness saturates negative constants)")
        handled[key] = True
    for k_ in allowed:
        ck.check(k_ in handled, rule, cc, "configured op_input_size %r has a branch in the converter" % k_, "%r not handled" % k_)
    ck.check(any(pf.end == "raise" for pf in pfs), rule, cc, "an unknown op_input_size raises", "no raising branch")


def unary_ops(ck, rule):
    """C08.R6: -x, +x, abs(x) build Fxp(op(self.val), signed=self.signed, n_word=self.n_word, n_frac=self.n_frac, raw=True)."""
    prog = ck.prog
    table = {"__neg__": "USub", "__pos__": "UAdd", "__abs__": "abs"}
    for name, opk in table.items():
        m = prog.func("objects.Fxp." + name)
        for pf in fpaths(prog, m):
            if pf.end != "return" or pf.ret is None:
                ck.bad(rule, m, "%s returns a new object" % name, "path without return value", m.node)
                continue
            r = peel(pf.ret)[0]
            if not (isinstance(r, ast.Call) and prog.is_fxp_ctor(m, r) and r.args):
                ck.bad(rule, m, "%s rebuilds its result through the constructor" % name, "returns %s" % src(pf.ret)[:70], pf.ret_stmt)
                continue
            a = r.args[0]
            if opk == "abs":
                okop = isinstance(a, ast.Call) and dotted(a.func) in ("abs", "np.abs") and len(a.args) == 1 and dotted(a.args[0]) == "self.val"
            else:
                okop = isinstance(a, ast.UnaryOp) and type(a.op).__name__ == opk and dotted(a.operand) == "self.val"
            kws = {k.arg: k.value for k in r.keywords}
            okfmt = dotted(kws.get("signed")) == "self.signed" and dotted(kws.get("n_word")) == "self.n_word" and dotted(kws.get("n_frac")) == "self.n_frac" \
                and isinstance(kws.get("raw"), ast.Constant) and kws["raw"].value is True and "n_int" not in kws
            ck.check(okop, rule, m, "%s applies its operator to the operand's codes" % name, "argument %s" % src(a)[:50], pf.ret_stmt)
            ck.check(okfmt, rule, m, "%s keeps the operand's format and stores the codes raw" % name,
                     "keywords %s" % {k: src(v) for k, v in kws.items()}, pf.ret_stmt, "the result would be re-scaled or re-sized")
