"""C07 - add, subtract, multiply with optimal sizing are exact and never overflow."""
from . import funcs, flags, ops

from . import routes, fresh, flags, sizes, conv, dtype, carriers, funcs, ops, strings, pipeline, widths

EXPLANATION = (
    "R1 the optimal-size terms packed by add/sub/mul normalise (value numbering, modulo operand well-formedness n_int = n_word - n_frac - [signed]) "
    "to the documented growth rules for every format pair: signed = [x.signed or y.signed], n_int = max(x.n_int, y.n_int)+1, n_frac = max(n_frac) / "
    "product n_word = sum, n_frac = sum; R2 _get_sizing('optimal') passes the tuple entries through by role and the wrappers hand each size to the "
    "constructor under its own keyword; R3 binary-scale typing: _add_raw/_sub_raw/_mul_raw return Code<n_frac>; R4 the kernel's n_frac and the sink's n_frac "
    "are the same definition, raw=True accompanies the kernel route, the result is stored once through the constructor/out.set_val; R5 under optimal "
    "sizing every alignment exponent is >= 0 (max(a,b)-a, product exponent 0), so the kernels only multiply integers; R6 flags other than inaccuracy are "
    "raised only by the overflow handler (no propagation of overflow/underflow into results). Operators reach these functions (C08.R4). "
    "Residual: carrier overflow at 64 bits is C19's subject."
    " Added after the third round of seeded changes: R8 the value (float) route of the wrappers is taken only for method='repr', a scaled operand or n_frac None; governing configuration (C08.R3), constructor state (C20.R2), current n_int after resize (C02.R3), the 64-bit machine carrier (C18.R5) and transparent numpy dispatch (C15.R5) are included."
    ' Added after the fourth round of seeded changes: R9 the arithmetic kernels combine operands out of place (no augmented assignment); read-back conversions used by the value route (C16.R2); C20.R8 objects carry only the documented attributes and no function writes module-level containers (no caches / memos that go stale).'
    ' Added after the fifth round of seeded changes: C20.R8 also forbids mutable default arguments and private attributes hung on operands (x._cache, x.__dict__[...]).'
    ' Added after the sixth round of seeded changes: a kernel that became a one-expression def is still found when the normaliser turned its reference into a lambda, and a function named in the rule whose kernel cannot be found is an analysis error, never a pass.')
ASSUMPTIONS = ["operands are well-formed Fxp objects (C02)", "n_frac of Fxp operands are integers"]
TRUSTED = ["CPython ast", "fxlint term normaliser", "scale typing rules of DESIGN A6"]


def run(ck):
    funcs.growth_rules(ck, "C07.R1")
    funcs.sizing_record(ck, "C07.R2")
    res = funcs.kernel_typing(ck, "C07.R3", only=("add", "sub", "mul"))
    funcs.single_quantization(ck, "C08.R2", res)
    funcs.results_through_funnel(ck, "C07.R4")
    nf = {k: v[2] for k, v in funcs.GROWTH.items()}
    funcs.alignment_exponents_nonneg(ck, "C07.R5", res, ("add", "sub", "mul"), nf)
    flags.sticky_and_ownership(ck, "C07.R6")
    sizes.init_size_relation(ck, "C06.R1")             # results are built from (signed, n_int, n_frac): the word follows from them
    sizes.no_size_rejection(ck, "C07.R7")
    ops.operator_siblings(ck, "C08.R4", only=("__add__", "__sub__", "__rsub__", "__mul__"))
    sizes.resize_rules(ck, {"nint": "C02.R3"})        # optimal sizes read x.n_int: it must be current after every resize
    carriers.machine_carrier(ck, "C18.R5")
    routes.numpy_dispatch_transparent(ck, "C15.R5")
    fresh.constructor_state(ck, "C20.R2")            # results and operands are built by the constructor: own status record, own final configuration
    funcs.governing_config(ck, "C08.R3")
    funcs.route_selection(ck, "C07.R8")
    funcs.kernels_pure(ck, "C07.R9")
    ops.conversions(ck, "C16.R2")                         # the value route reads operands with get_val()
    fresh.no_hidden_state(ck, "C20.R8")                  # results depend on the documented state only (no caches / memos)
