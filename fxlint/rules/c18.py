"""C18 - extended precision: words of 64+ bits store and render integers bit-exactly."""
from . import carriers, sizes, flags, pipeline

from . import routes, fresh, flags, sizes, conv, dtype, carriers, funcs, ops, strings, pipeline, widths

EXPLANATION = (
    "R1 every carrier switch in the package (set_val real/complex, utils.wrap, resize's indicator, every kernel's precision cast) compares "
    "against the one module constant (_n_word_max, or min(_n_word_max, 64)) with >=; R2 resize stores status['extended_prec'] on every normal "
    "path, True exactly on the n_word >= threshold branch, computed from the final word length, and no other function writes or drops the key "
    "(reset clears only the three flags in place; the constructor creates the key); R3 on the object-carrier store paths the input is cast with "
    "astype(object), the conversion factor is an integer expression for n_frac >= 0 and the chain FORMAT->SCALE->RND->OVF holds; R4 stored object "
    "arrays are rebuilt from int() of each element; utils.wrap's object path (C03.R1/R3). Residual: NumPy's treatment of object arrays "
    "(np.clip, &, comparisons on Python ints) is a lemma; bin()/hex() widths are decided under C11."
    ' Added after the third round of seeded changes: R5 below the threshold the carrier is int64/uint64; R6 helpers rebuild arrays in the order they read them; element views are constructor-built (C17.R6, C20.R1); constructor state (C20.R2); route selection (C07.R8); object arrays are clamped by np.clip (C02.R6).'
    ' Added after the fourth round of seeded changes: from_bin / call / item assignment forward raw= (C01.R1); C20.R8 objects carry only the documented attributes and no function writes module-level containers (no caches / memos that go stale) (a memoised bin() goes stale after element stores).'
    ' Added after the fifth round of seeded changes: both range tests (C04.R1), bin()/hex() render sites and hex image (C11.R1/R2), C04.R7; C20.R8 also forbids mutable default arguments and private attributes hung on operands (x._cache, x.__dict__[...]).'
    " Added after the sixth round of seeded changes: R2 (constructor side) on every normal path of __init__ a resize()/_init_size() call follows the installation of the fresh status record, so the indicator is recomputed also for like= / template objects without size arguments; the bitwise rules C13.R1-R3 are included ('the bitwise operators are exact at these widths')."
    " Added after the seventh (short) round of seeded changes: the rounding dispatcher's pass-through for integer / object carriers (C05.R1-R3) is included: a rounding of object arrays through float64 loses the bits beyond 53.")
ASSUMPTIONS = ["64-bit platform: fxpmath._n_word_max == 64 (probed by the library at import; the checker only verifies all switches use that symbol)"]
TRUSTED = ["CPython ast", "lemma: arithmetic on object arrays of Python ints is exact"]


def run(ck):
    carriers.threshold_everywhere(ck, "C18.R1")
    sizes.resize_rules(ck, {"ext": "C18.R2"})
    flags.sticky_and_ownership(ck, "C18.R2")
    flags.reset_rule(ck, "C18.R2")
    carriers.object_chain_float_free(ck, "C18.R3", "C18.R4")
    carriers.wrap_rule(ck, "C03.R1", "C03.R3")
    strings.decode_terms(ck, "C11.R4")
    strings.parse_dispatch(ck, "C11.R5")
    roles = flags.handler_roles_quiet(ck.prog)
    pipeline.overflow_dispatch(ck, "C02.R6", "C03.R2", roles)
    pipeline.store_pipeline(ck, "C01.R2", want_bounds=True)
    carriers.machine_carrier(ck, "C18.R5")
    fresh.constructor_state(ck, "C20.R2")            # results and operands are built by the constructor: own status record, own final configuration
    conv.order_consistency(ck, "C18.R6")
    conv.getitem_keeps_map(ck, "C17.R6")
    fresh.returned_objects_fresh(ck, "C20.R1")
    funcs.route_selection(ck, "C07.R8")
    fresh.no_hidden_state(ck, "C20.R8")                  # results depend on the documented state only (no caches / memos)
    routes.write_funnel(ck, "C01.R1")                   # from_bin / call / setitem forward raw= so that codes are stored exactly
    h_, _r = flags.handler_roles(ck, "C04.R1")
    strings.render_sites(ck, "C11.R1")
    strings.hex_image(ck, "C11.R2")
    fresh.reset_only_by_user(ck, "C04.R7")
    carriers.indicator_after_record(ck, "C18.R2")
    pipeline.rounding_table(ck, "C05.R1", "C05.R2", "C05.R3")   # Python-int (object) codes pass the rounding stage untouched: a detour through binary64 loses bits beyond 53
    ops.bit_primitives(ck, "C13.R1")                   # "the bitwise operators are exact at these widths"
    ops.bit_methods(ck, "C13.R2")
    ops.resign_helper(ck, "C13.R3")
