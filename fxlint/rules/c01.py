"""C01 - storing a value quantizes it exactly: scale, round, then saturate or wrap; by every route and carrier."""
from . import pipeline, routes

from . import routes, fresh, flags, sizes, conv, dtype, carriers, funcs, ops, strings, pipeline, widths

EXPLANATION = (
    "Decides the structural part of C01 from the source: R1 every public storing route reaches the value buffer only "
    "through set_val and forwards raw/index; R2 on every enumerated path of set_val the stored expression has the provenance "
    "FORMAT -> SCALE -> RND(method=self.config.rounding) -> OVF -> CAST* -> STORE (complex: both components); R3 the conversion "
    "factor normalises to ite(raw, 1, 2^n_frac) on all branches; R4 the input normaliser's isinstance ladder covers every carrier "
    "named in the statement and ends in raise; R5 no item-assignment into a possibly-immutable input container; R6 the value type used for the pre-scale cast never narrows the carrier (arrays typed by type(val.item(0)), float imposed only for None/strings/Decimal/scaled); R7 codes re-scaled from another fixed-point object that may be fractional are never given an integer value type before the rounding stage; plus the rounding "
    "table and clamp/wrap selection the stages rely on. Residual (declared, not decided): exactness of binary64/NumPy arithmetic "
    "for particular values, decimal-string parsing via float()."
    " Added after the third round of seeded changes: R8 decimal strings are converted by float()/int() of the text itself (no int(float(x))); the constructor applies mode keywords to the object's final, unshared configuration (C20.R2)."
    ' Added after the fourth round of seeded changes: the wrap clause (C03.R1/R3) for every carrier; C20.R8 objects carry only the documented attributes and no function writes module-level containers (no caches / memos that go stale).'
    ' Added after the fifth round of seeded changes: both range tests of the overflow handler on every store (C04.R1); C04.R7 nothing inside the package calls reset() and Config.update applies every keyword; C20.R8 also forbids mutable default arguments and private attributes hung on operands (x._cache, x.__dict__[...]).'
    ' Added after the sixth round of seeded changes: the wrap clause now also accepts the offset-binary spelling ((x + 2^(n-1)) mod 2^n) - 2^(n-1) and requires the offset to be added after the integer conversion (C03.R1); value types are Python types or dtype instances, never NumPy scalar classes (C10.R5).')
ASSUMPTIONS = ["NumPy rounding primitives and np.clip behave as in the lemma table",
               "calls through self.<name> resolve to the method of that name on Fxp (no monkey-patching)"]
TRUSTED = ["CPython ast", "fxlint path enumeration/substitution", "lemma table of NumPy primitives"]


def run(ck):
    routes.write_funnel(ck, "C01.R1")
    roles = pipeline.store_pipeline(ck, "C01.R2", want_bounds=True)
    pipeline.factor_rule(ck, "C01.R3")
    routes.carrier_ladder(ck, "C01.R4")
    routes.no_store_into_immutable(ck, "C01.R5")
    routes.carrier_types(ck, "C01.R6")
    routes.no_truncation_before_rounding(ck, "C01.R7")
    ops.conversions(ck, "C16.R2")        # "the value read back is exactly code*2^-n_frac"
    pipeline.rounding_table(ck, "C05.R1", "C05.R2", "C05.R3")
    pipeline.overflow_dispatch(ck, "C02.R6", "C03.R2", roles)
    fresh.constructor_state(ck, "C20.R2")            # "under the configured modes": the modes are the object's own, applied to its final configuration
    strings.decimal_arm(ck, "C01.R8")
    carriers.wrap_rule(ck, "C03.R1", "C03.R3")              # the wrap clause for every carrier
    fresh.no_hidden_state(ck, "C20.R8")                  # results depend on the documented state only (no caches / memos)
    h_, _r = flags.handler_roles(ck, "C04.R1")
    fresh.reset_only_by_user(ck, "C04.R7")
