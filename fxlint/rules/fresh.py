"""Freshness / aliasing rules (C20; C20.R2 shared with C08/C10)."""
import ast

from ..model import dotted, src, calls_in, kw, AnalysisError
from ..common import fpaths, peel, actual, const_str, same_expr, fxp_names_in
from ..paths import outcomes
from .. import anchors as A

DERIVING = ["__neg__", "__pos__", "__abs__", "__rshift__", "__lshift__", "__invert__", "__and__", "__or__", "__xor__", "like", "deepcopy", "__getitem__"]


def constructor_state(ck, rule):
    """C20.R2: the constructor copies like/template state deeply, installs a fresh status record after that copy on
    every path, and never stores a caller's Config object itself."""
    prog = ck.prog
    f = prog.func("objects.Fxp.__init__")
    ck.saw(f)
    n_dict = 0
    from ..common import walk_closure
    nodes = [n for _, n in walk_closure(prog, f)]          # the constructor and the helpers extracted from it
    for n in nodes:
        if isinstance(n, ast.Assign) and any(dotted(t) == "self.__dict__" for t in n.targets):
            n_dict += 1
            v = n.value
            good = isinstance(v, ast.Call) and dotted(v.func) == "copy.deepcopy"
            ck.check(good, rule, f, "like=/template state is deep-copied into the new object", "self.__dict__ = %s" % src(v)[:70], n,
                     "a shallow copy shares the template's Config, status record and callbacks list with the new object")
        if isinstance(n, ast.Assign) and any(dotted(t) == "self.config" for t in n.targets):
            v = n.value
            good = (isinstance(v, ast.Constant) and v.value is None) or (isinstance(v, ast.Call) and (dotted(v.func) == "Config" or (isinstance(v.func, ast.Attribute) and v.func.attr == "deepcopy") or dotted(v.func) == "copy.deepcopy"))
            ck.check(good, rule, f, "the object's configuration is a fresh Config or a deep copy of the one passed in", "self.config = %s" % src(v)[:60], n,
                     "storing the caller's Config makes two objects share configuration")
    ck.check(n_dict >= 1, rule, f, "the like= / template routes copy state through self.__dict__ = deepcopy(...) (%d site(s))" % n_dict, "no __dict__ copy in the constructor", f.node)
    # fresh status literal after the last __dict__ copy, before sizing/storing, on every path
    body = f.node.body

    def is_status_literal(s):
        return isinstance(s, ast.Assign) and any(dotted(t) == "self.status" for t in s.targets) and isinstance(s.value, ast.Dict) \
            and all(isinstance(v, ast.Constant) and v.value is False for v in s.value.values)
    # path-based: on every normal path the fresh record is stored after the last replacement of the attribute record and before sizing/storing
    okstat = True
    n_paths = 0
    for pf in fpaths(prog, f):
        if pf.end == "raise":
            continue
        n_paths += 1
        repl_ = [i for i, (k, o) in enumerate(pf.order) if k == "store" and o.path == "self.__dict__"]
        stat_ = [i for i, (k, o) in enumerate(pf.order) if k == "store" and o.path == "self.status" and isinstance(o.value, ast.Dict)
                 and all(isinstance(v, ast.Constant) and v.value is False for v in o.value.values)]
        use_ = [i for i, (k, o) in enumerate(pf.order) if k == "call" and isinstance(o.raw.func, ast.Attribute) and o.raw.func.attr in ("set_val", "resize", "_init_size")
                and dotted(o.raw.func.value) == "self"]
        if not stat_ or (repl_ and stat_[-1] < repl_[-1]) or (use_ and stat_[-1] > use_[0]):
            okstat = False
            ck.bad(rule, f, "a fresh all-False status record is installed after the like/template copy and before sizing/storing on every path",
                   "status literal at order position %s, state copy at %s, first sizing/storing at %s" % (stat_[-1:] or None, repl_[-1:] or None, use_[:1] or None), f.node,
                   "objects built with like=/template would inherit the template's raised flags (or keep sharing its record)")
            break
    if okstat:
        ck.ok(rule, f, "fresh status record after the state copy and before sizing/storing on all %d normal paths" % n_paths)
    # mode keywords (rounding=, overflow=, ...) are applied to the configuration the object ends up with: on every normal path the
    # config.update(**kwargs) call follows the last replacement of self.config / self.__dict__ and precedes sizing/storing
    n_upd = 0
    seen_bad = set()
    for pf in fpaths(prog, f):
        if pf.end == "raise":
            continue
        upd = [i for i, (k, o) in enumerate(pf.order) if k == "call" and isinstance(o.raw.func, ast.Attribute) and o.raw.func.attr == "update"
               and dotted(o.raw.func.value) == "self.config" and any(kk.arg is None for kk in o.raw.keywords)]
        repl = [i for i, (k, o) in enumerate(pf.order) if k == "store" and o.path in ("self.config", "self.__dict__")]
        first_use = [i for i, (k, o) in enumerate(pf.order) if k == "call" and isinstance(o.raw.func, ast.Attribute) and o.raw.func.attr in ("set_val", "resize", "_init_size")
                     and dotted(o.raw.func.value) == "self"]
        if repl:
            sc = [i for i, (k, o) in enumerate(pf.order) if k == "store" and o.path == "self.scaled" and i > repl[-1]
                  and not (isinstance(o.value, ast.Constant) and o.value.value is None)]
            if not sc or (first_use and sc[-1] > first_use[0]):
                if "scaled" not in seen_bad:
                    seen_bad.add("scaled")
                    ck.bad(rule, f, "the scaled indicator is recomputed from the object's scale and bias after the like=/template state is installed (before sizing)",
                           "path with a state copy but no later store to self.scaled", f.node,
                           "the new object inherits a stale indicator: its limits (and the read map) are computed as if it were unscaled")
        if not upd:
            key = "none"
            if key not in seen_bad:
                seen_bad.add(key)
                ck.bad(rule, f, "keyword arguments naming configuration fields reach the object's configuration (config.update(**kwargs)) on every path",
                       "constructor path without config.update(**kwargs)", f.node, "rounding=/overflow=/... given to the constructor are ignored")
            continue
        n_upd += 1
        if (repl and upd[-1] < repl[-1]) or (first_use and upd[-1] > first_use[0]):
            key = "order"
            if key not in seen_bad:
                seen_bad.add(key)
                ck.bad(rule, f, "the configuration keywords are applied after the like=/template/config= state is installed and before the value is sized and stored",
                       "config.update(**kwargs) at order position %d, last replacement of the configuration at %s, first sizing/storing at %s" % (upd[-1], repl[-1] if repl else None, first_use[0] if first_use else None),
                       pf.order[upd[-1]][1].stmt, "an explicit overflow='wrap' / rounding= is lost when like=, a template or config= replaces the configuration afterwards")
    if n_upd and not seen_bad:
        ck.ok(rule, f, "configuration keywords are applied to the final configuration on all %d normal paths" % n_upd)
    # Config constructor
    c = prog.func("objects.Config.__init__")
    for n in ast.walk(c.node):
        if isinstance(n, ast.Assign) and any(dotted(t) == "self.__dict__" for t in n.targets):
            good = isinstance(n.value, ast.Call) and dotted(n.value.func) == "copy.deepcopy"
            ck.check(good, rule, c, "Config template state is deep-copied", "self.__dict__ = %s" % src(n.value)[:60], n)


def returned_objects_fresh(ck, rule):
    """C20.R1: derived objects are built by the constructor or from a deep copy; shallow copies of Fxp/Config objects are not returned
    by the routes the property lists; indexing returns a view (the one documented exception)."""
    prog = ck.prog
    for name in DERIVING:
        m = prog.func("objects.Fxp." + name, required=False)
        if m is None:
            ck.bad(rule, "objects.Fxp", "method %s exists" % name, "%s missing" % name)
            continue
        ck.saw(m)
        fx = fxp_names_in(prog, m) | {"self", "x"}
        for c in calls_in(m.node):
            if dotted(c.func) == "copy.copy":
                ck.bad(rule, m, "%s derives its result from a deep copy or the constructor" % name, "copy.copy(%s)" % (src(c.args[0]) if c.args else ""), c,
                       "a shallow copy shares config/status/value buffer with the operand")
            elif isinstance(c.func, ast.Attribute) and c.func.attr == "copy" and dotted(c.func.value) in fx:
                ck.bad(rule, m, "%s derives its result from a deep copy or the constructor" % name, "%s.copy()" % dotted(c.func.value), c,
                       "Fxp.copy() is shallow: the result shares config, status record and callbacks with %s" % dotted(c.func.value))
        # what is returned
        for pf in fpaths(prog, m):
            if pf.end != "return" or pf.ret is None:
                continue
            r = peel(pf.ret)[0]
            # unwrap set_val(...) chains: X.set_val(..) returns X
            while isinstance(r, ast.Call) and isinstance(r.func, ast.Attribute) and r.func.attr == "set_val":
                r = peel(r.func.value)[0]
            good = isinstance(r, ast.Call) and (prog.is_fxp_ctor(m, r) or dotted(r.func) == "copy.deepcopy" or (isinstance(r.func, ast.Attribute) and r.func.attr == "deepcopy"))
            ck.check(good, rule, m, "%s returns an object created by the constructor or a deep copy" % name, "returns %s" % src(r)[:60], pf.ret_stmt,
                     "the returned object is (or aliases) an existing one")
    # the view exception
    g = prog.func("objects.Fxp.__getitem__")
    ok = False
    for n in ast.walk(g.node):
        if isinstance(n, ast.Assign) and len(n.targets) == 1 and isinstance(n.targets[0], ast.Attribute) and n.targets[0].attr == "val":
            v = n.value
            ok = isinstance(v, ast.Subscript) and dotted(v.value) == "self.val" and dotted(v.slice) == "index"
            ck.check(ok, rule, g, "indexing returns a view of the values (x[i][j] = v writes through to x)", "y.val = %s" % src(v)[:50], n,
                     "a copy breaks chained indexed assignment; anything else than self.val[index] is not the element asked for")
    if not ok:
        ck.bad(rule, g, "indexing assigns the indexed view to the new object's buffer", "no `y.val = self.val[index]` in __getitem__", g.node)
    # wrappers build with the constructor (C02.R7 decides the sink); config passed is the operand's config object -> deep-copied by the constructor (R2)
    for nm in ("flatten", "T"):
        m = prog.func("objects.Fxp." + nm, required=False)
        if m is not None and any(isinstance(c.func, ast.Attribute) and c.func.attr == "copy" for c in calls_in(m.node)):
            ck.note("Fxp.%s returns a shallow copy (not in the property's list of routes)" % nm)


def stored_buffer_is_private(ck, rule):
    """C20.R4: the buffer stored by set_val is never the caller's array: the normaliser copies into a new ndarray and no cast uses copy=False."""
    prog = ck.prog
    f = A.funnel(prog)
    fm = A.normaliser(prog)
    for fn in (f, fm):
        for c in calls_in(fn.node):
            cp = kw(c, "copy")
            if cp is not None and isinstance(cp, ast.Constant) and cp.value is False:
                ck.bad(rule, fn, "casts on the store chain copy their input", src(c)[:80], c, "astype(copy=False)/np.array(copy=False) can hand the caller's own array to the object")
            if dotted(c.func) in ("np.asarray", "np.asanyarray") and fn is fm:
                ck.bad(rule, fn, "the normaliser copies array inputs", src(c)[:60], c, "np.asarray returns the caller's array itself")
    # np.array(val) executed on every normal path of the normaliser
    def pred(s):
        return isinstance(s, ast.Assign) and isinstance(s.value, ast.Call) and dotted(s.value.func) == "np.array" and s.value.args and dotted(s.value.args[0]) == dotted(s.targets[0]) \
            and not isinstance(s, (ast.If,))
    ends = outcomes(fm.node.body, pred)
    good = all(h for k, h in ends if k in ("fall", "return"))
    ck.check(good, rule, fm, "every normal path of the normaliser converts the input with np.array (a copy)", "a path returns the input without np.array(val)", fm.node,
             "an ndarray input could become the object's own buffer")
    ck.saw(f)
    ck.saw(fm)


def config_validation(ck, rule):
    """C20.R6: every validated Config attribute is stored only in its setter, under a test on the very value that is stored, with raise
    on the complementary branch; nothing outside Config writes a private config field."""
    prog = ck.prog
    setters = {q: f for q, f in prog.funcs.items() if f.cls == "Config" and q.endswith(".setter")}
    free_form = {"bin_prefix", "hex_prefix"}
    n = 0
    for q, f in sorted(setters.items()):
        name = f.name
        vp = [p for p in f.params if p != "self"][0]
        if name in free_form:
            continue
        n += 1
        pfs = fpaths(prog, f)
        ck.saw(f, paths=len(pfs))
        stored = False
        for pf in pfs:
            sts = [st for st in pf.stores if st.path == "self._" + name]
            if pf.end == "raise":
                if sts:
                    ck.bad(rule, f, "an invalid %s is rejected without being stored" % name, "store before raise", sts[0].stmt)
                continue
            if not sts:
                ck.bad(rule, f, "a setter path that does not raise stores the value", "%s: normal path without store" % name, f.node, "an invalid value is silently ignored or a valid one dropped")
                continue
            st = sts[-1]
            stored = True
            if dotted(st.value) != vp:
                ck.bad(rule, f, "the value stored by the %s setter is the one that was validated" % name, "stores %s" % src(st.value)[:50], st.stmt)
                continue
            gs = st.guards
            if not gs:
                ck.bad(rule, f, "%s is validated before it is stored" % name, "unconditional store of %s" % name, st.stmt, "an invalid configuration value would be stored instead of rejected")
                continue
            test = gs[-1][2]
            if not gs[-1][1]:
                ck.bad(rule, f, "%s is stored on the accepting branch of its validation" % name, "stored on the failing branch of %s" % src(test)[:60], st.stmt)
                continue
            # the test must mention the stored name itself, un-transformed, in a membership / isinstance / comparison / is None
            problems = _validation_problems(test, vp, name)
            ck.check(not problems, rule, f, "the validation of %s tests the value that is stored" % name, "test %s: %s" % (src(test)[:90], "; ".join(problems)), gs[-1][3],
                     "the setter accepts (and stores) values its users do not understand")
        # complementary branch raises
        ck.check(any(pf.end == "raise" for pf in pfs), rule, f, "an invalid %s raises" % name, "%s setter never raises" % name, f.node)
        ck.check(stored, rule, f, "the %s setter stores valid values" % name, "%s setter never stores" % name, f.node, nontrivial=False)
    if n < 14:
        raise AnalysisError("only %d validated Config setters found (expected >= 14)" % n)
    # nobody else writes private fields
    for g in prog.all_funcs():
        for node in ast.walk(g.node):
            if isinstance(node, (ast.Assign, ast.AugAssign)):
                tg = node.targets if isinstance(node, ast.Assign) else [node.target]
                for t in tg:
                    if isinstance(t, ast.Attribute) and t.attr.startswith("_") and not t.attr.startswith("__") and t.attr[1:] in {s.name for s in setters.values()}:
                        if g.cls == "Config" and g.qualname.endswith(".setter") and g.name == t.attr[1:]:
                            continue
                        ck.bad(rule, g, "private configuration fields are written only by their own validating setter", "%s writes %s" % (g.qualname, src(t)), node,
                               "the write bypasses validation")
    # setattr in Config.update goes through properties
    upd = prog.func("objects.Config.update")
    okupd = any(dotted(c.func) == "setattr" and len(c.args) == 3 and dotted(c.args[0]) == "self" for c in calls_in(upd.node))
    ck.check(okupd, rule, upd, "Config.update assigns through the validating properties (setattr(self, k, v))", "Config.update does not use setattr(self, ...)", upd.node)
    for c in calls_in(upd.node):
        if dotted(c.func) in ("self.__dict__.update", "vars(self).update"):
            ck.bad(rule, upd, "Config.update does not bypass the properties", src(c)[:60], c)


def _validation_problems(test, vp, name):
    probs = []
    uses = 0
    for n in ast.walk(test):
        if isinstance(n, ast.Compare):
            sides = [n.left] + list(n.comparators)
            for s in sides:
                if dotted(s) == vp:
                    uses += 1
                elif any(isinstance(x, ast.Name) and x.id == vp for x in ast.walk(s)):
                    probs.append("tests %s, a transformed value, but stores %s" % (src(s), vp))
        if isinstance(n, ast.Call) and dotted(n.func) == "isinstance" and n.args and dotted(n.args[0]) == vp:
            uses += 1
    if uses == 0:
        probs.append("the test does not examine %s" % vp)
    # list-valued attributes: membership in the allowed list
    has_in = [n for n in ast.walk(test) if isinstance(n, ast.Compare) and isinstance(n.ops[0], ast.In)]
    for n in has_in:
        lst = dotted(n.comparators[0])
        if lst is not None and lst.startswith("self._") and lst.endswith("_list") and lst != "self._%s_list" % name:
            probs.append("validated against %s instead of self._%s_list" % (lst, name))
    return probs


def no_class_state_writes(ck, rule):
    """C20.R7: no function stores into an attribute of a class object (Fxp.template = ..., type(self).x = ...): such a write changes the state
    every later constructor call starts from (state leaking between unrelated objects)."""
    prog = ck.prog
    classes = {q.split(".")[1] for q in prog.classes}
    n = 0
    for f in prog.all_funcs():
        for node in ast.walk(f.node):
            tg = []
            if isinstance(node, ast.Assign):
                tg = node.targets
            elif isinstance(node, (ast.AugAssign, ast.AnnAssign)):
                tg = [node.target]
            elif isinstance(node, ast.Call) and dotted(node.func) == "setattr" and node.args:
                base = node.args[0]
                if dotted(base) in classes or dotted(base) in ("self.__class__", "cls") or (isinstance(base, ast.Call) and dotted(base.func) == "type"):
                    ck.bad(rule, f, "no function writes class-level state", "setattr(%s, ...)" % src(base)[:40], node, "state shared by all objects is changed by one call")
            for t in tg:
                for tt in (t.elts if isinstance(t, (ast.Tuple, ast.List)) else [t]):
                    if isinstance(tt, ast.Attribute):
                        n += 1
                        base = tt.value
                        if dotted(base) in classes or dotted(base) in ("self.__class__", "cls") or (isinstance(base, ast.Call) and dotted(base.func) == "type"):
                            ck.bad(rule, f, "no function writes class-level state", "%s = ..." % src(tt)[:50], node,
                                   "a later, unrelated constructor call starts from the value written here (e.g. every new object copies a leftover template)")
    ck.ok(rule, "fxpmath package", "%d attribute stores examined: none targets a class object" % n, nontrivial=False)


def no_hidden_state(ck, rule):
    """C20.R8: results depend on the documented state only.  (a) objects carry exactly the attributes of the pinned classes: a store to any other
    self.<name> (or setattr with another literal name) introduces hidden state - a cache, a memo, a remembered limit - that the code which
    changes sizes, values or modes does not know it must invalidate; (b) no function writes a module-level container or rebinds a module
    global (the numpy registry filled by @implements is the one exception)."""
    prog = ck.prog
    from ..pinned import PINNED_INSTANCE_ATTRS, PINNED_GLOBALS
    n = 0
    for f in prog.all_funcs():
        if f.cls in PINNED_INSTANCE_ATTRS and f.parent is None:
            allowed = PINNED_INSTANCE_ATTRS[f.cls]
            for node in ast.walk(f.node):
                if isinstance(node, ast.Attribute) and isinstance(node.ctx, (ast.Store,)) and dotted(node.value) == "self":
                    n += 1
                    if node.attr not in allowed:
                        ck.bad(rule, f, "%s objects carry only the documented attributes (no cached / memoised state)" % f.cls, "self.%s = ..." % node.attr, node,
                               "a remembered value goes stale when sizes, signedness, modes or the buffer change through a route that does not reset it")
                elif isinstance(node, ast.Call) and dotted(node.func) == "setattr" and len(node.args) >= 2 and dotted(node.args[0]) == "self" and isinstance(node.args[1], ast.Constant) \
                        and node.args[1].value not in allowed:
                    ck.bad(rule, f, "%s objects carry only the documented attributes (no cached / memoised state)" % f.cls, "setattr(self, %r, ...)" % node.args[1].value, node)
    all_attrs = set()
    for v_ in PINNED_INSTANCE_ATTRS.values():
        all_attrs |= set(v_)
    for f in prog.all_funcs():
        # (a') a new attribute hung on another object (x._cache = ...) is hidden state just the same
        for node in ast.walk(f.node):
            if isinstance(node, ast.Attribute) and isinstance(node.ctx, ast.Store) and isinstance(node.value, ast.Name) and node.value.id not in ("self", "cls") \
                    and node.attr not in all_attrs and node.attr.startswith("_") and not node.attr.startswith("__"):
                ck.bad(rule, f, "no function hangs a new private attribute on an object it was given", "%s.%s = ..." % (node.value.id, node.attr), node,
                       "a value remembered on an operand goes stale when the operand is written in place")
            if isinstance(node, ast.Subscript) and isinstance(node.ctx, (ast.Store, ast.Del)) and isinstance(node.value, ast.Attribute) and node.value.attr == "__dict__":
                k_ = node.slice.value if isinstance(node.slice, ast.Constant) else None
                if k_ is None or k_ not in all_attrs:
                    ck.bad(rule, f, "no function adds entries to an object's attribute record", "%s = ..." % src(node)[:50], node,
                           "a value remembered on an operand goes stale when the operand is written in place")
        # (c) no mutable default argument (one object shared by every call / every instance)
        dfl = list(f.node.args.defaults) + [d for d in f.node.args.kw_defaults if d is not None]
        for d in dfl:
            if isinstance(d, (ast.List, ast.Dict, ast.Set)) or (isinstance(d, ast.Call) and dotted(d.func) in ("list", "dict", "set")):
                ck.bad(rule, f, "no parameter has a mutable default value", "default %s in %s" % (src(d)[:30], f.qualname), d,
                       "every call that relies on the default shares one object: state leaks between unrelated objects")
    for m, assigns in prog.module_assigns.items():
        mod_names = set(assigns)
        for f in prog.all_funcs():
            if f.module != m:
                continue
            local = set(f.params)
            for node in ast.walk(f.node):
                if isinstance(node, ast.Name) and isinstance(node.ctx, ast.Store):
                    local.add(node.id)
            for node in ast.walk(f.node):
                if isinstance(node, ast.Global):
                    ck.bad(rule, f, "no function rebinds a module-level name", "global %s" % ", ".join(node.names), node, "state shared by all objects and calls")
                base = None
                if isinstance(node, ast.Subscript) and isinstance(node.ctx, (ast.Store, ast.Del)) and isinstance(node.value, ast.Name):
                    base = node.value.id
                elif isinstance(node, ast.Call) and isinstance(node.func, ast.Attribute) and isinstance(node.func.value, ast.Name) \
                        and node.func.attr in ("append", "extend", "update", "setdefault", "pop", "clear", "add", "insert", "remove", "popitem"):
                    base = node.func.value.id
                if base is not None and base in mod_names and base not in local:
                    n += 1
                    if base == "_NUMPY_HANDLED_FUNCTIONS" and f.name in ("implements", "decorator"):
                        continue
                    ck.bad(rule, f, "no function writes into a module-level container", "%s written in %s" % (base, f.qualname), node,
                           "a memo keyed by part of the inputs returns what an earlier, different call computed")
    # (d) class-level containers (shared by every instance) are never written, directly or through a local alias
    MUT = ("append", "extend", "update", "setdefault", "pop", "clear", "add", "insert", "remove", "popitem", "move_to_end", "discard")
    cls_cont = {}
    for m, tree in prog.modules.items():
        for st in tree.body:
            if isinstance(st, ast.ClassDef):
                for s2 in st.body:
                    if isinstance(s2, (ast.Assign, ast.AnnAssign)):
                        v = s2.value
                        tg = s2.targets if isinstance(s2, ast.Assign) else [s2.target]
                        mut = isinstance(v, (ast.Dict, ast.List, ast.Set, ast.DictComp, ast.ListComp, ast.SetComp)) or \
                            (isinstance(v, ast.Call) and (dotted(v.func) or "").split(".")[-1] in ("dict", "list", "set", "OrderedDict", "defaultdict", "WeakKeyDictionary", "WeakValueDictionary", "deque", "Counter", "bytearray"))
                        if mut:
                            for t in tg:
                                if isinstance(t, ast.Name):
                                    cls_cont.setdefault(st.name, set()).add(t.id)
    if cls_cont:
        names = set()
        for v_ in cls_cont.values():
            names |= v_

        def is_cls_attr(e):
            if not (isinstance(e, ast.Attribute) and e.attr in names):
                return False
            b = e.value
            return dotted(b) in ("self", "cls", "self.__class__") or dotted(b) in cls_cont or (isinstance(b, ast.Call) and dotted(b.func) == "type")
        for f in prog.all_funcs():
            alias = set()
            for node in ast.walk(f.node):
                if isinstance(node, ast.Assign) and len(node.targets) == 1 and isinstance(node.targets[0], ast.Name) and is_cls_attr(node.value):
                    alias.add(node.targets[0].id)
            for node in ast.walk(f.node):
                base = None
                if isinstance(node, ast.Subscript) and isinstance(node.ctx, (ast.Store, ast.Del)):
                    base = node.value
                elif isinstance(node, ast.Call) and isinstance(node.func, ast.Attribute) and node.func.attr in MUT:
                    base = node.func.value
                elif isinstance(node, ast.AugAssign) and isinstance(node.target, ast.Subscript):
                    base = node.target.value
                if base is None:
                    continue
                if is_cls_attr(base) or (isinstance(base, ast.Name) and base.id in alias):
                    n += 1
                    ck.bad(rule, f, "no function writes into a class-level container (state shared by every object)", "%s written in %s" % (src(base)[:40], f.qualname), node,
                           "a memo shared by all instances and keyed by part of the inputs returns what an earlier, different call computed")
    ck.ok(rule, "fxpmath package", "%d attribute / container stores examined: only documented instance attributes, no module-level or class-level state" % n, nontrivial=False)


def reset_only_by_user(ck, rule):
    """C04.R7: flags are sticky - nothing inside the package calls reset() (clearing is the user's act), and Config.update applies every keyword
    (its loop has no early exit)."""
    prog = ck.prog
    n = 0
    for f in prog.all_funcs():
        for c in calls_in(f.node):
            if isinstance(c.func, ast.Attribute) and c.func.attr == "reset" and not c.args and not c.keywords:
                n += 1
                ck.bad(rule, f, "no library function clears status flags on behalf of the user", "%s calls %s" % (f.qualname, src(c)[:40]), c,
                       "flags raised earlier on that object are lost (and an operand's inaccuracy is cleared before it is propagated)")
    u = prog.func("objects.Config.update", required=False)
    if u is not None:
        for loop in [x for x in ast.walk(u.node) if isinstance(x, (ast.For, ast.While))]:
            esc = [x for x in ast.walk(loop) if isinstance(x, (ast.Return, ast.Break))]
            ck.check(not esc, rule, u, "Config.update applies every keyword it is given (no early exit from its loop)", "loop leaves with %s" % (type(esc[0]).__name__ if esc else ""), esc[0] if esc else None,
                     "keywords after the first unknown one (raw=, scale=, callbacks=) are silently dropped: overflow='wrap' written after raw=True is ignored")
    ck.ok(rule, "fxpmath package", "no internal call of reset(); Config.update has no early exit", nontrivial=False)
