"""C03 - wrap overflow is exact two's-complement modular arithmetic."""
from . import pipeline, carriers, flags

from . import routes, fresh, flags, sizes, conv, dtype, carriers, funcs, ops, strings, pipeline, widths

EXPLANATION = (
    "R1 every path of utils.wrap (signed/unsigned x int64/object carrier), after substitution, is classified in an abstract "
    "modular domain and must normalise to x mod 2^n_word, re-signed at exactly 2^(n_word-1) (strict) by subtracting 2^n_word, with no "
    "narrowing cast before the mask; R2 the overflow handler selects wrap by config and passes the rounded value with the "
    "destination's own (signed, n_word), dispatch exhaustive over Config's overflow list; the product kernel leaves int64 before its exact result needs more than 64 bits (C19.R1 on mul); R3 the Python-int path is taken for "
    "n_word >= the storage threshold and converts elements with int() before masking; plus the store pipeline (wrap is applied after "
    "rounding, nothing after it). Residual: bit-level behaviour of NumPy &, |, <, where on int64/object arrays (lemmas)."
    ' Added after the third round of seeded changes: explicit overflow= keywords reach the final configuration (C20.R2 order rule), the numpy protocol hands calls to the registered function unchanged (C15.R5), and the n_int/n_word relation of _init_size holds for n_int == 0 (C06.R1).'
    ' Added after the fourth round of seeded changes: every write of codes goes through set_val, hence through wrap (C02.R1); C20.R8 objects carry only the documented attributes and no function writes module-level containers (no caches / memos that go stale).'
    " Added after the fifth round of seeded changes: both range tests (C04.R1); C04.R7 (Config.update has no early exit, so overflow='wrap' written after raw=True is applied); C20.R8 also forbids mutable default arguments and private attributes hung on operands (x._cache, x.__dict__[...])."
    ' Added after the sixth round of seeded changes: C03.R1 accepts the offset-binary spelling and reports an offset added in floating point before the integer cast; resize re-stores the value on every path, a change of signedness alone included (C10.R2); carrier switches factored into a helper (if/return ladders, *args) are normalised and counted per call site, so the product switch x.n_word + y.n_word >= 64 is decided through helpers (C19.R1).')
ASSUMPTIONS = ["for Python ints and non-overflowing int64: x & (2^n-1) == x mod 2^n; (0<=x<2^n and x>=2^(n-1)) => x | -2^n == x - 2^n"]
TRUSTED = ["CPython ast", "fxlint term normaliser", "lemma: NumPy elementwise bit operations"]


def run(ck):
    carriers.wrap_rule(ck, "C03.R1", "C03.R3")
    roles = flags.handler_roles_quiet(ck.prog)
    pipeline.overflow_dispatch(ck, "C02.R6", "C03.R2", roles)
    pipeline.store_pipeline(ck, "C01.R2", want_bounds=True)
    carriers.threshold_everywhere(ck, "C18.R1")
    funcs.governing_config(ck, "C08.R3")               # results stored with wrap: the wrap configuration must be the one the result carries
    sizes.resize_rules(ck, {"restore_raw": "C10.R1", "refresh": "C10.R2"})  # resize re-stores exact integer codes (no float detour at 64+ bits), on every path: a change of signedness alone re-interprets the word
    # products stored with wrap into 64+ bit registers: the multiply must not fold modulo 2^64 first
    widths.kernel_widths(ck, "C19.R1", None, names=("mul",))
    fresh.constructor_state(ck, "C20.R2")            # an explicit overflow='wrap' reaches the final configuration
    routes.numpy_dispatch_transparent(ck, "C15.R5")  # the numpy route computes what the direct call computes (exact integers before wrap)
    sizes.init_size_relation(ck, "C06.R1")            # registers built from (signed, n_int, n_frac) keep the word they were given, n_int == 0 included
    routes.who_writes_codes(ck, "C02.R1")               # every write of codes goes through set_val (and so through wrap)
    fresh.no_hidden_state(ck, "C20.R8")                  # results depend on the documented state only (no caches / memos)
    h_, _r = flags.handler_roles(ck, "C04.R1")
    fresh.reset_only_by_user(ck, "C04.R7")
