"""C19 - carrier/width typing of the add/sub/mul kernels and of set_val's scaling multiply.

Storage invariant (decided by C18.R1): o.val is an object array of Python ints iff o.n_word >= T (T = 64), otherwise int64 (signed) / uint64
(unsigned).  NumPy-2 promotion lemma: int64 (+) uint64 -> float64; array (+) Python int keeps the array dtype; object (+) anything -> object.
A machine-integer node is exact only when its exact result needs at most 64 bits (two's complement, sign bit included)."""
import ast

from ..model import dotted, src, calls_in, kw, AnalysisError
from ..common import fpaths, peel, mkterm, const_str
from ..terms import Term, exp2, NotATerm, nonneg, Facts, tmax
from .. import anchors as A
from . import funcs
from .sizes import _threshold_ok

CAP = 64
MACHINE_INTS = {"np.int64": 64, "np.uint64": 64, "np.int32": 32, "np.uint32": 32, "np.int16": 16, "np.int8": 8, "np.intp": 64, "np.int_": 64, "np.longlong": 64}


class Node:
    def __init__(self, kind, W=None, ops=(), guards=(), always_obj=False, k=None, forced=False):
        self.forced = forced      # value was cast to a fixed machine type (astype(np.int64) ...): it is no longer in its operand's own carrier
        self.kind = kind          # 'code' | 'pow2' | 'num'
        self.W = W                # width Term (bits incl. sign) of the exact value
        self.ops = set(ops)       # operands whose machine carrier the value may have
        self.guards = list(guards)  # tests (ast) under which the value is a Python-int object array
        self.always_obj = always_obj
        self.k = k                # pow2 exponent Term


def _lambda_obj(lam):
    b = lam.body
    if isinstance(b, ast.Call) and dotted(b.func) in ("np.array", "np.asarray"):
        for k in b.keywords:
            if k.arg == "dtype" and dotted(k.value) in ("object", "np.object_"):
                return True
    if isinstance(b, ast.Call) and isinstance(b.func, ast.Attribute) and b.func.attr == "astype" and b.args and dotted(b.args[0]) in ("object", "np.object_"):
        return True
    return False


class Widths:
    def __init__(self, ck, rule_w, rule_p, kernel, nfrac_opt, operands, path_guards=(), public=None):
        self.ck, self.rule_w, self.rule_p, self.k = ck, rule_w, rule_p, kernel
        self.nf = nfrac_opt
        self.operands = operands
        self.public = public if public is not None else kernel     # findings are keyed by the public function and operand position
        self.canon = {o: "xy"[i] if i < 2 else "op%d" % (i + 1) for i, o in enumerate(operands)}
        self.reports = []
        self.path_guards = list(path_guards)      # (substituted test, polarity, raw, stmt) of the kernel path

    def _rename(self, d):
        head, _, rest = d.partition(".")
        if head in self.canon:
            return self.canon[head] + ("." + rest if rest else "")
        return d

    def T(self, e):
        # bits of a power of two: (2**k).bit_length() == k + 1
        if isinstance(e, ast.Call) and isinstance(e.func, ast.Attribute) and e.func.attr == "bit_length" and not e.args:
            b = e.func.value
            if isinstance(b, ast.BinOp) and isinstance(b.op, ast.Pow) and isinstance(b.left, ast.Constant) and b.left.value == 2:
                return self.T(b.right) + 1
            if isinstance(b, ast.BinOp) and isinstance(b.op, ast.LShift) and isinstance(b.left, ast.Constant) and b.left.value == 1:
                return self.T(b.right) + 1
        if isinstance(e, ast.BinOp) and isinstance(e.op, (ast.Add, ast.Sub)):
            l, r = self.T(e.left), self.T(e.right)
            return l + r if isinstance(e.op, ast.Add) else l - r
        return mkterm(e, rename=self._rename).subst({("v", "n_frac"): self.nf})

    def an(self, e):
        if isinstance(e, ast.Call):
            if isinstance(e.func, ast.IfExp) and isinstance(e.func.body, ast.Lambda) and isinstance(e.func.orelse, ast.Lambda) and len(e.args) == 1:
                r = self.an(e.args[0])
                if _lambda_obj(e.func.body) and not _lambda_obj(e.func.orelse):
                    r.guards.append(e.func.test)
                elif _lambda_obj(e.func.orelse) and not _lambda_obj(e.func.body):
                    r.guards.append(ast.UnaryOp(op=ast.Not(), operand=e.func.test))
                elif _lambda_obj(e.func.body) and _lambda_obj(e.func.orelse):
                    r.always_obj = True
                return r
            if isinstance(e.func, ast.Lambda) and len(e.args) == 1 and len(e.func.args.args) == 1 and not e.keywords \
                    and not e.func.args.vararg and not e.func.args.kwarg and not e.func.args.defaults:
                from ..paths import subst as _subst
                return self.an(_subst(e.func.body, {e.func.args.args[0].arg: e.args[0]}))      # (lambda m: E)(a) is E[a/m]
            fn = dotted(e.func)
            if fn in ("np.array", "np.asarray") and e.args:
                r = self.an(e.args[0])
                for k in e.keywords:
                    if k.arg == "dtype" and dotted(k.value) in ("object", "np.object_"):
                        r.always_obj = True
                    elif k.arg == "dtype" and dotted(k.value) in MACHINE_INTS and r.kind == "code" and not r.always_obj:
                        r = self.machine_cast(r, dotted(k.value), e)
                return r
            if isinstance(e.func, ast.Attribute) and e.func.attr == "astype" and e.args:
                r = self.an(e.func.value)
                ty = dotted(e.args[0])
                if ty in ("object", "np.object_"):
                    r.always_obj = True
                elif ty in MACHINE_INTS and r.kind == "code" and not r.always_obj:
                    r = self.machine_cast(r, ty, e)
                elif ty not in (None,) and ty not in MACHINE_INTS and r.kind == "code":
                    raise NotATerm("cast of raw codes to %s" % ty)
                return r
            if fn in MACHINE_INTS and len(e.args) == 1:
                r = self.an(e.args[0])
                if r.kind == "code" and not r.always_obj:
                    r = self.machine_cast(r, fn, e)
                return r
            if fn in ("utils.int_array", "int_array") and e.args:
                return self.an(e.args[0])
            raise NotATerm("call %s" % src(e)[:50])
        if isinstance(e, ast.Attribute) and e.attr == "val" and dotted(e.value) in self.operands:
            o = dotted(e.value)
            return Node("code", Term.var(self.canon.get(o, o) + ".n_word"), {o})
        if isinstance(e, ast.Attribute) and e.attr in ("real", "imag", "T"):
            return self.an(e.value)
        if isinstance(e, ast.Constant):
            return Node("num", Term.const(0))
        if isinstance(e, ast.BinOp):
            if isinstance(e.op, ast.Pow) and isinstance(e.left, ast.Constant) and e.left.value in (2, 2.0):
                return Node("pow2", k=self.T(e.right))
            if isinstance(e.op, ast.LShift) and isinstance(e.left, ast.Constant) and e.left.value == 1:
                return Node("pow2", k=self.T(e.right))
            l, r = self.an(e.left), self.an(e.right)
            if isinstance(e.op, ast.Mult):
                for a, b in ((l, r), (r, l)):
                    if a.kind == "code" and b.kind == "pow2":
                        n = Node("code", a.W + b.k, a.ops, a.guards + b.guards, a.always_obj or b.always_obj)
                        n.forced = a.forced
                        role = "align(%s)" % ",".join(sorted(self.canon.get(o, o) for o in a.ops))
                        self.check_width(n, role, e)
                        return n
                if l.kind == "code" and r.kind == "code":
                    n = Node("code", l.W + r.W, l.ops | r.ops, l.guards + r.guards, l.always_obj or r.always_obj, forced=l.forced or r.forced)
                    self.check_width(n, "product", e)
                    self.check_mix(l, r, n, "product", e)
                    return n
                if l.kind == "code" and r.kind == "num":
                    return l
                if r.kind == "code" and l.kind == "num":
                    return r
            if isinstance(e.op, (ast.Add, ast.Sub)) and l.kind == "code" and r.kind == "code":
                n = Node("code", tmax(l.W, r.W) + 1, l.ops | r.ops, l.guards + r.guards, l.always_obj or r.always_obj, forced=l.forced or r.forced)
                if n.forced:
                    # operands left their own carrier (where same-sign sums of two words below 64 bits always fit): the sum needs its own bound
                    self.check_width(n, "combine", e)
                self.check_mix(l, r, n, "combine", e)
                return n
            raise NotATerm("binop %s" % src(e)[:50])
        if isinstance(e, ast.UnaryOp):
            return self.an(e.operand)
        raise NotATerm("%s" % src(e)[:50])

    def known_signed(self, o):
        for g in self.path_guards:
            t, pol = g[0], g[1]
            while isinstance(t, ast.UnaryOp) and isinstance(t.op, ast.Not):
                t, pol = t.operand, not pol
            if dotted(t) == o + ".signed" and pol:
                return True
        return False

    def machine_cast(self, r, ty, node):
        """raw codes forced into a fixed machine type: an unsigned word of n bits needs n + 1 bits of a signed type"""
        bits = MACHINE_INTS[ty]
        extra = 0 if (ty.startswith("np.u") or all(self.known_signed(o) for o in r.ops)) else 1
        n = Node("code", r.W + extra, r.ops, r.guards, False, forced=True)
        what = "%s: cast of the raw codes to %s keeps every value" % (self.k.name, ty)
        for T, slack in self.bounds(n):
            if nonneg(T + slack - n.W - (64 - bits), Facts()):
                self.ck.ok(self.rule_w, self.k, what, node)
                return n
        self.ck.bad(self.rule_w, self.k, what, "%s:cast(%s)" % (self.public.name, ty), node,
                    {"needs_bits": n.W.show(), "meaning": "raw codes can exceed the range of the machine type they are cast to"}, key_func=self.public.qualname)
        return n

    def bounds(self, n):
        """[(T, slack)] : facts `T <= 63 + (1 - slack)` known on this path / for machine operands.
        A path guard `T >= thr` that is False (or `T < thr` that is True) with thr the word maximum gives T <= 63."""
        out = []
        for g in self.path_guards:
            t, pol = g[0], g[1]
            while isinstance(t, ast.UnaryOp) and isinstance(t.op, ast.Not):
                t, pol = t.operand, not pol
            if not (isinstance(t, ast.Compare) and len(t.ops) == 1):
                continue
            l, op, r = t.left, t.ops[0], t.comparators[0]
            # normalise to  T OP thr
            def is_thr(e):
                return _threshold_ok(self.ck.prog, e) or (isinstance(e, ast.Constant) and e.value == CAP)
            if is_thr(r) and not is_thr(l):
                T_, opc = l, type(op)
            elif is_thr(l) and not is_thr(r):
                T_, opc = r, {ast.Lt: ast.Gt, ast.Gt: ast.Lt, ast.LtE: ast.GtE, ast.GtE: ast.LtE}.get(type(op))
            else:
                continue
            # truth of (T >= thr): derive an upper bound when it is false
            if opc is ast.GtE and not pol or opc is ast.Lt and pol:
                slack = 1          # T <= thr - 1 = 63
            elif opc is ast.Gt and not pol or opc is ast.LtE and pol:
                slack = 0          # T <= thr = 64
            else:
                continue
            try:
                out.append((self.T(T_), slack))
            except NotATerm:
                continue
        for o in n.ops:
            out.append((Term.var(self.canon.get(o, o) + ".n_word"), 1))      # a machine operand has n_word <= 63
        return out

    def check_width(self, n, role, node):
        ck = self.ck
        what = "%s: %s stays within the 64-bit carrier whenever it is computed in int64/uint64" % (self.k.name, role)
        if n.always_obj:
            ck.ok(self.rule_w, self.k, what + " (always Python ints)", node)
            return
        for T, slack in self.bounds(n):
            d = T + slack - n.W
            if nonneg(d, Facts()):
                ck.ok(self.rule_w, self.k, what + " [bits %s <= %s + %d]" % (n.W.show(), T.show(), slack), node)
                return
        have = sorted({"%s<=%d" % (T.show(), 64 - slack) for T, slack in self.bounds(n)})
        ck.bad(self.rule_w, self.k, what, "%s:%s needs %s bits; known %s" % (self.public.name, role, n.W.show(), ", ".join(have)), node,
               {"needs_bits": n.W.show(), "guards": [(src(g[0])[:60], g[1]) for g in self.path_guards],
                "meaning": "no guard bounds the exact result to 64 bits before it leaves int64: the intermediate silently wraps modulo 2^64"}, key_func=self.public.qualname)

    def check_carriers(self, l, r, n, role, node):
        """C19.R7: the two sides of a combining node are on one carrier.  With the storage invariant (codes are Python ints iff n_word >= 64) a word
        below 64 bits combined with a word of 64 bits or more meets as machine integer (+) Python int unless a cast guard that is true whenever either
        operand word reaches 64 makes both sides Python ints; for arrays NumPy lifts the machine side exactly, but scalar (0-d) codes come out of the
        multiplication as np.int64 and a Python int, and np.int64 (+) int beyond 2^63 raises OverflowError."""
        ck = self.ck
        if self.rule_p is None or l.ops == r.ops or not l.ops or not r.ops:
            return
        what = "%s: %s never meets a machine-integer side with a Python-int side (one operand word below 64 bits, the other at or above)" % (self.k.name, role)
        if l.always_obj and r.always_obj:
            ck.ok("C19.R7", self.k, what + " (both sides are Python ints on this path)", node)
            return
        if l.forced and r.forced:
            ck.ok("C19.R7", self.k, what + " (both sides were cast to one machine type)", node)
            return
        names = sorted({self.canon.get(o, o) for o in (l.ops | r.ops)})
        explicit = self.bounds(Node("code", Term.const(0), set()))          # guard-derived bounds only
        f_ = Facts(nonneg_syms={nm + ".n_word" for nm in names})
        bounded = all(any(nonneg(T - Term.var(nm + ".n_word"), f_) for T, slack in explicit) for nm in names)
        if bounded:
            ck.ok("C19.R7", self.k, what + " (the guards false on this path bound every operand word to 63 bits)", node)
            return
        ck.bad("C19.R7", self.k, what, "%s:%s mixes carriers" % (self.public.name, role), node,
               {"guards": [(src(g[0])[:60], g[1]) for g in self.path_guards],
                "meaning": "scalar operands: the narrow side is an np.int64 / np.uint64 scalar, the wide side a Python int; their sum / difference raises OverflowError once the wide code reaches 2^63"},
               key_func=self.public.qualname)

    def check_mix(self, l, r, n, role, node):
        ck = self.ck
        if self.rule_p is None:
            return
        self.check_carriers(l, r, n, role, node)
        what = "%s: %s never combines an int64 with a uint64 array (NumPy promotes the pair to float64, 53-bit mantissa)" % (self.k.name, role)
        if l.always_obj or r.always_obj:
            ck.ok(self.rule_p, self.k, what + " (an operand is always Python ints)", node)
            return
        if l.ops == r.ops and not (l.forced != r.forced):
            ck.ok(self.rule_p, self.k, what + " (same operand)", node, nontrivial=False)
            return
        if l.forced and r.forced:
            ck.ok(self.rule_p, self.k, what + " (both sides were cast to one machine type)", node)
            return
        # an object cast that is taken whenever signedness differs?  (such a path shows the operands as always_obj; on the
        # remaining paths the guard `x.signed != y.signed` is known false)
        for g in self.path_guards:
            for c in ast.walk(g[0]):
                if isinstance(c, ast.Compare) and isinstance(c.ops[0], ast.NotEq) and {dotted(c.left), dotted(c.comparators[0])} == {"x.signed", "y.signed"} and not g[1]:
                    ck.ok(self.rule_p, self.k, what + " (signedness known equal on this path)", node)
                    return
                if isinstance(c, ast.Compare) and isinstance(c.ops[0], ast.Eq) and {dotted(c.left), dotted(c.comparators[0])} == {"x.signed", "y.signed"} and g[1]:
                    ck.ok(self.rule_p, self.k, what + " (signedness known equal on this path)", node)
                    return
        for g in []:
            for c in []:
                if isinstance(c, ast.Compare) and isinstance(c.ops[0], ast.NotEq) and {dotted(c.left), dotted(c.comparators[0])} == {"x.signed", "y.signed"}:
                    ck.ok(self.rule_p, self.k, what + " (object cast when signedness differs)", node)
                    return
        ck.bad(self.rule_p, self.k, what, "%s:%s" % (self.public.name, role), node,
               {"guards": [(src(g[0])[:60], g[1]) for g in self.path_guards], "meaning": "for x.signed != y.signed with both words below 64 bits the operation runs in float64 and is rounded to 53 bits"}, key_func=self.public.qualname)


class _PickArm(ast.NodeTransformer):
    def __init__(self, target, arm):
        self.target, self.arm = target, arm

    def visit(self, node):
        if node is self.target:
            return self.arm
        return super().visit(node)


def _first_ifexp(e):
    """first conditional expression evaluated as part of e itself (not inside a lambda body or a comprehension)"""
    if isinstance(e, ast.IfExp):
        return e
    if isinstance(e, (ast.Lambda, ast.ListComp, ast.SetComp, ast.DictComp, ast.GeneratorExp)):
        return None
    for c in ast.iter_child_nodes(e):
        r = _first_ifexp(c)
        if r is not None:
            return r
    return None


def split_cases(expr, limit=32):
    """[(guards, expr')] : the conditional expressions of expr resolved one way or the other, with the tests as extra path guards"""
    out, work = [], [([], expr)]
    while work:
        g, e = work.pop()
        ie = _first_ifexp(e)
        if ie is None or len(out) + len(work) > limit:
            out.append((g, e))
            continue
        for arm, pol in ((ie.body, True), (ie.orelse, False)):
            e2 = _clone_with(e, ie, arm)
            work.append((g + [(ie.test, pol, ie.test, None)], e2))
    return out


def _clone_with(e, target, arm):
    """copy of e with the node `target` replaced by `arm` (identity-based)"""
    if e is target:
        return arm
    if not isinstance(e, ast.AST):
        return e
    new = type(e)()
    for fld, val in ast.iter_fields(e):
        if isinstance(val, list):
            setattr(new, fld, [_clone_with(v, target, arm) for v in val])
        else:
            setattr(new, fld, _clone_with(val, target, arm))
    for a in ("lineno", "col_offset", "end_lineno", "end_col_offset"):
        if hasattr(e, a):
            setattr(new, a, getattr(e, a))
    return new


def kernel_widths(ck, rule_w, rule_p, names=("add", "sub", "mul")):
    prog = ck.prog
    funcs.growth_rules(ck, "C07.R1", names=names)
    n = 0
    for f, w, call in funcs.public_functions(prog):
        if f.name not in names:
            continue
        if f.name not in funcs.GROWTH:
            raise AnalysisError("optimal size of %s not available" % f.name)
        nf = funcs.GROWTH[f.name][2]
        for k in funcs.kernel_candidates(prog, f, call):
            ops = [p for p in k.params[:k.params.index("n_frac")]] if "n_frac" in k.params else []
            for pf in fpaths(prog, k):
                if pf.end != "return" or pf.ret is None:
                    continue
                n += 1
                for extra, ret in split_cases(pf.ret):
                    wd = Widths(ck, rule_w, rule_p, k, nf, ops, list(pf.guards) + extra, public=f)
                    try:
                        wd.an(ret)
                    except NotATerm as e:
                        ck.unsure(rule_w, k, "kernel body is in the carrier/width vocabulary", pf.ret_stmt, str(e))
            ck.saw(k)
    if n < len(names):
        raise AnalysisError("kernels of %s not found" % (names,))


def scaling_guard(ck, rule):
    """C19.R3: in set_val the machine-integer branch must be left whenever |val| * factor can reach 2^63."""
    prog = ck.prog
    f = A.funnel(prog)
    hits = 0
    from ..common import walk_closure
    for _g, node in walk_closure(prog, f):        # set_val and the stages split off it
        if not isinstance(node, ast.If):
            continue
        sets_obj = any(isinstance(s, ast.Assign) and any(dotted(t) == "val_dtype" for t in s.targets) and dotted(s.value) == "object" for s in node.body)
        casts_val = any(isinstance(s, ast.Assign) and any(dotted(t) == "val" for t in s.targets) for s in node.body)
        if not sets_obj or not casts_val:
            continue     # real-valued branch only (the complex branch is outside C19's quantifier)
        hits += 1
        disj = node.test.values if isinstance(node.test, ast.BoolOp) and isinstance(node.test.op, ast.Or) else [node.test]
        mags = [d for d in disj if isinstance(d, ast.Compare) and isinstance(d.left, ast.Call) and dotted(d.left.func) in ("np.max", "np.min", "np.amax", "np.amin")]
        okall = bool(mags)
        why = []
        for d in mags:
            mentions_factor = any(isinstance(x, ast.Name) and x.id in ("conv_factor", "_val_limit") for x in ast.walk(d))
            rhs = d.comparators[0]
            bound = rhs.operand if isinstance(rhs, ast.UnaryOp) else rhs
            cap_ok = False
            if isinstance(bound, ast.BinOp) and isinstance(bound.op, ast.Pow):
                e = bound.right
                # exponent must be T - 1 (63): the capacity of the signed carrier
                cap_ok = isinstance(e, ast.BinOp) and isinstance(e.op, ast.Sub) and isinstance(e.right, ast.Constant) and e.right.value == 1
            elif isinstance(bound, ast.Name) and bound.id == "_val_limit":
                cap_ok = True
            if not mentions_factor:
                okall = False
                why.append("%s tests the unscaled input" % src(d)[:50])
            if not cap_ok:
                okall = False
                why.append("%s: bound is not 2^63, the int64 capacity" % src(d)[:50])
        ck.check(okall, rule, f, "set_val leaves int64/uint64 for Python ints whenever |val| * 2^n_frac can reach 2^63", "set_val:scale", node,
                 {"why": why, "meaning": "the scaled product wraps modulo 2^64 before it is clamped: huge inputs store 0 / the opposite bound with wrong flags"})
    if hits == 0:
        raise AnalysisError("set_val: carrier decision of the real-valued branch not found")
