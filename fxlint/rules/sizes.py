"""Rules about format metadata: resize (n_int, limits, dtype refresh, extended-precision indicator, restore),
_init_size three-way relation, set_best_sizes assembly and cap (C02.R2-R5, C06, C10.R1, C17.R2/R3, C18.R2)."""
import ast

from ..model import dotted, src, calls_in, kw, AnalysisError
from ..common import (fpaths, peel, actual, mkterm, mkbool, guard_assignment, same_expr, const_str, status_key, effective_owners)
from ..terms import Term, exp2, ite, NotATerm, witness, tmin, tmax
from ..paths import outcomes
from .. import anchors as A

IDENT = lambda d: d   # keep 'self.' prefixes: parameters and attributes are different symbols


def _cur(env, attr):
    """expression currently held by self.<attr> on this path"""
    return env.get("self." + attr, ast.Attribute(value=ast.Name(id="self", ctx=ast.Load()), attr=attr, ctx=ast.Load()))


def _T(e, bools=()):
    return mkterm(e, rename=IDENT, bool_names=bools)


BOOLS = ("self.signed", "signed", "self.scaled")


def _last(pf, path):
    sts = [st for st in pf.stores if st.path == path and not isinstance(st.target, ast.Subscript)]
    return sts[-1] if sts else None


def _threshold_ok(prog, expr):
    """expr denotes the carrier threshold: _n_word_max or min(_n_word_max, 64) (module constant of fxpmath)"""
    d = dotted(expr)
    if d == "_n_word_max":
        return True
    if isinstance(expr, ast.Call) and dotted(expr.func) == "min" and len(expr.args) == 2:
        ds = [dotted(a) for a in expr.args]
        cs = [a.value for a in expr.args if isinstance(a, ast.Constant)]
        return "_n_word_max" in ds and cs == [64]
    return False


def resize_rules(ck, rules):
    """rules: dict role->rule id for: nint, limits, refresh, ext, restore_raw, restore_scaled, bounds"""
    prog = ck.prog
    f = prog.func("objects.Fxp.resize")
    upd = A.dtype_refresher(prog)
    fun = A.funnel(prog)
    pfs = fpaths(prog, f)
    ck.saw(f, paths=len(pfs))
    seen = set()
    counts = {k: 0 for k in rules}

    def bad(rule, what, construct, node, detail=None):
        k = (rule, what, construct)
        if k not in seen:
            seen.add(k)
            ck.bad(rule, f, what, construct, node, detail)

    J = Term.var("J")
    memo = {}

    def M(key, fn):
        if key not in memo:
            memo[key] = fn()
        return memo[key]

    for pf in pfs:
        if pf.end == "raise":
            continue
        env = pf.env
        try:
            nw, nf = _T(_cur(env, "n_word")), _T(_cur(env, "n_frac"))
            sg = mkbool(_cur(env, "signed"), rename=IDENT, bool_names=BOOLS)
        except NotATerm as e:
            ck.unsure(rules.get("nint", "C02.R3"), f, "final sizes are terms", f.node, str(e))
            continue
        mx = M(("mx", sg, nw), lambda: ite(sg, exp2(nw - 1) - 1, exp2(nw) - 1))
        mn = M(("mn", sg, nw), lambda: ite(sg, -exp2(nw - 1), Term.const(0)))
        # ---- n_int
        if "nint" in rules:
            st = _last(pf, "self.n_int")
            if st is None:
                bad(rules["nint"], "resize recomputes n_int on every path", "normal path without a store to n_int", f.node)
            else:
                try:
                    asg_n = guard_assignment(pf.guards, rename=IDENT)
                    t = _T(st.value, BOOLS).subst(asg_n)
                    o = (nw - nf - sg).subst(asg_n)
                    ck.saw(terms=1)
                    if t != o:
                        bad(rules["nint"], "n_int = n_word - n_frac - sign bit (of the format in force when resize returns)",
                            "n_int = %s, expected %s" % (t.show(), o.show()), st.stmt, {"witness": witness(t, o)})
                    else:
                        counts["nint"] += 1
                except NotATerm as e:
                    bad(rules["nint"], "n_int is an arithmetic function of the sizes", "n_int = %s" % src(st.value)[:80], st.stmt, str(e))
        # ---- limits
        if "limits" in rules:
            from ..common import path_literals as _plits
            both = list(_plits([(g[2], g[1]) for g in pf.guards if g[2] is not None])) + list(_plits(pf.guards))
            cplx = [(t, p_) for t, p_ in both if _is_complex_test(t)]
            is_c = cplx[-1][1] if cplx else None
            scal = [(t, p_) for t, p_ in both if dotted(t) == "self.scaled"]
            is_s = scal[-1][1] if scal else None
            if is_c is None or is_s is None:
                ck.unsure(rules["limits"], f, "limits are computed under the complex / scaled case split", f.node,
                          "guards on vdtype == complex and self.scaled not found on a path")
            else:
                def mkwant():
                    cf = (Term.const(1) + J) if is_c else Term.const(1)
                    p2 = exp2(-nf)
                    sc, bi = Term.var("self.scale"), Term.var("self.bias")
                    want = {"upper": mx * cf * p2, "lower": mn * cf * p2, "precision": cf * p2}
                    if is_s:
                        want = {"upper": sc * want["upper"] + bi, "lower": sc * want["lower"] + bi, "precision": sc * want["precision"]}
                    return want
                want = M(("want", mx, mn, nf, is_c, is_s), mkwant)
                asg = guard_assignment(pf.guards, rename=IDENT)
                akey = tuple(sorted((repr(k), v.key()) for k, v in asg.items()))
                for name, o in want.items():
                    st = _last(pf, "self." + name)
                    if st is None:
                        bad(rules["limits"], "resize recomputes %s on every path" % name, "normal path without a store to %s" % name, f.node)
                        continue
                    try:
                        t0 = _T(st.value, BOOLS)
                        t = M(("ts", t0, akey), lambda: t0.subst(asg))
                    except NotATerm as e:
                        bad(rules["limits"], "%s is an arithmetic function of the format" % name, "%s = %s" % (name, src(st.value)[:80]), st.stmt, str(e))
                        continue
                    o2 = M(("os", o, akey), lambda: o.subst(asg))
                    ck.saw(terms=1)
                    if t != o2:
                        bad(rules["limits"], "%s = %s" % (name, {"upper": "max code * 2^-n_frac", "lower": "min code * 2^-n_frac", "precision": "2^-n_frac"}[name])
                            + (" mapped through scale/bias" if is_s else ""),
                            "%s = %s, expected %s%s" % (name, t.show(), o2.show(), " (scaled)" if is_s else ""), st.stmt, {"witness": witness(t, o2)})
                    else:
                        counts["limits"] += 1
        # ---- dtype refresh after the last write of a format field; value re-stored after the size writes
        if "refresh" in rules:
            order = pf.order
            last_fmt = -1
            for i, (k, o) in enumerate(order):
                if k == "store" and o.path in ("self.signed", "self.n_word", "self.n_frac", "self.vdtype"):
                    last_fmt = i
            upd_idx = [i for i, (k, o) in enumerate(order) if k == "call" and prog.resolve_call(f, o.raw) == upd.qualname]
            sv_idx = [i for i, (k, o) in enumerate(order) if k == "call" and prog.resolve_call(f, o.raw) == fun.qualname]
            if not upd_idx or upd_idx[-1] < last_fmt:
                bad(rules["refresh"], "the dtype string is refreshed after the last change of signed/n_word/n_frac", "path without dtype refresh after the size writes", f.node,
                    "dtype would spell the previous format")
            elif not sv_idx or sv_idx[-1] < last_fmt:
                bad(rules["refresh"], "the value is re-stored (re-quantized into the new range) after the size writes", "path without set_val after the size writes", f.node,
                    "codes can be left outside the new format's range")
            else:
                for name in ("n_int", "upper", "lower", "precision"):
                    st = _last(pf, "self." + name)
                    if st is not None:
                        si = [i for i, (k, o) in enumerate(order) if k == "store" and o is st][0]
                        if si < last_fmt:
                            bad(rules["refresh"], "%s is computed after the size writes" % name, "%s computed before a later write of a size field" % name, st.stmt)
                counts["refresh"] += 1
        # ---- extended precision indicator
        if "ext" in rules:
            sts = [st for st in pf.stores if status_key(st.target) == ("self", "extended_prec")]
            if len(sts) != 1:
                bad(rules["ext"], "resize sets the extended-precision indicator on every path", "%d stores of status['extended_prec'] on a normal path (guards %s)" % (len(sts), [(src(g[0])[:40], g[1]) for g in pf.guards][-6:]), f.node,
                    "objects whose word length is set without passing this store keep a stale indicator")
            else:
                st = sts[0]
                gs = st.guards
                okg = False
                gpol = None
                if len(gs) == 1:
                    # the single controlling test, negations stripped (`if not n_word >= T` is the same test with the branches exchanged)
                    c, gpol = (gs[0][2] if gs[0][2] is not None else gs[0][0]), gs[0][1]
                    while isinstance(c, ast.UnaryOp) and isinstance(c.op, ast.Not):
                        c, gpol = c.operand, not gpol
                    if isinstance(c, ast.Compare) and len(c.ops) == 1:
                        l, op, r = c.left, c.ops[0], c.comparators[0]
                        if isinstance(op, ast.GtE) and dotted(l) == "self.n_word" and _threshold_ok(prog, r):
                            okg = "ge"
                        elif isinstance(op, ast.Lt) and dotted(l) == "self.n_word" and _threshold_ok(prog, r):
                            okg = "lt"
                        elif isinstance(op, ast.LtE) and _threshold_ok(prog, l) and dotted(r) == "self.n_word":
                            okg = "ge"
                        elif isinstance(op, ast.Gt) and _threshold_ok(prog, l) and dotted(r) == "self.n_word":
                            okg = "lt"
                def _unbool(e):
                    while isinstance(e, ast.Call) and dotted(e.func) == "bool" and len(e.args) == 1 and not e.keywords:
                        e = e.args[0]
                    return e
                if isinstance(_unbool(st.value), ast.Compare) and not gs:
                    # status['extended_prec'] = self.n_word >= T   (also wrapped in bool(...))
                    c = _unbool(st.raw_value)
                    if isinstance(c, ast.Compare) and len(c.ops) == 1 and isinstance(c.ops[0], ast.GtE) and dotted(c.left) == "self.n_word" and _threshold_ok(prog, c.comparators[0]):
                        okg = "direct"
                if not okg:
                    bad(rules["ext"], "the indicator is decided by n_word >= threshold (the module's word maximum, 64)", "indicator store under %s value %s" % ([(src(g[2]), g[1]) for g in gs], src(st.value)), st.stmt,
                        "indicator must be True exactly when n_word >= 64")
                elif okg != "direct":
                    val = isinstance(st.value, ast.Constant) and st.value.value
                    pol = gpol
                    expect = pol if okg == "ge" else (not pol)
                    if not isinstance(st.value, ast.Constant) or bool(val) != expect:
                        bad(rules["ext"], "the indicator is True on the n_word >= threshold branch and False on the other", "under %s (%s) stores %s" % (src(gs[0][2]), pol, src(st.value)), st.stmt)
                    else:
                        # the n_word tested is the final one
                        si = [i for i, (k, o) in enumerate(pf.order) if k == "store" and o is st][0]
                        later = [o for k, o in pf.order[si:] if k == "store" and o.path == "self.n_word"]
                        if later:
                            bad(rules["ext"], "the indicator is computed from the final word length", "n_word written after the indicator", later[0].stmt)
                        else:
                            counts["ext"] += 1
                else:
                    counts["ext"] += 1
        # ---- restore
        if "restore_raw" in rules or "restore_scaled" in rules:
            svs = [o for k, o in pf.order if k == "call" and prog.resolve_call(f, o.raw) == fun.qualname]
            for ce in svs:
                arg = ce.call.args[0] if ce.call.args else kw(ce.call, "val")
                raw = kw(ce.call, "raw", 1)
                israw = isinstance(raw, ast.Constant) and raw.value is True
                if arg is None:
                    continue
                # which case: does the argument involve arithmetic on the old value?
                old = env.get("_old_val")
                inner, casts = peel(arg)
                scaled_true = bool([g for g in pf.guards if dotted(g[0]) == "self.scaled" and g[1]])
                if scaled_true and not israw and "restore_scaled" in rules and not isinstance(inner, ast.BinOp) and dotted(inner) not in ("_old_val",) and env.get("_old_val") is not None \
                        and not (isinstance(inner, ast.Constant)):
                    bad(rules["restore_scaled"], "scaled objects are restored from the read map scale*code*2^-n_frac + bias computed with the old fraction length",
                        "restores %s" % src(arg)[:70], ce.stmt, "a value read back after the sizes were changed combines the old codes with the new fraction length")
                    continue
                if isinstance(inner, ast.BinOp):
                    narrowing = [c for c in casts if c[0] in ("astype", "np.array", "map", "int_array") and c[1] not in (None, "object", "np.object_", "float", "np.float64", "complex")]
                    if narrowing and israw and "restore_raw" in rules:
                        bad(rules["restore_raw"], "resize leaves the quantization of the re-scaled codes to set_val (no cast of its own while re-scaling)",
                            "re-scaled codes cast with %s before they are stored" % (narrowing[0],), ce.stmt,
                            "a cast to an integer type truncates the bits that are dropped: the configured rounding and the inaccuracy flag never see them")
                        continue
                    try:
                        t = _T(arg, BOOLS)
                    except NotATerm as e:
                        bad(rules.get("restore_raw"), "the restored value is an arithmetic function of the old code", src(arg)[:90], ce.stmt, str(e))
                        continue
                    ov, onf = Term.var("self.val"), Term.var("self.n_frac")
                    # old value/old n_frac are read at entry: symbols self.val / self.n_frac (before any write)
                    if israw and "restore_raw" in rules:
                        o = ov * exp2(nf - onf)
                        ck.saw(terms=1)
                        if t != o:
                            bad(rules["restore_raw"], "resize re-stores old_code * 2^(new n_frac - old n_frac) as a raw code of the new format",
                                "restores %s, expected %s" % (t.show(), o.show()), ce.stmt, {"witness": witness(t, o)})
                        else:
                            counts["restore_raw"] = counts.get("restore_raw", 0) + 1
                    elif not israw and "restore_scaled" in rules:
                        o = ov * exp2(-onf) * Term.var("self.scale") + Term.var("self.bias")
                        ck.saw(terms=1)
                        if t != o:
                            bad(rules["restore_scaled"], "scaled objects are restored from the read map scale*code*2^-n_frac + bias",
                                "restores %s, expected %s" % (t.show(), o.show()), ce.stmt, {"witness": witness(t, o)})
                        else:
                            counts["restore_scaled"] = counts.get("restore_scaled", 0) + 1
                    elif israw is False and "restore_raw" in rules and not [g for g in pf.guards if dotted(g[0]) == "self.scaled" and g[1]]:
                        bad(rules["restore_raw"], "unscaled restore passes a raw code", "set_val(%s) without raw=True" % src(arg)[:60], ce.stmt)
    for role, rule in rules.items():
        if role in ("bounds",):
            continue
        if not [k for k in seen if k[0] == rule]:
            ck.ok(rule, f, {"nint": "n_int relation holds at exit of every normal path",
                            "limits": "upper/lower/precision equal the statement's formulas on every normal path (real/complex x scaled/unscaled)",
                            "refresh": "dtype refresh and value re-store follow the last size write on every normal path",
                            "ext": "extended-precision indicator set from n_word >= threshold on every normal path",
                            "restore_raw": "restore re-scales the old code by 2^(new-old n_frac), raw",
                            "restore_scaled": "scaled restore goes through the read map"}[role] + " (%d paths)" % counts.get(role, 0))
    if "restore_scaled" in rules and counts.get("restore_scaled", 0) == 0 and not [k for k in seen if k[0] == rules["restore_scaled"]]:
        ck.bad(rules["restore_scaled"], f, "resize restores scaled objects through the read map (a path selected by self.scaled exists)", "no restore path distinguishes scaled objects", f.node,
               "a raw re-store clears the scaled indicator: after any resize a scaled object reads back without scale and bias")
    if "nint" in rules and counts["nint"] == 0 and not [k for k in seen if k[0] == rules["nint"]]:
        raise AnalysisError("resize: n_int never checked")
    ck.extra["resize_paths"] = len(pfs)
    ck.extra["exhaustive"] = True


def _is_complex_test(t):
    return isinstance(t, ast.Compare) and len(t.ops) == 1 and isinstance(t.ops[0], ast.Eq) and \
        ((dotted(t.left) or "").endswith("vdtype") and dotted(t.comparators[0]) == "complex" or
         (dotted(t.comparators[0]) or "").endswith("vdtype") and dotted(t.left) == "complex")


def fields_written_only_in_resize(ck, rule):
    """C02.R5: n_int/upper/lower/precision are written nowhere but in resize (and None in __init__);
    every other writer of signed/n_word/n_frac is followed by resize on all paths (frozen exceptions)."""
    prog = ck.prog
    derived = ("n_int", "upper", "lower", "precision")
    fmt = ("signed", "n_word", "n_frac")
    allowed_fmt_writers = {
        "objects.Fxp.__init__": "None initialisers before sizing",
        "objects.Fxp.resize": "the owner",
        "objects.Fxp._init_size": "sets signed then always calls set_best_sizes/resize",
        "objects.Fxp.set_best_sizes": "sets n_word/n_frac then always calls resize",
        A.normaliser(prog).qualname: "fills fields that are still None during construction",
    }
    for f in prog.all_funcs():
        if f.module not in ("objects", "functions"):
            continue
        for n in ast.walk(f.node):
            tg = []
            if isinstance(n, ast.Assign):
                tg = n.targets
            elif isinstance(n, (ast.AugAssign, ast.AnnAssign)):
                tg = [n.target]
            for t in tg:
                for tt in (t.elts if isinstance(t, (ast.Tuple, ast.List)) else [t]):
                    owners = effective_owners(prog, f)
                    if isinstance(tt, ast.Attribute) and tt.attr in derived:
                        if owners == {"objects.Fxp.resize"}:
                            continue
                        if f.qualname == "objects.Fxp.__init__" and isinstance(n, ast.Assign) and isinstance(n.value, ast.Constant) and n.value.value is None:
                            continue
                        ck.bad(rule, f, "%s is computed only by resize" % tt.attr, "%s writes %s" % (f.qualname, src(tt)), n,
                               "metadata written outside resize is not re-derived from the format")
                    if isinstance(tt, ast.Attribute) and tt.attr in fmt and f.cls == "Fxp" or \
                            isinstance(tt, ast.Attribute) and tt.attr in fmt and dotted(tt.value) not in (None, "self") and f.module == "functions":
                        if owners <= set(allowed_fmt_writers):
                            continue
                        ck.bad(rule, f, "format fields are changed only through resize", "%s writes %s" % (f.qualname, src(tt)), n,
                               "n_int/limits/dtype are not refreshed and the stored codes are not re-quantized")
    # _init_size and set_best_sizes always end in resize / set_best_sizes
    rz = prog.func("objects.Fxp.resize")
    for q, must in (("objects.Fxp._init_size", ("resize", "set_best_sizes")), ("objects.Fxp.set_best_sizes", ("resize",))):
        f = prog.func(q)

        def pred(s, must=must):
            return any(isinstance(c.func, ast.Attribute) and c.func.attr in must and dotted(c.func.value) == "self" for c in calls_in(s)) \
                if not isinstance(s, (ast.If, ast.For, ast.While, ast.Try, ast.With)) else False
        ends = outcomes(f.node.body, pred)
        good = all(h for k, h in ends if k in ("fall", "return"))
        ck.check(good, rule, f, "%s finishes through %s on every normal path" % (f.name, "/".join(must)), "%s can return without calling %s" % (f.name, "/".join(must)), f.node,
                 "sizes set here would never be turned into n_int/limits/dtype")
    # the normaliser's writes are guarded by `is None`
    fm = A.normaliser(prog)
    for n in ast.walk(fm.node):
        if isinstance(n, ast.If):
            for s in n.body:
                if isinstance(s, ast.Assign):
                    for t in s.targets:
                        for tt in (t.elts if isinstance(t, ast.Tuple) else [t]):
                            if isinstance(tt, ast.Attribute) and tt.attr in fmt and dotted(tt.value) == "self":
                                tst = n.test
                                okg = isinstance(tst, ast.Compare) and isinstance(tst.ops[0], ast.Is) and dotted(tst.left) == "self." + tt.attr \
                                    and isinstance(tst.comparators[0], ast.Constant) and tst.comparators[0].value is None
                                ck.check(okg, rule, fm, "the normaliser only fills format fields that are still None", "%s under %s" % (src(s)[:60], src(tst)), s)


def _none_eval(test, pattern):
    """truth of a test under an assignment {param: is_none} ; None when the test does not only talk about None-ness"""
    if isinstance(test, ast.UnaryOp) and isinstance(test.op, ast.Not):
        v = _none_eval(test.operand, pattern)
        return None if v is None else (not v)
    if isinstance(test, ast.BoolOp):
        vals = [_none_eval(v, pattern) for v in test.values]
        if isinstance(test.op, ast.And):
            if any(v is False for v in vals):
                return False
            return True if all(v is True for v in vals) else None
        if any(v is True for v in vals):
            return True
        return False if all(v is False for v in vals) else None
    if isinstance(test, ast.Compare) and len(test.ops) == 1 and isinstance(test.comparators[0], ast.Constant) and test.comparators[0].value is None:
        d = dotted(test.left)
        if d in pattern and isinstance(test.ops[0], (ast.Is, ast.IsNot)):
            return pattern[d] if isinstance(test.ops[0], ast.Is) else (not pattern[d])
    return None


def init_size_relation(ck, rule):
    """C06.R1 / C02.R3: whenever n_int and exactly one of n_word / n_frac are given, _init_size and resize derive the third by
    n_word = n_int + n_frac + [signed] with the signedness in force (decided per path over the None-patterns its guards admit)."""
    prog = ck.prog
    from itertools import product as _prod
    for q in ("objects.Fxp._init_size", "objects.Fxp.resize"):
        f = prog.func(q)
        pfs = fpaths(prog, f)
        ck.saw(f, paths=len(pfs))
        derived = {"n_word": 0, "n_frac": 0}
        failed = False
        for pf in pfs:
            if pf.end == "raise" or failed:
                continue
            # dtype route of resize re-binds all sizes from the parser: not a None-pattern of the parameters
            if any(isinstance(st.value, ast.Subscript) and isinstance(st.value.value, ast.Call) and isinstance(st.value.value.func, ast.Attribute) and st.path in ("n_word", "n_frac", "signed") for st in pf.stores):
                continue
            for vals in _prod((True, False), repeat=3):
                pattern = dict(zip(("n_word", "n_frac", "n_int"), vals))
                if pattern["n_int"] or pattern["n_word"] == pattern["n_frac"]:
                    continue      # need: n_int given and exactly one other size given
                if any(_none_eval(g[0], pattern) is (not g[1]) for g in pf.guards):
                    continue      # pattern contradicts this path
                missing = "n_word" if pattern["n_word"] else "n_frac"
                sts = [st for st in pf.stores if st.path == missing and st.depth == 0]
                if not sts:
                    ck.bad(rule, f, "when n_int and one other size are given, the third follows arithmetically", "%s: %s stays None although n_int and %s are given (guards %s)" % (f.name, missing, "n_frac" if missing == "n_word" else "n_word", [(src(g[0])[:40], g[1]) for g in pf.guards if "None" in src(g[0])][:6]), f.node,
                           "the given integer length is ignored")
                    failed = True
                    break
                st = sts[-1]
                asg = guard_assignment(pf.guards, rename=IDENT)
                try:
                    t = _T(st.value, BOOLS).subst(asg)
                    # signedness of the format in force when the function returns
                    sgexpr = pf.env.get("self.signed")
                    sg = mkbool(sgexpr, rename=IDENT, bool_names=BOOLS) if sgexpr is not None else Term.bvar("self.signed")
                    sg = sg.subst(asg)
                except NotATerm as e:
                    ck.unsure(rule, f, "derived size is a term", st.stmt, str(e))
                    continue
                ni, nf, nw = Term.var("n_int"), Term.var("n_frac"), Term.var("n_word")
                o = {"n_word": ni + nf + sg, "n_frac": nw - ni - sg}[missing]
                ck.saw(terms=1)
                if t != o:
                    ck.bad(rule, f, "when n_int and one other size are given, %s follows arithmetically (%s) with the signedness in force" % (missing, {"n_word": "n_int + n_frac + [signed]", "n_frac": "n_word - n_int - [signed]"}[missing]),
                           "%s = %s, expected %s" % (missing, t.show(), o.show()), st.stmt, {"witness": witness(t, o)})
                    failed = True
                    break
                derived[missing] += 1
        if not failed:
            ck.check(derived["n_word"] > 0 and derived["n_frac"] > 0, rule, f, "%s derives the missing size from n_int in both directions on every admitting path (%d / %d path-cases)" % (f.name, derived["n_word"], derived["n_frac"]),
                     "derivations found: %s" % derived, f.node, "n_int given with one other size must determine the third")


def _elif_chain(n):
    out = [n]
    while len(out[-1].orelse) == 1 and isinstance(out[-1].orelse[0], ast.If):
        out.append(out[-1].orelse[0])
    return out


def _missing_one(test):
    """'n_word' for `n_word is None and n_frac is not None and n_int is not None` etc."""
    if not (isinstance(test, ast.BoolOp) and isinstance(test.op, ast.And) and len(test.values) == 3):
        return None
    none, notnone = [], []
    for v in test.values:
        if isinstance(v, ast.Compare) and len(v.ops) == 1 and isinstance(v.comparators[0], ast.Constant) and v.comparators[0].value is None:
            d = dotted(v.left)
            if isinstance(v.ops[0], ast.Is):
                none.append(d)
            elif isinstance(v.ops[0], ast.IsNot):
                notnone.append(d)
    if len(none) == 1 and len(notnone) == 2 and set(none + notnone) == {"n_word", "n_frac", "n_int"}:
        return none[0]
    return None


# ------------------------------------------------------------------------------------------------ set_best_sizes (C06)

def best_sizes_assembly(ck, rule_asm, rule_cap, rule_search):
    """C06.R2 assembly formulas, C06.R3 word cap, C06.R4 the integer-length search is integer arithmetic."""
    prog = ck.prog
    f = prog.func("objects.Fxp.set_best_sizes")
    pfs = fpaths(prog, f)
    ck.saw(f, paths=len(pfs))
    nmax = Term.var("n_word_max")
    n_asm = 0
    seen = set()

    def bad(rule, what, construct, node, detail=None):
        k = (rule, construct)
        if k not in seen:
            seen.add(k)
            ck.bad(rule, f, what, construct, node, detail)

    for pf in pfs:
        if pf.end == "raise":
            continue
        from ..common import none_state as _ns0
        gval = [x for x in (_ns0([(g[2], g[1])], "val") for g in pf.guards if g[2] is not None) if x is not None]
        is_none = bool(gval and gval[0])
        # ---- cap (all paths): last store to self.n_word is min(prev, n_word_max); closing resize passes no sizes
        wst = [st for st in pf.stores if st.path == "self.n_word"]
        if not wst:
            bad(rule_cap, "set_best_sizes sets the word length", "path without a store to n_word", f.node)
            continue
        last = peel(wst[-1].value)[0]
        if isinstance(last, ast.Call) and dotted(last.func) == "int" and last.args:
            last = peel(last.args[0])[0]
        okcap = isinstance(last, ast.Call) and dotted(last.func) in ("min", "np.minimum") and len(last.args) == 2 and any(dotted(a) == "n_word_max" for a in last.args)
        if not okcap:
            bad(rule_cap, "an inferred word never exceeds the configured maximum: the last definition of n_word is min(n_word, n_word_max)", "final n_word = %s" % src(wst[-1].raw_value)[:70], wst[-1].stmt,
                "values needing more bits than the maximum get a word longer than the configuration allows")
        rz = [ce for ce in pf.calls if isinstance(ce.raw.func, ast.Attribute) and ce.raw.func.attr == "resize" and dotted(ce.raw.func.value) == "self"]
        if not rz:
            bad(rule_cap, "set_best_sizes finishes through resize", "path without resize", f.node)
        else:
            c = rz[-1].raw
            passes = [k.arg for k in c.keywords if k.arg in ("n_word", "n_frac", "n_int", "signed", "dtype")] + (["positional"] if c.args else [])
            if passes:
                bad(rule_cap, "the closing resize takes the sizes just stored (passes none itself)", "resize(%s)" % ", ".join(passes), c, "sizes passed here override the capped ones")
            si = [i for i, (k, o) in enumerate(pf.order) if k == "store" and o is wst[-1]][0]
            ri = [i for i, (k, o) in enumerate(pf.order) if k == "call" and o is rz[-1]][0]
            if ri < si:
                bad(rule_cap, "the cap is applied before the closing resize", "n_word capped after resize", wst[-1].stmt)
        if is_none or pf.zero_loops:
            continue
        # ---- search bounds: both length searches run up to n_word_max - sign, whatever word the caller asked for (the cap is applied afterwards,
        #      in the assembly); a search cut short at the requested word under-estimates the integer length
        sgn = guard_assignment(pf.guards, rename=IDENT)
        from ..common import path_literals as _pl
        for g in pf.guards:
            if not isinstance(g[3], ast.While):
                continue
            lits = []
            from ..common import _implied_literals
            _implied_literals(g[0], g[1], lits)
            for t, pol in lits:
                if isinstance(t, ast.Compare) and len(t.ops) == 1 and isinstance(t.ops[0], (ast.Lt, ast.LtE)) and pol:
                    if "n_word" not in src(t.comparators[0]):
                        continue          # not a length bound (error tolerance etc.)
                    try:
                        b = _T(t.comparators[0], BOOLS + ("sign",)).subst(sgn)
                    except NotATerm:
                        b = Term.var("<%s>" % src(t.comparators[0])[:60])
                    sg_atom0 = Term.bvar("self.signed").subst(sgn)
                    try:
                        sign_t = _T(pf.env.get("sign", ast.Constant(value=0)), BOOLS + ("sign",)).subst(sgn)
                    except NotATerm:
                        sign_t = sg_atom0
                    if b != nmax - sign_t and b != nmax - sg_atom0:
                        bad(rule_asm, "the length searches are bounded by n_word_max - sign (not by the requested word)", "search bound %s" % b.show()[:80], g[3],
                            "with a short requested word the fraction search stops early and the integer length is estimated on a truncated value")
        # ---- assembly
        from ..common import none_state as _ns
        gw = [x for x in (_ns([(g[2], g[1])], "n_word") for g in pf.guards if g[2] is not None and isinstance(g[3], ast.If)) if x is not None]
        if not gw:
            continue
        word_inferred = gw[-1]
        fst = [st for st in pf.stores if st.path == "self.n_frac"]
        if len(wst) < 2 or not fst:
            continue
        try:
            F = _T(fst[-1].value, BOOLS + ("sign",)).subst(sgn)
            W = _T(wst[-2].value, BOOLS + ("sign",)).subst(sgn)
        except NotATerm as e:
            ck.unsure(rule_asm, f, "assembled sizes are terms", fst[-1].stmt, str(e))
            continue
        sg_atom = Term.bvar("self.signed").subst(sgn)
        ck.saw(terms=2)
        n_asm += 1
        # F must be min{A, E}; one argument A = LIMIT - sign - I with I a max(.,0) integer requirement
        mins = [a for a in F.atoms() if a[0] == "min"]
        rest = F - (Term.atom(mins[0]) if len(mins) == 1 else Term())
        if len(mins) != 1 or rest != Term():
            bad(rule_asm, "the fraction length is min(room left by the integer part, exact fraction length)", "n_frac = %s" % F.show()[:120], fst[-1].stmt,
                "without the min the fraction either ignores the word limit or exceeds the exact length")
            continue
        args = mins[0][1]
        if word_inferred:
            limit = nmax
        else:
            try:
                limit = _T(pf.env.get("n_word", ast.Name(id="n_word", ctx=ast.Load())), BOOLS + ("sign",)).subst(sgn)
            except NotATerm:
                limit = Term.var("n_word")
        found = None
        for a in args:
            I = limit - sg_atom - a
            # I should be a single max(...) atom (non-negative integer requirement)
            if len(I.m) == 1:
                (mono, c), = I.m.items()
                if c == 1 and len(mono) == 1 and mono[0][0][0] == "max" and any(x.is_const() and x.const_value() == 0 for x in mono[0][0][1]):
                    found = I
        if found is None:
            bad(rule_asm, "n_frac leaves room for the integer part: one argument of the min is %s - sign - n_int with n_int = max(required, 0)" % ("n_word_max" if word_inferred else "n_word"),
                "n_frac = %s" % F.show()[:140], fst[-1].stmt, "the largest fraction that still leaves room for the integer part is limit - sign - n_int; anything else overflows or wastes bits (negative n_frac must stay possible)")
            continue
        if word_inferred:
            o = F + found + sg_atom
            if W != o:
                bad(rule_asm, "with n_word inferred the word is minimal: n_word = n_frac + n_int + sign", "n_word = %s, expected %s" % (W.show()[:100], o.show()[:100]), wst[-2].stmt,
                    {"meaning": "the word is not the smallest that holds the values"})
        else:
            if W != limit:
                bad(rule_asm, "a given n_word is kept", "n_word = %s" % W.show()[:80], wst[-2].stmt)
    if n_asm == 0 and not seen:
        raise AnalysisError("set_best_sizes: size-assembly block not recognised on any path")
    if not [k for k in seen if k[0] == rule_asm]:
        ck.ok(rule_asm, f, "size assembly: n_frac = min(limit - sign - n_int, exact) and minimal word on all %d value paths" % n_asm)
    if not [k for k in seen if k[0] == rule_cap]:
        ck.ok(rule_cap, f, "word cap min(n_word, n_word_max) precedes the argument-less closing resize on every path")
    # ---- search arithmetic: the integer-length search is a bit-shift loop, no logarithm anywhere in the size inference
    from ..common import walk_closure
    floaty = []
    shift_loops = 0
    for g_, n in walk_closure(prog, f):
        if isinstance(n, ast.Call) and dotted(n.func) in ("np.log2", "math.log2", "np.log", "math.log", "np.log10", "math.log10"):
            # Decimal precision estimate lives in the normaliser, not here
            floaty.append(n)
        if isinstance(n, ast.While) and any(isinstance(x, ast.BinOp) and isinstance(x.op, ast.RShift) for x in ast.walk(n)):
            shift_loops += 1
    ck.check(not floaty, rule_search, f, "the integer-length search is exact integer arithmetic (shifts and comparisons, no logarithm)", "uses %s" % (src(floaty[0])[:60] if floaty else ""), floaty[0] if floaty else None,
             "log2 of a double rounds at powers of two near 2^48..2^53: the word comes out one bit short")
    ck.check(shift_loops >= 1, rule_search, f, "the integer length is found by the bit-shift search loop", "no shift-based search loop in the size inference", f.node)


def word_max_chain(ck, rule):
    """C06.R3: the configured maximum reaches set_best_sizes: __init__ -> _init_size -> set_best_sizes, after config.update."""
    prog = ck.prog
    init = prog.func("objects.Fxp.__init__")
    isz = prog.func("objects.Fxp._init_size")
    found = False
    for c in calls_in(init.node):
        if isinstance(c.func, ast.Attribute) and c.func.attr == "_init_size":
            found = True
            v = kw(c, "n_word_max")
            ck.check(dotted(v) == "self.config.n_word_max", rule, init, "the constructor passes the configured n_word_max to the size initialiser", "n_word_max=%s" % (src(v) if v is not None else None), c,
                     "the module default would be used instead of the object's configuration")
            v = kw(c, "max_error")
            ck.check(dotted(v) == "self.config.max_error", rule, init, "the constructor passes the configured max_error", "max_error=%s" % (src(v) if v is not None else None), c, nontrivial=False)
            # after config.update
            upd = [x for x in calls_in(init.node) if dotted(x.func) == "self.config.update"]
            ck.check(bool(upd) and upd[0].lineno < c.lineno, rule, init, "configuration keywords are applied before sizes are inferred", "config.update after _init_size", c)
    ck.check(found, rule, init, "the constructor calls the size initialiser", "no _init_size call", init.node)
    for c in calls_in(isz.node):
        if isinstance(c.func, ast.Attribute) and c.func.attr == "set_best_sizes":
            v = kw(c, "n_word_max")
            ck.check(dotted(v) == "n_word_max", rule, isz, "_init_size forwards n_word_max to set_best_sizes", "n_word_max=%s" % (src(v) if v is not None else None), c)
            v = kw(c, "raw")
            ck.check(dotted(v) == "raw", rule, isz, "_init_size forwards raw to set_best_sizes", "raw=%s" % (src(v) if v is not None else None), c, nontrivial=False)


def returned_sizes_are_callers(ck, rule):
    """C06.R5: the sizes the normaliser hands back (return_sizes=True) are the sizes the caller gave - self.signed / self.n_word / self.n_frac as they
    were on entry - for every non-string input; utils.str2num passes its size arguments through unchanged for non-string values.  (set_best_sizes takes a
    returned size that is not None for 'given' and skips the search for it.)"""
    prog = ck.prog
    from ..common import infeasible
    fm = A.normaliser(prog)
    pfs = fpaths(prog, fm)
    ck.saw(fm, paths=len(pfs))
    n_ok = 0
    seen = set()
    for pf in pfs:
        if pf.end != "return" or pf.ret is None or not isinstance(pf.ret, ast.Tuple) or len(pf.ret.elts) != 6:
            continue
        # string routes legitimately take sizes from the parsed text; Decimal inputs derive n_frac from the decimal context's precision
        if any(isinstance(c.raw.func, ast.Attribute) and c.raw.func.attr == "str2num" for c in pf.calls):
            continue
        from ..common import path_literals as _pl
        if any(isinstance(t, ast.Call) and dotted(t.func) == "isinstance" and len(t.args) == 2 and dotted(t.args[1]) == "Decimal" and pol for t, pol in _pl(pf.guards)):
            continue
        for i, attr in ((3, "self.signed"), (4, "self.n_word"), (5, "self.n_frac")):
            e = pf.ret.elts[i]
            if dotted(e) != attr:
                k = (attr, src(e)[:60])
                if k not in seen:
                    seen.add(k)
                    ck.bad(rule, fm, "for numeric and fixed-point inputs the normaliser reports the caller's own sizes (None = to be inferred)", "returns %s = %s" % (attr.split(".")[1], src(e)[:60]), pf.ret_stmt,
                           "a size taken from the value (e.g. from a source Fxp) is mistaken for a size the caller fixed: the minimal-format search is skipped")
        n_ok += 1
    if not seen:
        ck.ok(rule, fm, "on all %d non-string returning paths the reported sizes are self.signed / self.n_word / self.n_frac as given" % n_ok)
    f = prog.func("utils.str2num")
    for pf in fpaths(prog, f):
        if pf.end != "return" or pf.ret is None or not isinstance(pf.ret, ast.Tuple):
            continue
        from ..common import isinstance_state, path_literals
        is_str = is_seq = None
        for t, pol in path_literals(pf.guards):
            if isinstance(t, ast.Call) and dotted(t.func) == "isinstance" and len(t.args) == 2 and dotted(t.args[0]) == "x":
                ts = [dotted(x) for x in (t.args[1].elts if isinstance(t.args[1], ast.Tuple) else [t.args[1]])]
                if "str" in ts:
                    is_str = pol
                if "list" in ts or "tuple" in ts:
                    is_seq = pol
        if is_str is False and is_seq is False:
            got = [dotted(e) for e in pf.ret.elts]
            ck.check(got[1:4] == ["signed", "n_word", "n_frac"] and got[0] == "x", rule, f, "str2num passes a non-string value and the size arguments through unchanged",
                     "returns %s" % got, pf.ret_stmt, "a numeric element of a list would fix a size (e.g. n_frac = 0 for an int) and pre-empt the inference over the whole list")


def no_size_rejection(ck, rule):
    """C07.R7 / C02: the size initialiser and resize accept every integer size: no raise is guarded by a comparison of n_int / n_frac / n_word with a constant
    (negative integer or fraction lengths are legitimate formats, e.g. results of the growth rules)."""
    prog = ck.prog
    from ..common import path_literals
    for q in ("objects.Fxp._init_size", "objects.Fxp.resize", "objects.Fxp.__init__"):
        f = prog.func(q)
        for pf in fpaths(prog, f):
            if pf.end != "raise" or pf.ret_stmt is None:
                continue
            depth0 = True
            for t, pol in path_literals([g for g in pf.guards if g[3] is not None][-3:]):
                if isinstance(t, ast.Compare) and len(t.ops) == 1 and isinstance(t.ops[0], (ast.Lt, ast.LtE, ast.Gt, ast.GtE)):
                    names = {dotted(x) for x in [t.left] + list(t.comparators)}
                    consts = [x for x in [t.left] + list(t.comparators) if isinstance(x, ast.Constant) and isinstance(x.value, int)]
                    if names & {"n_int", "n_frac", "n_word", "self.n_int", "self.n_frac"} and consts:
                        ck.bad(rule, f, "every integer size is accepted (negative n_int / n_frac are legitimate formats)", "raise guarded by %s" % src(t), pf.ret_stmt,
                               "operations whose growth rule yields such a size would raise instead of returning the exact result")
        ck.saw(f)
    ck.ok(rule, "objects.Fxp._init_size / resize", "no raise is guarded by a range test on n_int / n_frac / n_word", nontrivial=False)
