"""C06 - size inference picks the smallest format that holds the values exactly."""
from . import sizes, conv

from . import routes, fresh, flags, sizes, conv, dtype, carriers, funcs, ops, strings, pipeline, widths

EXPLANATION = (
    "Decided clauses: R1 when n_int is given with one other size the third follows by n_word = n_int + n_frac + [signed] in _init_size and resize (term equality, with the "
    "resolved signedness); R2 the size-assembly block of set_best_sizes normalises, on every value path, to n_frac = min(limit - sign - n_int, exact) with limit = n_word_max "
    "(word inferred) or the given n_word, n_int = max(required, 0), and n_word = n_frac + n_int + sign when inferred (minimal word); R3 the last definition of n_word is "
    "min(n_word, n_word_max) before an argument-less closing resize, and n_word_max flows from config through __init__ -> _init_size -> set_best_sizes after config.update; "
    "R4 the integer-length search is the bit-shift loop (no logarithm); inferred sizes derive from the normaliser's output and the object holds the caller's sizes when it is "
    "consulted. DECLINED (not decided): that the two search loops return the minimal exact fraction length and integer length - loop arithmetic over float residues "
    "and shifted integers has no invariant generator in reach; this is the larger half of C06."
    ' Added after the third round of seeded changes: both length searches are bounded by n_word_max - sign (not by the requested word); read-back conversions (C16.R2); no class-level state (C20.R7).'
    ' Added after the fourth round of seeded changes: the inaccuracy comparison is made on what was stored (C04.R2); C20.R8 objects carry only the documented attributes and no function writes module-level containers (no caches / memos that go stale).'
    ' Added after the fifth round of seeded changes: constructor state (C20.R2); C20.R8 also forbids mutable default arguments and private attributes hung on operands (x._cache, x.__dict__[...]).'
    ' Added after the sixth round of seeded changes: C20.R8 also covers class-level containers (memo shared by every instance, also when written through a local alias); module / class constants that are mutable containers are only treated as constants when they never escape a read position.')
ASSUMPTIONS = ["the fraction search returns E = exact fraction length and the shift loop the required integer bits (the declined part)"]
TRUSTED = ["CPython ast", "fxlint term normaliser"]


def run(ck):
    sizes.init_size_relation(ck, "C06.R1")
    sizes.best_sizes_assembly(ck, "C06.R2", "C06.R3", "C06.R4")
    sizes.word_max_chain(ck, "C06.R3")
    sizes.returned_sizes_are_callers(ck, "C06.R5")
    conv.sizes_use_transformed_value(ck, "C06.R4")
    sizes.resize_rules(ck, {"nint": "C02.R3"})
    ops.conversions(ck, "C16.R2")                     # the object returns the supplied value: read-back for inferred (also negative) n_frac
    fresh.no_class_state_writes(ck, "C20.R7")         # inference starts from the same state for every object
    flags.inaccuracy_guard(ck, "C04.R2")                # "quantized and flagged inexact"
    fresh.no_hidden_state(ck, "C20.R8")                  # results depend on the documented state only (no caches / memos)
    fresh.constructor_state(ck, "C20.R2")
