"""Route / ownership rules: write funnel, carrier ladder, who-may-write-codes (C01.R1/R4/R5, C02.R1/R7)."""
import ast

from ..model import dotted, src, calls_in, kw, AnalysisError
from ..common import fpaths, peel, actual, fxp_names_in, same_expr, effective_owners, closure_funcs
from .. import anchors as A

CARRIERS = ["int", "float", "complex", "np.ndarray", "np.generic", "list", "tuple", "str", "Fxp"]
STORING_ROUTES = ["__init__", "__call__", "__setitem__", "equal", "from_bin", "resize"]


def _val_writes(f):
    """(node, kind, target_base) for every write to <expr>.val in f: attribute store, subscript store, in-place method"""
    out = []
    for n in ast.walk(f.node):
        tgts = []
        if isinstance(n, ast.Assign):
            tgts = n.targets
        elif isinstance(n, (ast.AugAssign, ast.AnnAssign)):
            tgts = [n.target]
        for t in tgts:
            for tt in (t.elts if isinstance(t, (ast.Tuple, ast.List)) else [t]):
                if isinstance(tt, ast.Attribute) and tt.attr == "val":
                    out.append((n, "attr", dotted(tt.value), tt))
                elif isinstance(tt, ast.Subscript) and isinstance(tt.value, ast.Attribute) and tt.value.attr == "val":
                    out.append((n, "item", dotted(tt.value.value), tt))
        if isinstance(n, ast.Call) and isinstance(n.func, ast.Attribute) and isinstance(n.func.value, ast.Attribute) \
                and n.func.value.attr == "val" and n.func.attr in ("sort", "fill", "put", "itemset", "resize", "partition", "byteswap", "setfield"):
            out.append((n, "inplace:" + n.func.attr, dotted(n.func.value.value), n))
    return out


def write_funnel(ck, rule):
    """C01.R1: each public storing route reaches set_val, forwards its own raw/index parameter, and does not
    write the value buffer itself."""
    prog = ck.prog
    fun = A.funnel(prog)
    total_sites = 0
    for f in prog.all_funcs():
        for c in calls_in(f.node):
            if isinstance(c.func, ast.Attribute) and c.func.attr == fun.name:
                total_sites += 1
    ck.extra["set_val_call_sites"] = total_sites
    for name in STORING_ROUTES:
        f = prog.method("Fxp", name)
        sites = [c for c in calls_in(f.node) if isinstance(c.func, ast.Attribute) and c.func.attr == fun.name and dotted(c.func.value) == "self"]
        ck.saw(f, calls=len(sites))
        if not sites:
            ck.bad(rule, f, "route %s stores through the write funnel set_val" % name, "%s does not call self.set_val" % name, f.node,
                   "the route bypasses quantization (scale/round/overflow) or never stores")
            continue
        for own in ("raw", "index"):
            if own in f.params:
                fw = [c for c in sites if dotted(kw(c, own)) == own or (own == "raw" and len(c.args) > 1 and dotted(c.args[1]) == "raw")]
                # at least the site(s) that store the user's value must forward; require every site to forward when it passes the kw at all
                wrong = [c for c in sites if kw(c, own) is not None and dotted(kw(c, own)) != own]
                missing = [c for c in sites if kw(c, own) is None and not (own == "raw" and len(c.args) > 1)]
                if wrong:
                    ck.bad(rule, f, "route %s forwards its %s parameter to set_val" % (name, own), "%s passes %s=%s" % (name, own, src(kw(wrong[0], own))), wrong[0],
                           "the caller's %s choice is ignored on this route" % own)
                elif missing and not fw:
                    ck.bad(rule, f, "route %s forwards its %s parameter to set_val" % (name, own), "%s drops %s" % (name, own), missing[0],
                           "the caller's %s choice is ignored on this route" % own)
                elif missing:
                    ck.bad(rule, f, "route %s forwards its %s parameter at every set_val call" % (name, own), "%s drops %s at one call" % (name, own), missing[0])
                else:
                    ck.ok(rule, f, "route %s forwards %s at %d set_val call(s)" % (name, own, len(sites)))
            else:
                # routes without the parameter may pass constants; but value routes must not claim raw=True for user values
                if name in ("__call__", "__setitem__"):
                    for c in sites:
                        r = kw(c, "raw")
                        if r is not None and not (isinstance(r, ast.Constant) and r.value is False):
                            ck.bad(rule, f, "route %s stores user values, not raw codes" % name, "%s passes raw=%s" % (name, src(r)), c)
        # the user's value parameter is what gets stored (first positional of set_val derives from it)
        if name in ("__call__", "__setitem__", "from_bin"):
            vp = {"__call__": "val", "__setitem__": "value", "from_bin": "val"}[name]
            if vp in f.params:
                good = any(c.args and vp in {n.id for n in ast.walk(c.args[0]) if isinstance(n, ast.Name)} for c in sites)
                if not good:
                    # through locals: the substituted first argument of the set_val call on some path derives from the parameter
                    for pf in fpaths(prog, f):
                        for ce in pf.calls:
                            if isinstance(ce.raw.func, ast.Attribute) and ce.raw.func.attr == fun.name and ce.call.args \
                                    and vp in {n.id for n in ast.walk(ce.call.args[0]) if isinstance(n, ast.Name)}:
                                good = True
                ck.check(good, rule, f, "route %s passes its value parameter to set_val" % name, "%s does not store %s" % (name, vp), f.node)
        if name == "__init__":
            # val and raw from kwargs
            good = any(c.args and dotted(c.args[0]) == "val" for c in sites)
            ck.check(good, rule, f, "the constructor stores its val argument through set_val", "constructor set_val call does not pass val", f.node)
    # no route writes the buffer itself
    for name in STORING_ROUTES + ["like"]:
        f0 = prog.method("Fxp", name)
        for f in closure_funcs(prog, f0):
          if effective_owners(prog, f) == {fun.qualname}:
            continue
          for n, kind, base, t in _val_writes(f):
            if name == "__init__" and isinstance(n, ast.Assign) and isinstance(n.value, ast.Constant) and n.value.value is None:
                continue
            ck.bad(rule, f, "storing routes never write the value buffer themselves", "%s writes %s" % (name, src(t)), n,
                   "a direct store bypasses scale/round/overflow and the flags")
    if False:
        if False:
            pass
    ck.ok(rule, fun, "%d call sites of set_val in the package; the %d public storing routes all go through it" % (total_sites, len(STORING_ROUTES)), nontrivial=False)


def carrier_ladder(ck, rule):
    """C01.R4: the normaliser's isinstance ladder covers the statement's carriers and ends in raise."""
    prog = ck.prog
    fm = A.normaliser(prog)
    vp = [p for p in fm.params if p != "self"][0]
    # top-level if/elif chain on isinstance(val, ...)
    chain = None
    for st in fm.node.body:
        if isinstance(st, ast.If):
            tests = []
            cur = st
            while True:
                tests.append(cur)
                if len(cur.orelse) == 1 and isinstance(cur.orelse[0], ast.If):
                    cur = cur.orelse[0]
                else:
                    break
            isinst = [t for t in tests if _isinstance_types(t.test, vp) is not None]
            if len(isinst) >= 3:
                chain = (tests, cur.orelse)
                break
    if chain is None:
        ck.unsure(rule, fm, "input normaliser dispatches on the carrier with an isinstance ladder", fm.node, "ladder not found")
        return
    tests, final_else = chain
    covered = set()
    none_case = False
    for t in tests:
        ts = _isinstance_types(t.test, vp)
        if ts is not None:
            covered |= set(ts)
        elif isinstance(t.test, ast.Compare) and dotted(t.test.left) == vp and isinstance(t.test.ops[0], ast.Is):
            none_case = True
    for c in CARRIERS:
        ck.check(c in covered, rule, fm, "carrier %s is accepted by the input normaliser" % c,
                 "isinstance ladder has no arm for %s" % c, tests[0],
                 "values supplied as %s are rejected or mis-handled" % c)
    ck.check(none_case, rule, fm, "None (empty object) is handled by the normaliser", "no `val is None` arm", tests[0], nontrivial=False)
    ends_raise = any(isinstance(s, ast.Raise) for s in final_else)
    ck.check(ends_raise, rule, fm, "an unsupported input type raises instead of being stored", "ladder's final else does not raise", tests[-1])
    # the ladder result is converted to ndarray before use
    ck.saw(fm)


def _isinstance_types(test, vp):
    if isinstance(test, ast.Call) and dotted(test.func) == "isinstance" and len(test.args) == 2 and dotted(test.args[0]) == vp:
        t = test.args[1]
        ts = t.elts if isinstance(t, ast.Tuple) else [t]
        return [dotted(x) for x in ts if dotted(x)]
    return None


def no_store_into_immutable(ck, rule):
    """C01.R5 / C20.R5: no subscript-store (or in-place mutation) into a parameter container in utils' string
    parsers and the normaliser (tuple input => TypeError; list input => caller's list overwritten)."""
    prog = ck.prog
    n_sites = 0
    for f in prog.all_funcs():
        if f.module not in ("utils", "objects", "functions"):
            continue
        params = set(f.params)
        if not params:
            continue
        # names rebound locally before the mutation are no longer the caller's object: compute per path lazily
        muts = []
        for n in ast.walk(f.node):
            if isinstance(n, (ast.Assign, ast.AugAssign)):
                tgts = n.targets if isinstance(n, ast.Assign) else [n.target]
                for t in tgts:
                    for tt in (t.elts if isinstance(t, (ast.Tuple, ast.List)) else [t]):
                        if isinstance(tt, ast.Subscript) and isinstance(tt.value, ast.Name) and tt.value.id in params:
                            muts.append((n, tt.value.id, "item assignment %s" % src(tt)))
            if isinstance(n, ast.Call) and isinstance(n.func, ast.Attribute) and isinstance(n.func.value, ast.Name) and n.func.value.id in params \
                    and n.func.attr in ("append", "extend", "insert", "pop", "remove", "sort", "reverse", "clear", "fill", "put", "itemset", "update"):
                muts.append((n, n.func.value.id, "in-place %s()" % n.func.attr))
        for n, p, what in muts:
            if p in ("self", "kwargs", "args", "cls"):
                continue
            n_sites += 1
            # is p rebound to a fresh object on every path before this statement?  (simple dominance: an assignment to p at function top level before n)
            fresh = False
            for st in f.node.body:
                if st.lineno >= n.lineno:
                    break
                if isinstance(st, ast.Assign) and any(isinstance(t, ast.Name) and t.id == p for t in st.targets):
                    v = st.value
                    if isinstance(v, ast.Call) and dotted(v.func) in ("list", "np.array", "copy.copy", "copy.deepcopy", "np.copy") or isinstance(v, (ast.List, ast.ListComp)) \
                            or (isinstance(v, ast.Call) and isinstance(v.func, ast.Attribute) and v.func.attr in ("copy", "tolist", "flatten", "astype")):
                        fresh = True
            if f.qualname in ("objects.Fxp._wrapped_numpy_func",):
                continue
            if not fresh:
                from ..pinned import PINNED_FUNCS
                if f.qualname not in PINNED_FUNCS and f.parent is None:
                    # a helper introduced by a later edit: what it receives for p is what its callers hand over.  A caller's own **kwargs
                    # record (a fresh dict per call) or a freshly built object is not anybody's container.
                    acts = []
                    for g in prog.all_funcs():
                        for c in calls_in(g.node):
                            if prog.resolve_call(g, c) == f.qualname:
                                ps = [x for x in f.params if not (x == "self" and f.cls)]
                                a = kw(c, p, ps.index(p) if p in ps else None)
                                acts.append((g, a))
                    if acts and all(a is not None and ((isinstance(a, ast.Name) and a.id == g.kwarg) or isinstance(a, (ast.Dict, ast.List, ast.ListComp, ast.Call))) for g, a in acts):
                        fresh = True
            ck.check(fresh, rule, f, "no function writes into a container it received as an argument", "%s on parameter %s" % (what, p), n,
                     "a tuple argument raises TypeError; a list argument is overwritten in the caller")
    ck.ok(rule, "fxpmath/utils.py, objects.py, functions.py", "%d in-place writes on parameter containers examined" % n_sites, nontrivial=False)


PERM_METHODS = {"reshape", "flatten", "ravel", "squeeze", "transpose", "swapaxes", "copy", "astype", "view", "diagonal"}
PERM_FUNCS = {"np.sort", "np.transpose", "np.diagonal", "np.roll", "np.flip", "np.reshape", "np.squeeze", "np.expand_dims", "np.moveaxis", "np.ravel", "np.array", "np.asarray", "np.copy"}


def _is_perm_of_val(e):
    """e is a pure re-arrangement (PERM*) of some <obj>.val"""
    while True:
        if isinstance(e, ast.Attribute) and e.attr == "val":
            return True
        if isinstance(e, ast.Attribute) and e.attr in ("T",):
            e = e.value
            continue
        if isinstance(e, ast.Subscript):
            e = e.value
            continue
        if isinstance(e, ast.Call) and isinstance(e.func, ast.Attribute) and e.func.attr in PERM_METHODS and dotted(e.func.value) != "np":
            e = e.func.value
            continue
        if isinstance(e, ast.Call) and dotted(e.func) in PERM_FUNCS and e.args:
            e = e.args[0]
            continue
        return False


def who_writes_codes(ck, rule):
    """C02.R1: stores to <Fxp>.val only in the funnel, None-initialisers, and code-preserving writers whose
    right-hand side is a pure re-arrangement of an existing .val or a non-expanding arithmetic right shift."""
    prog = ck.prog
    fun = A.funnel(prog)
    n_total = 0
    writers = set()
    for f in prog.all_funcs():
        if f.module not in ("objects", "functions", "utils"):
            continue
        for n, kind, base, t in _val_writes(f):
            n_total += 1
            writers.add(f.qualname)
            if effective_owners(prog, f) == {fun.qualname}:
                continue   # set_val or a helper extracted from it: decided by the stage-order rule on the inlined paths
            if isinstance(n, ast.Assign) and isinstance(n.value, ast.Constant) and n.value.value is None and \
                    (f.name == "__init__" or effective_owners(prog, f) <= {"objects.Fxp.__init__"}):
                continue       # None initialiser in the constructor (or in a helper only the constructor calls)
            if kind.startswith("inplace:"):
                ck.check(kind == "inplace:sort", rule, f, "in-place operation on the code buffer is a pure re-arrangement", "%s" % src(n)[:80], n,
                         "in-place mutation of codes outside the funnel")
                continue
            if kind == "item":
                ck.bad(rule, f, "element writes to the code buffer happen only in set_val", "%s writes %s" % (f.qualname, src(t)), n,
                       "an element is written without scale/round/overflow, so it can be out of range or mis-scaled")
                continue
            v = n.value if isinstance(n, (ast.Assign, ast.AnnAssign)) else None
            if v is None:
                ck.bad(rule, f, "augmented writes to the code buffer happen only in set_val", src(n)[:80], n)
                continue
            if _is_perm_of_val(v):
                ck.ok(rule, f, "%s re-arranges existing codes (%s)" % (f.name, src(v)[:50]), n)
                continue
            if isinstance(v, ast.BinOp) and isinstance(v.op, ast.RShift) and _is_perm_of_val(v.left):
                ck.ok(rule, f, "%s writes an arithmetic right shift of existing codes (|c >> n| <= |c|)" % f.name, n)
                continue
            ck.bad(rule, f, "only set_val writes computed codes into a value buffer", "%s assigns %s = %s" % (f.qualname, src(t), src(v)[:60]), n,
                   "codes computed outside the funnel are not clamped/wrapped into the format's range")
    ck.extra["val_write_sites"] = n_total
    ck.extra["val_writers"] = sorted(writers)
    if n_total < 8:
        raise AnalysisError("only %d writes to .val found (expected >= 8): instance count fell" % n_total)


def carrier_types(ck, rule):
    """C01.R6: the value type returned by the normaliser never narrows the input: ndarray / NumPy-scalar inputs are typed by the Python type of
    their elements (not their possibly narrow dtype), and `float` is imposed only for None, strings, Decimal and inside the scale/bias block."""
    prog = ck.prog
    fm = A.normaliser(prog)
    vp = [p for p in fm.params if p != "self"][0]
    from ..paths import enum_paths, walk_path
    from ..common import infeasible
    # ---- ndarray arm
    arm = None
    for n in ast.walk(fm.node):
        if isinstance(n, ast.If):
            ts = _isinstance_types(n.test, vp)
            if ts and "np.ndarray" in ts:
                arm = n
    if arm is None:
        ck.bad(rule, fm, "the normaliser has an ndarray / NumPy-scalar arm", "no isinstance(val, np.ndarray) arm", fm.node)
    else:
        nbad = 0
        npaths = 0
        for p in enum_paths(arm.body):
            pf = walk_path(p)
            if infeasible(pf) or pf.end == "raise":
                continue
            npaths += 1
            v = pf.env.get("vdtype")
            if v is None:
                continue
            v0 = peel(v)[0]
            narrow = isinstance(v0, ast.Attribute) and v0.attr == "dtype"
            if narrow:
                # str arrays are re-typed below; only flag when the final type is still the raw dtype
                nbad += 1
                ck.bad(rule, fm, "array and NumPy-scalar inputs are typed by the Python type of their elements, never by a narrow NumPy dtype", "vdtype = %s" % src(v)[:50], arm,
                       "float16/float32/int8 inputs would be scaled, rounded and read back in the narrow dtype (carrier-dependent results)")
                break
        if not nbad:
            ck.ok(rule, fm, "ndarray arm: value type is type(val.item(0)) on all %d feasible paths" % npaths)
    # ---- float imposed only in listed contexts
    def ctx_ok(chain):
        for t in chain:
            txt = src(t)
            if "is None" in txt and vp in txt:
                return True
            if "Decimal" in txt or "np.str_" in txt or "str" in (_isinstance_types(t, vp) or []):
                return True
            if "self.scale" in txt or "self.bias" in txt:
                return True
        return False

    # path-based: the guards are the substituted tests, so named sub-conditions (has_scale = self.scale != 1) and helpers are transparent
    from ..common import fpaths
    seen = set()
    nst = 0
    for pf in fpaths(prog, fm):
        for st in pf.stores:
            if st.path != "vdtype" or dotted(st.raw_value) not in ("float", "np.float64", "np.float32"):
                continue
            nst += 1
            chain = [g[0] for g in st.guards]
            okc = ctx_ok(chain)
            key = (id(st.stmt), okc)
            if key in seen:
                continue
            seen.add(key)
            ck.check(okc, rule, fm, "the normaliser imposes a float value type only for None, strings, Decimal or after a non-trivial scale/bias map",
                     "vdtype = %s under %s" % (src(st.raw_value), [src(t)[:40] for t in chain]), st.stmt,
                     "Python integers would be converted to binary64 before scaling: bits beyond the 53-bit mantissa are lost")
    if nst == 0:
        ck.note("normaliser never imposes a float value type")


def no_truncation_before_rounding(ck, rule):
    """C10.R5 / C01.R7: a value that may be fractional is never cast to an integer value type before the rounding stage.
    In the normaliser's fixed-point-source branch the codes are re-scaled by 2^(dst.n_frac - src.n_frac); when that exponent may be
    negative the value type handed to set_val's pre-scale cast must not stay the source's (possibly int) type."""
    prog = ck.prog
    from ..paths import enum_paths, walk_path
    from ..common import infeasible, order_facts, path_literals, mkterm
    from ..terms import nonneg, Facts, NotATerm
    fm = A.normaliser(prog)
    vp = [p for p in fm.params if p != "self"][0]
    arm = None
    for n in ast.walk(fm.node):
        if isinstance(n, ast.If):
            ts = _isinstance_types(n.test, vp)
            if ts and "Fxp" in ts:
                arm = n
    if arm is None:
        ck.bad(rule, fm, "the normaliser has a branch for fixed-point inputs", "no isinstance(val, Fxp) arm", fm.node)
        return
    n_ok = 0
    for p in enum_paths(arm.body, prog=prog, func=fm):
        pf = walk_path(p, prog=prog, func=fm)
        if infeasible(pf) or pf.end == "raise":
            continue
        v = pf.env.get(vp)
        vd = pf.env.get("vdtype")
        if v is None:
            continue
        # exponent of the power-of-two factor
        expo = None
        for n in ast.walk(v):
            if isinstance(n, ast.BinOp) and isinstance(n.op, ast.Pow) and isinstance(n.left, ast.Constant) and n.left.value in (2, 2.0):
                expo = n.right
        if expo is None:
            continue
        try:
            e = mkterm(expo, rename=lambda d: d)
        except NotATerm:
            continue
        # case analysis over false conjunctions / true disjunctions: (A and B) false  =>  not A, or not B
        case_sets = [[]]
        for g in pf.guards:
            t, pol = g[0], g[1]
            while isinstance(t, ast.UnaryOp) and isinstance(t.op, ast.Not):
                t, pol = t.operand, not pol
            if isinstance(t, ast.BoolOp) and ((isinstance(t.op, ast.And) and not pol) or (isinstance(t.op, ast.Or) and pol)) and len(t.values) <= 3:
                case_sets = [c + [(v, pol, None, None)] for c in case_sets for v in t.values][:16]
        may_int = False
        for extra in case_sets:
            gs = list(pf.guards) + extra
            ge = order_facts(gs, rename=lambda d: d)
            if nonneg(e, Facts(ge=ge)):
                continue          # exponent >= 0 in this case: integer codes stay integers
            mi = True
            if vd is not None and dotted(vd) in ("float", "complex", "np.float64", "object"):
                mi = False
            for t, pol in path_literals(gs):
                if isinstance(t, ast.Compare) and len(t.ops) == 1 and dotted(t.comparators[0]) == "int" and vd is not None and same_expr(t.left, vd):
                    if (isinstance(t.ops[0], ast.Eq) and not pol) or (isinstance(t.ops[0], ast.NotEq) and pol):
                        mi = False
            may_int = may_int or mi
        if not may_int and all(nonneg(e, Facts(ge=order_facts(list(pf.guards) + x, rename=lambda d: d))) for x in case_sets):
            n_ok += 1
            continue
        ck.check(not may_int, rule, fm, "when the re-scaling exponent may be negative (destination has fewer fraction bits) the value keeps a non-integer value type until it is rounded",
                 "codes re-scaled by 2^(%s) are typed %s" % (e.show(), src(vd) if vd is not None else None), arm,
                 "set_val casts the re-scaled (fractional) codes with astype(int) before rounding: floor/ceil/around are replaced by truncation and the conversion routes disagree")
        n_ok += 1
    if n_ok == 0:
        ck.unsure(rule, fm, "fixed-point-source branch re-scales codes by a power of two", arm, "no re-scaling found")
    value_type_domain(ck, rule)


def value_type_domain(ck, rule):
    """The value type (vdtype) is a Python type (int, float, complex, type(x)) or a NumPy dtype *instance* (x.dtype): both compare equal to the
    Python types the library tests them against (`vdtype == int`).  A NumPy scalar class (x.dtype.type, np.int64) or a dtype's name / kind does
    not (np.int64 == int is False), so every `== int` test downstream silently takes the other branch."""
    prog = ck.prog
    n = 0
    for f in prog.all_funcs():
        if f.module != "objects":
            continue
        for node in ast.walk(f.node):
            if not isinstance(node, ast.Assign):
                continue
            if not any((isinstance(t, ast.Name) and t.id.endswith("vdtype")) or (isinstance(t, ast.Attribute) and t.attr == "vdtype") for t in node.targets):
                continue
            n += 1
            v = node.value
            wrong = None
            for x in ast.walk(v):
                if isinstance(x, ast.Attribute) and x.attr in ("type", "name", "kind", "char", "str") and isinstance(x.value, ast.Attribute) and x.value.attr == "dtype":
                    wrong = x
                elif isinstance(x, ast.Attribute) and isinstance(x.value, ast.Name) and x.value.id in ("np", "numpy") and x.attr in (
                        "int8", "int16", "int32", "int64", "uint8", "uint16", "uint32", "uint64", "float16", "float32", "int_", "intc", "longlong", "integer", "floating") \
                        and x is v:
                    wrong = x
            if wrong is not None:
                ck.bad(rule, f, "value types are Python types or dtype instances (what the `== int` / `== float` tests of the library recognise)", "%s = %s" % (src(node.targets[0]), src(v)[:50]), node,
                       "a NumPy scalar class (or a dtype's name / kind) never compares equal to int: the integer-value-type guards (no truncation before rounding, float promotion under scale/bias) stop firing")
    if n == 0:
        raise AnalysisError("no value-type assignment found in objects.py")
    ck.ok(rule, "objects.py", "%d value-type assignments: none stores a NumPy scalar class or a dtype attribute" % n, nontrivial=False)


def no_alias_writes(ck, rule):
    """C20.R5 (alias-aware): on no path of the string/number normalisation functions is an element stored into an object that still IS a parameter
    (directly or through a local alias such as `val = x if isinstance(x, list) else list(x)`)."""
    prog = ck.prog
    n = 0
    for q in ("utils.str2num", "utils.int_array", "utils.add_binary_prefix", "utils.complex_repr", A.normaliser(prog).qualname, "functions.fxp_sum", "functions.from_bin"):
        f = prog.func(q, required=False)
        if f is None:
            continue
        params = set(f.params) - {"self", "kwargs"}
        for pf in fpaths(prog, f):
            for st in pf.stores:
                if isinstance(st.target, ast.Subscript) and st.base is not None and st.depth == 0:
                    n += 1
                    b = st.base
                    if isinstance(b, ast.Name) and b.id in params:
                        ck.bad(rule, f, "elements are never stored into a container received as an argument", "%s[...] = ... where %s is the caller's %s" % (st.path, st.path, b.id), st.stmt,
                               "the caller's list is overwritten (e.g. strings replaced by numbers); a tuple raises TypeError")
        ck.saw(f)
    ck.ok(rule, "utils.str2num and normalisation helpers", "%d element stores examined with alias resolution" % n, nontrivial=False)


def config_not_shared(ck, rule):
    """C20.R2b: an object's configuration is assigned only inside the constructor (fresh Config / deep copy); no function hands one object's Config to another."""
    prog = ck.prog
    for f in prog.all_funcs():
        if f.module not in ("objects", "functions"):
            continue
        for n in ast.walk(f.node):
            if isinstance(n, ast.Assign):
                for t in n.targets:
                    if isinstance(t, ast.Attribute) and t.attr == "config" and dotted(t.value) is not None:
                        own = effective_owners(prog, f)
                        v = n.value
                        fresh = isinstance(v, ast.Call) and (dotted(v.func) in ("Config", "copy.deepcopy") or (isinstance(v.func, ast.Attribute) and v.func.attr == "deepcopy"))
                        if own <= {"objects.Fxp.__init__"} or fresh or (isinstance(v, ast.Constant) and v.value is None):
                            continue
                        ck.bad(rule, f, "a Config object is never handed from one fixed-point object to another", "%s = %s" % (src(t), src(v)[:50]), n,
                               "the two objects share one configuration: changing the result's modes changes the operand's")
    ck.ok(rule, "objects.py / functions.py", "every assignment to <obj>.config examined", nontrivial=False)


def dispatch_results_unconstrained(ck, rule):
    """C15.R4: the numpy fallback / output wrappers build results with the plain constructor (value only, or like= and raw= of the configured output):
    no size or signedness is imposed on a value computed by numpy."""
    prog = ck.prog
    for name in ("__array_wrap__", "_wrapped_numpy_func", "_set_array_output_type"):
        f = prog.func("objects.Fxp." + name)
        for c in calls_in(f.node):
            if prog.is_fxp_ctor(f, c):
                kws = {k.arg for k in c.keywords}
                ck.check(kws <= {"like", "raw"} and len(c.args) == 1, rule, f, "%s builds its result with the constructor on the value (only like= / raw= of the configured output)" % name,
                         "%s" % src(c)[:70], c, "an imposed signedness/size quantizes the numpy result (negative entries of a mixed-sign product saturate to 0)")
        ck.saw(f)


def numpy_dispatch_transparent(ck, rule):
    """C15.R5: the numpy protocol methods hand the call to the registered fxpmath function unchanged - the caller's positional arguments and keyword
    record, nothing added, removed or converted - and the output post-processor passes the function's result object itself to the configured
    destination (so sizes, method and flags are those of the direct call)."""
    prog = ck.prog
    for name in ("__array_ufunc__", "__array_function__"):
        f = prog.func("objects.Fxp." + name)
        ps = [p for p in f.params if p != "self"]
        star = f.node.args.vararg.arg if f.node.args.vararg else None
        kwn = f.node.args.kwarg.arg if f.node.args.kwarg else None
        n_ok = 0
        for pf in fpaths(prog, f):
            if pf.end != "return" or pf.ret is None:
                continue
            reg = [c for c in ast.walk(pf.ret) if isinstance(c, ast.Call) and isinstance(c.func, ast.Subscript) and dotted(c.func.value) == "_NUMPY_HANDLED_FUNCTIONS"]
            if not reg:
                continue
            c = reg[0]
            pos_ok = len(c.args) == 1 and isinstance(c.args[0], ast.Starred) and dotted(c.args[0].value) in ((star,) if star else ("args", "inputs"))
            spreads = [k for k in c.keywords if k.arg is None]
            kw_ok = len(spreads) == 1 and len(c.keywords) == 1 and dotted(spreads[0].value) in ((kwn,) if kwn else ("kwargs",))
            kwname = kwn or "kwargs"
            touched = [st for st in pf.stores if st.depth == 0 and isinstance(st.target, ast.Subscript) and st.path == kwname] + \
                      [ce for ce in pf.calls if ce.depth == 0 and isinstance(ce.raw.func, ast.Attribute) and dotted(ce.raw.func.value) == kwname
                       and ce.raw.func.attr in ("setdefault", "update", "pop", "clear", "popitem", "__setitem__")]
            if not (pos_ok and kw_ok) or touched:
                what = "calls %s" % src(c)[:90] if not (pos_ok and kw_ok) else "keyword record modified before the dispatch: %s" % src(getattr(touched[0], "stmt", None) or touched[0].raw)[:70]
                ck.bad(rule, f, "%s hands the caller's arguments and keywords to the registered function unchanged" % name, what, pf.ret_stmt,
                       "np.<f>(x, ...) and the direct call x.<f>(...) / fxpmath.<f>(x, ...) would compute with different operands, method or sizing")
                continue
            n_ok += 1
        ck.check(n_ok >= 1, rule, f, "%s dispatches registered functions transparently (%d path(s))" % (name, n_ok), "%s has no path through the registry" % name, f.node)
        ck.saw(f)
    g = prog.func("objects.Fxp._set_array_output_type")
    p0 = [p for p in g.params if p != "self"][0]
    okall = True
    for pf in fpaths(prog, g):
        if pf.end != "return" or pf.ret is None:
            continue
        r = peel(pf.ret)[0]
        if isinstance(r, ast.Call) and ((isinstance(r.func, ast.Attribute) and r.func.attr == "set_val") or prog.is_fxp_ctor(g, r) or dotted(r.func) in ("self.__class__",)):
            a0 = r.args[0] if r.args else kw(r, "val")
            if dotted(a0) != p0:
                okall = False
                ck.bad(rule, g, "the post-processor hands the function's result object itself to the configured destination", "passes %s" % (src(a0)[:60] if a0 is not None else None), pf.ret_stmt,
                       "passing a value extracted from the result drops what the result object carries (inaccuracy flag, raw codes)")
    if okall:
        ck.ok(rule, g, "_set_array_output_type passes its argument itself to out.set_val / the constructor on every path")
    ck.saw(g)


def forwarded_defaults(ck, rule):
    """Layer agreement: a function that forwards one of its own parameters unchanged to the constructor, to set_val or to resize under the same
    keyword gives that parameter the same default as the callee (None stays None, raw=False stays False): a wrapper whose default differs
    silently overrides what the callee would have derived (signed=True forwarded to Fxp(like=unsigned) re-signs the template's format)."""
    prog = ck.prog
    targets = {}
    for qn in ("objects.Fxp.__init__", "objects.Fxp.set_val", "objects.Fxp.resize"):
        g = prog.func(qn)
        a = g.node.args
        names = [x.arg for x in a.args]
        dfl = {}
        for nm, d in zip(names[len(names) - len(a.defaults):], a.defaults):
            dfl[nm] = d
        for x, d in zip(a.kwonlyargs, a.kw_defaults):
            if d is not None:
                dfl[x.arg] = d
        targets[qn] = dfl
    n = 0
    for f in prog.all_funcs():
        a = f.node.args
        names = [x.arg for x in a.args]
        mine = {}
        for nm, d in zip(names[len(names) - len(a.defaults):], a.defaults):
            mine[nm] = d
        for x, d in zip(a.kwonlyargs, a.kw_defaults):
            if d is not None:
                mine[x.arg] = d
        if not mine:
            continue
        rebound = {t.id for nd in ast.walk(f.node) if isinstance(nd, (ast.Assign, ast.AugAssign, ast.AnnAssign)) for t in ast.walk(nd.targets[0] if isinstance(nd, ast.Assign) else nd.target)
                   if isinstance(t, ast.Name) and isinstance(t.ctx, ast.Store)}
        for c in calls_in(f.node):
            callee = None
            if prog.is_fxp_ctor(f, c):
                callee = "objects.Fxp.__init__"
            elif isinstance(c.func, ast.Attribute) and c.func.attr in ("set_val", "resize"):
                callee = "objects.Fxp." + c.func.attr
            if callee is None or f.qualname == callee:
                continue
            for k in c.keywords:
                if k.arg is None or not isinstance(k.value, ast.Name) or k.value.id != k.arg:
                    continue
                p = k.arg
                if p not in mine or p in rebound or p not in targets[callee]:
                    continue
                n += 1
                d1, d2 = mine[p], targets[callee][p]
                same = ast.dump(d1) == ast.dump(d2)
                ck.check(same, rule, f, "a parameter forwarded unchanged to %s has the callee's default" % callee.split(".")[-1],
                         "%s(%s=%s) forwards to %s(%s=%s)" % (f.name, p, src(d1), callee.split(".")[-1], p, src(d2)), c,
                         "the wrapper's default overrides what the callee would derive (from like=, a template, the dtype string or the value)", nontrivial=False)
    ck.saw(calls=n)
