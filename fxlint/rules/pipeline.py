"""placeholder, filled below"""
def handler_call_sites(ck, rule, roles):
    pass
