"""Rule groups about the write funnel set_val: stage order, scale factor, bounds, rounding table,
clamp roles, carrier ladder, who-may-write-codes (C01, C02, C03.R2, C05; shared with C04, C10, C17, C18)."""
import ast

from ..model import dotted, src, calls_in, kw, AnalysisError
from ..common import (fpaths, peel, is_int_cast, actual, mkterm, mkbool, guard_assignment, same_expr, const_str,
                      self_rename, status_key, fxp_names_in)
from ..terms import Term, exp2, ite, NotATerm, witness
from .. import anchors as A

ROUND_TABLE = {
    "floor": {"np.floor"},
    "ceil": {"np.ceil"},
    "trunc": {"np.trunc", "np.fix"},
    "fix": {"np.trunc", "np.fix"},
    "around": {"np.around", "np.round", "np.rint", "np.round_"},
}
ROUND_PRIMS = set().union(*ROUND_TABLE.values())


def oracle_bounds():
    s = Term.bvar("signed")
    nw = Term.var("n_word")
    mx = ite(s, exp2(nw - 1) - 1, exp2(nw) - 1)
    mn = ite(s, -exp2(nw - 1), Term.const(0))
    return mn, mx


def _ctrl(gs):
    return [(src(g[0])[:70], g[1]) for g in gs]


class Stage:
    pass


def match_pipeline(prog, f, V, roles, h, rnd, fmt, fac, problems, part=None):
    """match V against CAST* OVF(CAST* RND(CAST* (CAST* [PART] FORMAT(val)[0]) * FACTOR(raw'))) .
    Appends (what, construct, detail) to problems; returns dict of pieces or None."""
    out = {}
    e, casts0 = peel(V)
    if not (isinstance(e, ast.Call) and prog.resolve_call(f, e) == h.qualname):
        # is the handler somewhere inside? then something was applied after it
        inner = [c for c in calls_in(e) if prog.resolve_call(f, c) == h.qualname]
        if inner:
            problems.append(("no arithmetic is applied to the value after the overflow stage",
                             "stored value %s" % src(e)[:110], "an operation follows saturate/wrap, so the stored code can leave the format's range or differ from OVERFLOW(ROUND(v*2^n_frac))"))
        else:
            problems.append(("every stored value passes through the overflow stage (saturate/wrap)",
                             "stored value without overflow handling: %s" % src(e)[:110],
                             "on this path the code is written without clamping/wrapping and without raising flags"))
        return None
    out["ovf_call"] = e
    v = actual(e, h, roles["val"])
    out["min"] = actual(e, h, roles["min"])
    out["max"] = actual(e, h, roles["max"])
    if v is None or out["min"] is None or out["max"] is None:
        problems.append(("overflow handler receives value, minimum and maximum", "call %s" % src(e)[:100], None))
        return None
    e2, casts1 = peel(v)
    if any(is_int_cast(c) for c in casts1):
        problems.append(("no narrowing cast precedes the clamp", "integer cast before the overflow stage: %s" % src(v)[:100],
                         "a cast to a machine integer before clamping turns a huge input into garbage / the opposite bound"))
        return None
    if not (isinstance(e2, ast.Call) and prog.resolve_call(f, e2) == rnd.qualname):
        inner = [c for c in calls_in(e2) if prog.resolve_call(f, c) == rnd.qualname]
        if inner:
            problems.append(("the overflow stage receives the rounded value unchanged", "handler argument %s" % src(e2)[:110],
                             "an operation is applied between rounding and the overflow test"))
        else:
            problems.append(("every stored value is rounded by the configured rule before the overflow stage",
                             "overflow stage fed with unrounded value: %s" % src(e2)[:110],
                             "on this path the rounding stage is skipped or replaced, so the configured rounding mode is ignored"))
        return None
    out["rnd_call"] = e2
    rv = actual(e2, rnd, [p for p in rnd.params if p != "self"][0])
    meth = actual(e2, rnd, "method")
    if meth is None or dotted(meth) != "self.config.rounding":
        problems.append(("the rounding stage uses the object's configured rounding mode", "method=%s" % (src(meth) if meth is not None else "<default>"),
                         "rounding must be method=self.config.rounding"))
        return None
    e3, casts2 = peel(rv)
    if any(is_int_cast(c) for c in casts2):
        problems.append(("no integer cast precedes rounding", "integer cast of the scaled value before rounding: %s" % src(rv)[:100],
                         "truncates toward zero before the configured rounding is applied"))
        return None
    if not (isinstance(e3, ast.BinOp) and isinstance(e3.op, ast.Mult)):
        problems.append(("the rounded quantity is value * conversion factor", "rounding argument %s" % src(e3)[:110],
                         "the scale stage must be a multiplication by the conversion factor 2^n_frac"))
        return None
    sides = [e3.left, e3.right]
    fidx = [i for i, s_ in enumerate(sides) if isinstance(peel(s_)[0], ast.Call) and prog.resolve_call(f, peel(s_)[0]) == fac.qualname]
    if len(fidx) != 1:
        problems.append(("the scale factor comes from the conversion-factor helper", "scale product %s" % src(e3)[:110], None))
        return None
    fcall = peel(sides[fidx[0]])[0]
    a = sides[1 - fidx[0]]
    out["factor_call"] = fcall
    a0, casts3 = peel(a)
    out["input_casts"] = casts3
    if part is not None:
        # np.vectorize(lambda v: v.real)(X)
        got = None
        if isinstance(a0, ast.Call) and isinstance(a0.func, ast.Call) and dotted(a0.func.func) == "np.vectorize" and a0.func.args \
                and isinstance(a0.func.args[0], ast.Lambda) and isinstance(a0.func.args[0].body, ast.Attribute) and len(a0.args) == 1:
            got = a0.func.args[0].body.attr
            a0, c4 = peel(a0.args[0])
        elif isinstance(a0, ast.Attribute) and a0.attr in ("real", "imag"):
            got = a0.attr
            a0, c4 = peel(a0.value)
        if got != part:
            problems.append(("the %s component is quantized from the input's %s part" % (part, part), "component %s" % src(a)[:90], None))
            return None
    okin = isinstance(a0, ast.Subscript) and isinstance(a0.value, ast.Call) and prog.resolve_call(f, a0.value) == fmt.qualname \
        and isinstance(a0.slice, ast.Constant) and a0.slice.value == 0
    if not okin:
        inner = [c for c in calls_in(a0) if prog.resolve_call(f, c) == fmt.qualname]
        problems.append(("the scaled quantity is the normalised input value itself", "scaled operand %s" % src(a)[:110],
                         "an operation is applied to the input before scaling" if inner else "the input does not come from the input normaliser"))
        return None
    fmt_call = a0.value
    out["fmt_call"] = fmt_call
    # the cast applied to the input before scaling uses the value type returned by the normaliser (or object): nothing narrower
    for c in casts3:
        if c[0] == "astype" and c[1] is not None:
            want = src(ast.Subscript(value=fmt_call, slice=ast.Constant(value=1), ctx=ast.Load()))
            if c[1] not in (want, "object", "np.object_"):
                problems.append(("the input is cast before scaling only to the value type reported by the normaliser (or to Python objects)", "pre-scale cast to %s" % c[1][:70],
                                 "another value type (e.g. the container's previous one) truncates or narrows the new value before it is rounded"))
                return None
    # normaliser is called with the funnel's own val / raw parameters
    vp = actual(fmt_call, fmt, [p for p in fmt.params if p != "self"][0])
    rp = actual(fmt_call, fmt, "raw")
    if dotted(vp) != "val" or dotted(rp) != "raw":
        problems.append(("the normaliser receives the funnel's own val and raw arguments", "call %s" % src(fmt_call)[:100], None))
        return None
    # factor is computed from the raw flag that the normaliser returned
    ra = actual(fcall, fac, "raw")
    okraw = isinstance(ra, ast.Subscript) and isinstance(ra.value, ast.Call) and same_expr(ra.value, fmt_call) \
        and isinstance(ra.slice, ast.Constant) and ra.slice.value == 2
    if not okraw:
        problems.append(("the conversion factor is selected by the raw flag returned by the normaliser", "factor call %s" % src(fcall)[:100],
                         "Fxp inputs are re-scaled to raw codes by the normaliser; using the caller's raw flag scales them twice"))
        return None
    return out


def store_pipeline(ck, rule, want_bounds=True):
    """C01.R2 (+C02.R2/R6, C04.R1 argument roles): on every normal path of set_val exactly one store to the
    value buffer, whose provenance is FORMAT -> SCALE -> RND -> OVF -> CAST* -> STORE."""
    prog = ck.prog
    f = A.funnel(prog)
    h, rnd, fmt, fac = A.ovf_handler(prog), A.rounder(prog), A.normaliser(prog), A.factor(prog)
    from .flags import handler_roles_quiet
    roles = handler_roles_quiet(prog)
    pfs = fpaths(prog, f)
    ck.saw(f, paths=len(pfs))
    mn_o, mx_o = oracle_bounds()
    seen = set()
    n_real = n_cplx = 0
    words = set()

    def bad(what, construct, node, detail=None, r=rule):
        k = (r, what, construct)
        if k not in seen:
            seen.add(k)
            ck.bad(r, f, what, construct, node, detail)

    for pf in pfs:
        if pf.end == "raise":
            continue
        vst = [st for st in pf.stores if st.path == "self.val"]
        if len(vst) != 1:
            bad("every normal path of set_val stores the value exactly once", "%d stores to the value buffer on a normal path" % len(vst),
                f.node, "path guards: %s" % _ctrl(pf.guards)[:8])
            continue
        st = vst[0]
        V = st.value
        e0, _ = peel(V)
        problems = []
        if isinstance(e0, ast.BinOp) and isinstance(e0.op, ast.Add) and _is_imag(e0.right):
            re_ = match_pipeline(prog, f, e0.left, roles, h, rnd, fmt, fac, problems, part="real")
            im_ = match_pipeline(prog, f, _is_imag(e0.right), roles, h, rnd, fmt, fac, problems, part="imag") if re_ else None
            pieces = [p for p in (re_, im_) if p]
            if re_ and im_:
                n_cplx += 1
                words.add("STORE COMBINE (CAST* OVF RND SCALE PART FORMAT){2}")
        else:
            one = match_pipeline(prog, f, V, roles, h, rnd, fmt, fac, problems)
            pieces = [one] if one else []
            if one:
                n_real += 1
                words.add("STORE CAST* OVF RND SCALE CAST* FORMAT")
        for what, construct, detail in problems:
            bad(what, construct, st.stmt, detail)
        if problems:
            continue
        # index store is a write into the existing buffer
        if isinstance(st.target, ast.Subscript):
            if dotted(st.sub) != "index":
                bad("indexed store uses the caller's index", "self.val[%s]" % src(st.sub), st.stmt)
        # bounds (C02.R2): handler is given the format's own MIN / MAX
        if want_bounds:
            asg = guard_assignment(pf.guards)
            for pc in pieces:
                for role, arg, orc in (("minimum", pc["min"], mn_o), ("maximum", pc["max"], mx_o)):
                    try:
                        t = mkterm(arg).subst(asg)
                    except NotATerm as e:
                        ck.unsure("C02.R2", f, "bound term is a format formula", st.stmt, str(e))
                        continue
                    o = orc.subst(asg)
                    ck.saw(terms=1)
                    if t != o:
                        w = witness(t, o)
                        bad("the overflow stage is given the format's own %s code" % role,
                            "%s = %s, expected %s" % (role, t.show(), o.show()), st.stmt,
                            {"witness": w, "meaning": "codes are clamped/wrapped/flagged against a wrong bound"}, r="C02.R2")
    if not [k for k in seen if k[0] == rule]:
        ck.ok(rule, f, "stage order holds on all normal paths: %d real-valued, %d complex stores (%s)" % (n_real, n_cplx, "; ".join(sorted(words))))
    if want_bounds and not [k for k in seen if k[0] == "C02.R2"]:
        ck.ok("C02.R2", f, "MIN/MAX handed to the overflow stage equal the statement's bounds on every path (signed and unsigned)")
    if n_real == 0:
        raise AnalysisError("no real-valued store path recognised in set_val")
    ck.extra["set_val_paths"] = len(pfs)
    ck.extra["exhaustive"] = True
    return roles


def _is_imag(e):
    """1j * X  ->  X"""
    if isinstance(e, ast.BinOp) and isinstance(e.op, ast.Mult):
        for a, b in ((e.left, e.right), (e.right, e.left)):
            if isinstance(a, ast.Constant) and isinstance(a.value, complex) and a.value == 1j:
                return b
    return None


def handler_call_sites(ck, rule, roles):
    """every call of the overflow handler anywhere passes the rounded value (C04.R1 'rounded element')."""
    prog = ck.prog
    h, rnd = A.flag_writer(prog), A.rounder(prog)
    n = 0
    for f in prog.all_funcs():
        if f.module != "objects":
            continue
        for c in calls_in(f.node):
            if prog.resolve_call(f, c) == h.qualname:
                n += 1
                from ..common import closure_funcs
                funnel_ = A.funnel(prog)
                if f.qualname != funnel_.qualname and f not in closure_funcs(prog, funnel_) and f is not A.ovf_handler(prog):
                    # (stages the funnel was split into - helpers new with respect to the pinned tree that set_val reaches - are the funnel)
                    ck.bad(rule, f, "the overflow handler is called only from the write funnel", "%s calls %s" % (f.qualname, h.name), c)
    ck.check(n >= 1, rule, h, "the overflow handler has call sites (%d) and all are in set_val, where its value argument is the rounding result on every path" % n,
             "overflow handler is never called")
    # value argument is RND result: established per path
    f = A.funnel(prog)
    bad_ = 0
    for pf in fpaths(prog, f):
        for ce in pf.calls:
            if prog.resolve_call(f, ce.raw) == h.qualname:
                if roles.get("val") is not None and h.node.args.vararg is not None and roles["val"] == h.node.args.vararg.arg:
                    # *parts: every value array handed to the range tests is a rounding result
                    npos = len([p for p in h.params if p != "self"])
                    extra = list(ce.call.args[npos:])
                    badv = [a for a in extra if not (isinstance(peel(a)[0], ast.Call) and prog.resolve_call(f, peel(a)[0]) == rnd.qualname)]
                    if extra and not badv:
                        continue
                    v = badv[0] if badv else None
                    e = None
                elif roles.get("val") is None:
                    # the handler's value parameter could not be identified (e.g. *parts): the rounded value must at least be among the actuals
                    acts = list(ce.call.args) + [k.value for k in ce.call.keywords]
                    if any(isinstance(peel(a)[0], ast.Call) and prog.resolve_call(f, peel(a)[0]) == rnd.qualname for a in acts):
                        continue
                    v = acts[-1] if acts else None
                    e = None
                else:
                    v = actual(ce.call, h, roles["val"])
                    e, casts = peel(v) if v is not None else (None, [])
                if not (isinstance(e, ast.Call) and prog.resolve_call(f, e) == rnd.qualname):
                    bad_ += 1
                    ck.bad(rule, f, "flags are decided on the rounded value", "handler value argument %s" % (src(v)[:100] if v is not None else None), ce.stmt,
                           "overflow/underflow must be tested on ROUND(v*2^n_frac), not on the unrounded or the clamped value")
                    return
    ck.saw(f, calls=n)


def factor_rule(ck, rule):
    """C01.R3: the conversion factor is 1 when raw, 2^n_frac otherwise, on every branch (incl. negative n_frac)."""
    prog = ck.prog
    fac = A.factor(prog)
    pfs = fpaths(prog, fac)
    ck.saw(fac, paths=len(pfs))
    raw = Term.bvar("raw")
    oracle = ite(raw, Term.const(1), exp2(Term.var("n_frac")))
    okn = 0
    from ..common import guard_cases
    for pf in pfs:
        if pf.end != "return" or pf.ret is None:
            if pf.end != "raise":
                ck.bad(rule, fac, "the conversion-factor helper returns a factor on every path", "path falls off without a value", fac.node)
            continue
        try:
            t0 = mkterm(pf.ret)
        except NotATerm as e:
            ck.unsure(rule, fac, "factor is a power of two in n_frac", pf.ret_stmt, "%s: %s" % (e, src(pf.ret)))
            continue
        good = True
        for asg in guard_cases(pf.guards):
            t = t0.subst(asg)
            o = oracle.subst(asg)
            ck.saw(terms=1)
            if t != o:
                good = False
                ck.bad(rule, fac, "conversion factor equals 2^n_frac (1 for raw codes)", "under %s returns %s, expected %s" % (_ctrl(pf.guards), t.show(), o.show()),
                       pf.ret_stmt, {"witness": witness(t, o)})
                break
        if good:
            okn += 1
    if okn:
        ck.ok(rule, fac, "all %d return branches normalise to ite(raw, 1, 2^n_frac)" % okn)


def rounding_table(ck, rule_dir, rule_exh, rule_pass):
    """C05.R1-R3 on the rounding dispatcher."""
    prog = ck.prog
    rnd = A.rounder(prog)
    vp = [p for p in rnd.params if p != "self"][0]
    mp = "method"
    pfs = fpaths(prog, rnd)
    ck.saw(rnd, paths=len(pfs))
    cfg_list = config_list(prog, "_rounding_list")
    handled = {}
    passthrough_seen = False
    for pf in pfs:
        keys_true = []
        from ..common import path_literals
        for lit, pol in path_literals(pf.guards):
            ks = _mode_keys(lit, mp)
            if ks is not None and pol:
                keys_true = ks
        # which guards are True on this path
        if pf.end == "raise":
            continue
        if pf.end != "return" or pf.ret is None:
            ck.bad(rule_exh, rnd, "the rounding dispatcher returns a value on every non-raising path", "path without return value", rnd.node)
            continue
        e, casts = peel(pf.ret)
        true_guards = [g for g in pf.guards if g[1]]
        if not keys_true:
            # pass-through path: some guard taken True must establish that the value is an integer carrier, and nothing else
            # (in particular no rounding mode) may select it
            if dotted(e) == vp:
                tg = [g for g in true_guards if not (isinstance(g[0], ast.Constant))]
                if any(_mode_none_guard(g[0], mp) for g in tg):
                    ck.ok(rule_pass, rnd, "identity branch for method None/'' (unreachable: Config.rounding rejects both)", pf.ret_stmt, nontrivial=False)
                    continue
                integer_evidence = [g for g in tg if not _non_integer_disjuncts(g[0], vp)]
                other = [g for g in tg if _non_integer_disjuncts(g[0], vp)]
                passthrough_seen = passthrough_seen or bool(integer_evidence)
                if not integer_evidence:
                    ck.bad(rule_pass, rnd, "values are passed through unrounded only when they are integers (int / integer dtype / object carrier)",
                           "unrounded return under %s" % [(src(g[0])[:60], g[1]) for g in pf.guards], pf.ret_stmt,
                           "non-integer values would be stored without the configured rounding")
                elif other:
                    ck.bad(rule_pass, rnd, "values are passed through unrounded only when they are integers (int / integer dtype / object carrier)",
                           "pass-through additionally selected by %s" % [src(g[0])[:60] for g in other], other[0][3],
                           "non-integer values would be stored without the configured rounding")
                else:
                    ck.ok(rule_pass, rnd, "unrounded pass-through is selected by integer-carrier tests only", pf.ret_stmt)
            else:
                ck.bad(rule_dir, rnd, "every rounding primitive is selected by a mode name", "return %s without a mode guard" % src(pf.ret)[:80], pf.ret_stmt)
            continue
        for K in keys_true:
            want = ROUND_TABLE.get(K)
            if want is None:
                ck.note("rounding dispatcher handles unknown mode %r" % K)
                continue
            fn = dotted(e.func) if isinstance(e, ast.Call) else None
            arg_ok = isinstance(e, ast.Call) and len(e.args) >= 1 and dotted(peel(e.args[0])[0]) == vp and len(e.args) == 1 and not e.keywords
            if fn in want and arg_ok:
                handled[K] = fn
                ck.ok(rule_dir, rnd, "mode %r -> %s(%s)" % (K, fn, vp), pf.ret_stmt)
            elif fn in ROUND_PRIMS and arg_ok:
                handled[K] = fn
                ck.bad(rule_dir, rnd, "mode %r rounds in its documented direction (%s)" % (K, "/".join(sorted(want))),
                       "%r -> %s" % (K, fn), pf.ret_stmt, "wrong rounding primitive for this mode")
            else:
                handled[K] = src(e)
                ck.bad(rule_dir, rnd, "mode %r applies its rounding primitive directly to the value (%s)" % (K, "/".join(sorted(want))),
                       "%r -> %s" % (K, src(pf.ret)[:90]), pf.ret_stmt,
                       "not one of the accepted spellings; e.g. floor(v+0.5) breaks ties-to-even, astype(int) truncates")
    for K in cfg_list:
        ck.check(K in handled, rule_exh, rnd, "configured rounding mode %r has a branch in the dispatcher" % K,
                 "mode %r accepted by Config.rounding but not handled by %s" % (K, rnd.name))
    # unknown names raise
    has_raise = any(pf.end == "raise" for pf in pfs)
    ck.check(has_raise, rule_exh, rnd, "an unknown rounding name raises", "dispatcher has no raising branch")
    if not passthrough_seen:
        ck.note("rounding dispatcher has no integer pass-through branch (integers rely on primitives being the identity on integers)")
    return handled


def _mode_keys(test, mp):
    """['around'] for `method == 'around'`, also membership in a literal tuple"""
    if isinstance(test, ast.Compare) and len(test.ops) == 1 and dotted(test.left) == mp:
        c = test.comparators[0]
        if isinstance(test.ops[0], ast.Eq) and const_str(c) is not None:
            return [const_str(c)]
        if isinstance(test.ops[0], ast.In) and isinstance(c, (ast.Tuple, ast.List, ast.Set)):
            ks = [const_str(x) for x in c.elts]
            if all(k is not None for k in ks):
                return ks
    return None


def _mode_none_guard(test, mp):
    vals = test.values if isinstance(test, ast.BoolOp) and isinstance(test.op, ast.Or) else [test]
    for v in vals:
        if isinstance(v, ast.Compare) and len(v.ops) == 1 and dotted(v.left) == mp:
            c = v.comparators[0]
            if isinstance(v.ops[0], ast.Is) and isinstance(c, ast.Constant) and c.value is None:
                continue
            if isinstance(v.ops[0], ast.Eq) and isinstance(c, ast.Constant) and c.value == "":
                continue
        return False
    return True


def _non_integer_disjuncts(test, vp):
    vals = test.values if isinstance(test, ast.BoolOp) and isinstance(test.op, ast.Or) else [test]
    bad = []
    for v in vals:
        ok = False
        if isinstance(v, ast.Call):
            fn = dotted(v.func)
            if fn == "isinstance" and len(v.args) == 2 and dotted(v.args[0]) == vp:
                ts = v.args[1].elts if isinstance(v.args[1], ast.Tuple) else [v.args[1]]
                ok = all(dotted(t) in ("int", "np.integer", "np.int64", "np.int32", "np.uint64", "bool") for t in ts)
            elif fn == "np.issubdtype" and len(v.args) == 2:
                ty = dotted(v.args[1])
                a0 = v.args[0]
                base = None
                if isinstance(a0, ast.Attribute) and a0.attr == "dtype":
                    b, _ = peel(a0.value)
                    base = dotted(b)
                ok = ty in ("np.integer", "np.object_", "object", "np.signedinteger", "np.unsignedinteger", "int") and base == vp
        if not ok:
            bad.append(v)
    return bad


def config_list(prog, name):
    f = prog.func("objects.Config.%s" % name, required=False)
    if f is None:
        raise AnalysisError("Config.%s not found" % name)
    for n in ast.walk(f.node):
        if isinstance(n, ast.Return) and isinstance(n.value, (ast.List, ast.Tuple)):
            vals = [const_str(x) for x in n.value.elts]
            if all(v is not None for v in vals):
                return vals
    raise AnalysisError("Config.%s is not a literal list" % name)


def overflow_dispatch(ck, rule_clamp, rule_wrapsel, roles):
    """C02.R6 clamp roles; C03.R2 wrap selection with the destination's (signed, n_word); exhaustive over Config._overflow_list."""
    prog = ck.prog
    h = A.ovf_handler(prog)
    pfs = fpaths(prog, h)
    modes = config_list(prog, "_overflow_list")
    handled = {}
    wrapf = prog.func("utils.wrap", required=False)
    for pf in pfs:
        key = None
        for g in pf.guards:
            t = g[0]
            if isinstance(t, ast.Compare) and len(t.ops) == 1 and isinstance(t.ops[0], ast.Eq) and dotted(t.left) in ("self.config.overflow", "self.overflow") \
                    and const_str(t.comparators[0]) is not None and g[1]:
                key = const_str(t.comparators[0])
        if pf.end == "raise":
            continue
        if key is None:
            ck.bad(rule_clamp, h, "every non-raising path of the overflow handler is selected by an overflow mode", "return without mode guard", pf.ret_stmt or h.node)
            continue
        if pf.ret is None:
            ck.bad(rule_clamp, h, "the overflow handler returns the treated value", "path returns nothing under %r" % key, h.node)
            continue
        e, casts = peel(pf.ret)
        if key == "saturate":
            res = _clamp_form(prog, h, e)
            if res is None:
                ck.bad(rule_clamp, h, "saturate returns clamp(value, MIN, MAX)", "saturate branch returns %s" % src(pf.ret)[:90], pf.ret_stmt,
                       "not a recognised clamp of the handler's value between its bounds")
            else:
                x, lo, hi = res
                good = dotted(peel(x)[0]) == roles["val"] and dotted(lo) == roles["min"] and dotted(hi) == roles["max"]
                ck.check(good, rule_clamp, h, "saturate clamps the rounded value to [MIN, MAX] (argument roles)",
                         "clamp(%s, lo=%s, hi=%s)" % (src(x)[:40], src(lo), src(hi)), pf.ret_stmt,
                         "exchanged or wrong bounds: out-of-range inputs are stored as the opposite bound")
                if any(is_int_cast(c) for c in peel(x)[1]):
                    ck.bad(rule_clamp, h, "no narrowing cast precedes the clamp", "clamp argument %s" % src(x)[:80], pf.ret_stmt)
                # a helper vectorised without otypes takes its output dtype from the first element: arrays of Python ints must not reach it
                if isinstance(e, ast.Call):
                    cq = prog.resolve_call(h, e)
                    cf = prog.funcs.get(cq) if cq else None
                    if cf is not None and any("vectorize" in d and "otypes" not in d for d in cf.decorators):
                        from ..common import path_literals
                        excluded = False
                        for t, pol in path_literals(pf.guards):
                            if isinstance(t, ast.Compare) and len(t.ops) == 1 and isinstance(t.ops[0], ast.Eq) and isinstance(t.left, ast.Attribute) and t.left.attr == "dtype" \
                                    and dotted(t.comparators[0]) in ("object", "np.object_") and not pol:
                                excluded = True
                            if isinstance(t, ast.Call) and dotted(t.func) == "isinstance" and len(t.args) == 2 and dotted(t.args[1]) == "np.ndarray" and not pol:
                                excluded = True
                            if isinstance(t, ast.BoolOp) and isinstance(t.op, ast.And) and not pol:
                                # not (is an ndarray and dtype == object): every conjunct is part of "is an object array"
                                def _objpart(v):
                                    return (isinstance(v, ast.Compare) and len(v.ops) == 1 and isinstance(v.ops[0], ast.Eq) and isinstance(v.left, ast.Attribute) and v.left.attr == "dtype"
                                            and dotted(v.comparators[0]) in ("object", "np.object_")) or \
                                           (isinstance(v, ast.Call) and dotted(v.func) == "isinstance" and len(v.args) == 2 and dotted(v.args[1]) in ("np.ndarray",))
                                if all(_objpart(v) for v in t.values) and any(isinstance(v, ast.Compare) for v in t.values):
                                    excluded = True
                            if isinstance(t, ast.BoolOp) and isinstance(t.op, ast.Or) and pol:
                                # (not an ndarray) or (dtype != object): the De Morgan form of the same exclusion
                                def _negpart(v):
                                    if isinstance(v, ast.UnaryOp) and isinstance(v.op, ast.Not):
                                        v = v.operand
                                        return isinstance(v, ast.Call) and dotted(v.func) == "isinstance" and len(v.args) == 2 and dotted(v.args[1]) == "np.ndarray"
                                    return isinstance(v, ast.Compare) and len(v.ops) == 1 and isinstance(v.ops[0], ast.NotEq) and isinstance(v.left, ast.Attribute) and v.left.attr == "dtype" \
                                        and dotted(v.comparators[0]) in ("object", "np.object_")
                                if all(_negpart(v) for v in t.values) and any(isinstance(v, ast.Compare) for v in t.values):
                                    excluded = True
                        ck.check(excluded, rule_clamp, h, "arrays of Python ints (n_word >= 64) are clamped by np.clip, not by the helper vectorised without otypes",
                                 "%s reached without excluding object arrays" % cf.qualname, pf.ret_stmt,
                                 "np.vectorize infers the output type from the first element: a later element beyond 64 bits raises OverflowError")
            handled[key] = True
        elif key == "wrap":
            okw = isinstance(e, ast.Call) and wrapf is not None and prog.resolve_call(h, e) == wrapf.qualname
            if not okw:
                ck.bad(rule_wrapsel, h, "wrap mode reduces the value with the modular-wrap routine", "wrap branch returns %s" % src(pf.ret)[:90], pf.ret_stmt)
            else:
                x = actual(e, wrapf, "x")
                sg = actual(e, wrapf, "signed")
                nw = actual(e, wrapf, "n_word")
                good = x is not None and dotted(peel(x)[0]) == roles["val"] and dotted(sg) == "self.signed" and dotted(nw) == "self.n_word"
                ck.check(good, rule_wrapsel, h, "wrap is applied to the rounded value with the destination's own (signed, n_word)",
                         "wrap(%s, signed=%s, n_word=%s)" % (src(x)[:40] if x is not None else None, src(sg) if sg is not None else None, src(nw) if nw is not None else None),
                         pf.ret_stmt, "wrapping with another width/signedness stores a code that is not congruent mod 2^n_word or is out of range")
            handled[key] = True
        else:
            handled[key] = True
            ck.note("overflow handler has a branch for mode %r" % key)
    for m in modes:
        ck.check(m in handled, rule_wrapsel if m == "wrap" else rule_clamp, h, "configured overflow mode %r has a branch in the handler" % m,
                 "mode %r accepted by Config.overflow but not handled" % m)
    ck.check(any(pf.end == "raise" for pf in pfs), rule_clamp, h, "an unknown overflow mode raises", "no raising branch")
    # utils.clip body
    clipf = prog.func("utils.clip", required=False)
    if clipf is not None:
        ok = False
        for n in ast.walk(clipf.node):
            if isinstance(n, ast.Return) or isinstance(n, ast.Assign):
                v = n.value
                if v is None:
                    continue
                r = _clamp_form(prog, clipf, peel(v)[0], allow_calls=False)
                if r is not None:
                    x, lo, hi = r
                    ps = clipf.params
                    ok = dotted(peel(x)[0]) == ps[0] and dotted(lo) == ps[1] and dotted(hi) == ps[2]
                    if not ok:
                        ck.bad(rule_clamp, clipf, "utils.clip(x, lo, hi) computes max(lo, min(hi, x))", "body %s" % src(v)[:80], n,
                               "clamp with exchanged roles returns the wrong bound")
                    break
        else:
            # path-based: the returned expression after substitution (named intermediate results are seen through)
            found_p = False
            rets_ = [pf_ for pf_ in fpaths(prog, clipf) if pf_.end == "return" and pf_.ret is not None]
            forms_ = [_clamp_form(prog, clipf, peel(pf_.ret)[0], allow_calls=False) for pf_ in rets_]
            if rets_ and all(r is not None for r in forms_):         # every returning path is the max/min nest (no other route to a result)
                found_p = True
                ok = True
                for pf_, r in zip(rets_, forms_):
                    x, lo, hi = r
                    ps = clipf.params
                    if not (dotted(peel(x)[0]) == ps[0] and dotted(lo) == ps[1] and dotted(hi) == ps[2]):
                        ok = False
                        ck.bad(rule_clamp, clipf, "utils.clip(x, lo, hi) computes max(lo, min(hi, x))", "returns %s" % src(pf_.ret)[:80], pf_.ret_stmt,
                               "clamp with exchanged roles returns the wrong bound")
                        break
            if not found_p:
                ck.bad(rule_clamp, clipf, "utils.clip body is a clamp", "no max/min nest found in utils.clip", clipf.node)
        if ok:
            ck.ok(rule_clamp, clipf, "utils.clip(x, lo, hi) normalises to max(lo, min(hi, x))")


def _clamp_form(prog, f, e, allow_calls=True):
    """(x, lo, hi) for np.clip(x,lo,hi) / utils.clip(x,lo,hi) / max(lo,min(hi,x)) / min(hi,max(lo,x)) / np.minimum/maximum nests"""
    if not isinstance(e, ast.Call):
        return None
    fn = dotted(e.func)
    if fn is None and isinstance(e.func, ast.IfExp) and dotted(e.func.body) in ("np.clip", "utils.clip") and dotted(e.func.orelse) in ("np.clip", "utils.clip"):
        fn = "utils.clip"       # (np.clip if object-array else utils.clip)(x, lo, hi): both take (x, lo, hi) positionally
    if allow_calls and fn in ("clip", "int_clip") and ("utils." + fn) in prog.funcs:
        fn = "utils." + fn          # a call written inside utils (reached by inlining a utils helper): the module's own clip
    if allow_calls and fn in ("np.clip", "utils.clip", "utils.int_clip"):
        names = {"np.clip": ("a", "a_min", "a_max"), "utils.clip": ("x", "val_min", "val_max"), "utils.int_clip": ("x", "val_min", "val_max")}[fn]
        args = list(e.args) + [None] * 3
        x, lo, hi = args[0], args[1], args[2]
        for k in e.keywords:
            if k.arg in (names[0],):
                x = k.value
            if k.arg in (names[1], "min"):
                lo = k.value
            if k.arg in (names[2], "max"):
                hi = k.value
        if x is None or lo is None or hi is None:
            return None
        return x, lo, hi
    if fn in ("max", "np.maximum") and len(e.args) == 2:
        for lo, inner in ((e.args[0], e.args[1]), (e.args[1], e.args[0])):
            if isinstance(inner, ast.Call) and dotted(inner.func) in ("min", "np.minimum") and len(inner.args) == 2:
                # max(lo, min(hi, x)) : which of inner args is x? the one that is not a plain bound param... decide by position convention: (hi, x)
                a, b = inner.args
                return _pick_x(a, b, lo, outer="max")
    if fn in ("min", "np.minimum") and len(e.args) == 2:
        for hi, inner in ((e.args[0], e.args[1]), (e.args[1], e.args[0])):
            if isinstance(inner, ast.Call) and dotted(inner.func) in ("max", "np.maximum") and len(inner.args) == 2:
                a, b = inner.args
                r = _pick_x(a, b, hi, outer="min")
                if r:
                    x, lo_, hi_ = r
                    return x, lo_, hi_
    return None


def _pick_x(a, b, outer_bound, outer):
    """inner min/max has two args: one is the other bound, one the value. The value is recognised as the
    argument that is wrapped (int(x), np cast) or named x / new_val / value-like; otherwise the second."""
    def is_val(n):
        e, _ = peel(n)
        if isinstance(e, ast.Call) and dotted(e.func) in ("int", "float") and e.args:
            e = e.args[0]
        d = dotted(e)
        return d in ("x", "new_val", "val", "value", "v", "a")
    if is_val(a) and not is_val(b):
        x, other = a, b
    elif is_val(b) and not is_val(a):
        x, other = b, a
    else:
        x, other = b, a
    if isinstance(x, ast.Call) and dotted(x.func) in ("int", "float") and x.args:
        x = x.args[0]
    if outer == "max":
        return x, outer_bound, other       # max(lo, min(hi, x))
    return x, other, outer_bound           # min(hi, max(lo, x))
