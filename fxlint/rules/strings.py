"""C11 - binary and hex strings (width provenance, hex image, point position in an abstract string domain, decode terms, dispatch)."""
import ast
import string

from ..model import dotted, src, calls_in, kw, AnalysisError
from ..common import fpaths, peel, mkterm, mkbool, guard_cases, const_str, actual, walk_closure, none_state, path_literals, truth_on_path, infeasible
from ..terms import Term, exp2, NotATerm, witness, fapp
from ..paths import enum_paths, walk_path
from .. import anchors as A


def _opt_switch(pf, name, flag, value_path):
    """env[name] must be `value_path if flag else None` on this path"""
    v = pf.env.get(name)
    if v is None:
        return None
    t = truth_on_path(ast.Name(id=flag, ctx=ast.Load()), pf.guards)
    if t is True:
        return dotted(v) == value_path
    if t is False:
        return isinstance(v, ast.Constant) and v.value is None
    if isinstance(v, ast.IfExp) and dotted(v.test) == flag:
        return dotted(v.body) == value_path and isinstance(v.orelse, ast.Constant) and v.orelse.value is None
    return False


def _loc(g_, e):
    """a local name bound exactly once in g_ (or its enclosing function) to an attribute path denotes that path (n_word = self.n_word)"""
    if isinstance(e, ast.Name):
        for fn in (g_, getattr(g_, "parent", None)):
            if fn is None:
                continue
            asg = [n for n in ast.walk(fn.node) if isinstance(n, ast.Assign) and any(isinstance(t, ast.Name) and t.id == e.id for t in n.targets)]
            if len(asg) == 1 and dotted(asg[0].value) and dotted(asg[0].value).startswith("self."):
                return asg[0].value
    return e


def render_sites(ck, rule):
    """C11.R1: every binary_repr / hex_repr call in bin() and hex() renders with the object's own n_word, the code as Python int(s),
    the binary point at n_frac exactly when frac_dot is requested, and hex digits taken from the n_word-bit binary image (base=2)."""
    prog = ck.prog
    b = prog.func("objects.Fxp.bin")
    n_bin = n_hex = 0
    for pf in fpaths(prog, b):
        if pf.end != "return":
            continue
        okfd = _opt_switch(pf, "n_frac_dot", "frac_dot", "self.n_frac")
        if okfd is not True:
            ck.bad(rule, b, "bin(frac_dot=True) places the point n_frac digits from the right for every n_frac (0 included); frac_dot=False places none",
                   "n_frac_dot = %s" % (src(pf.env.get("n_frac_dot"))[:70] if pf.env.get("n_frac_dot") is not None else None), b.node,
                   "an and/or idiom or a wrong operand drops the point for n_frac == 0 or puts it elsewhere")
            break
    for g_, c in [(g_, n_) for g_, n_ in walk_closure(prog, b) if isinstance(n_, ast.Call)]:
        if prog.resolve_call(g_, c) == "utils.binary_repr":
            n_bin += 1
            nw, nf, px = kw(c, "n_word", 1), kw(c, "n_frac", 2), kw(c, "prefix", 3)
            x = c.args[0] if c.args else None
            xin = peel(x)[0] if x is not None else None
            okint = isinstance(x, ast.Call) and dotted(x.func) in ("int", "utils.int_array")
            if not okint and isinstance(x, ast.Name) and g_ is not b and x.id in g_.params:
                # helper closure: every call of the helper passes int(...) / utils.int_array(...)
                hc = [c2 for _, c2 in [(q_, n2) for q_, n2 in walk_closure(prog, b) if isinstance(n2, ast.Call)] if isinstance(c2.func, ast.Name) and c2.func.id == g_.name]
                okint = bool(hc) and all(c2.args and isinstance(c2.args[0], ast.Call) and dotted(c2.args[0].func) in ("int", "utils.int_array") for c2 in hc)
            ck.check(dotted(_loc(g_, nw)) == "self.n_word", rule, b, "bin() renders n_word characters: binary_repr(n_word=self.n_word)", "n_word=%s" % (src(nw) if nw is not None else None), c,
                     "the image is shorter/longer than the word")
            ck.check(dotted(nf) == "n_frac_dot", rule, b, "bin() passes the requested point position", "n_frac=%s" % (src(nf) if nf is not None else None), c, nontrivial=False)
            ck.check(okint, rule, b, "bin() renders the code as exact Python integer(s)", "value %s" % (src(x)[:50] if x is not None else None), c, "floats / numpy scalars of wide words lose bits")
            if okint and isinstance(x, ast.Call) and dotted(x.func) == "utils.int_array" and x.args and dotted(x.args[0]) == "self.val":
                ck.bad(rule, b, "a scalar code is rendered from int(code); int_array is for the elements of an array", "value %s" % src(x)[:50], c,
                       "int_array of a scalar beyond 64 bits is a 0-d object array, which the point-inserting renderer cannot convert")
            ck.check(dotted(px) == "prefix", rule, b, "bin() passes the selected prefix", "prefix=%s" % (src(px) if px is not None else None), c, nontrivial=False)
    h = prog.func("objects.Fxp.hex")
    for pf in fpaths(prog, h):
        if pf.end != "return":
            continue
        okp = _opt_switch(pf, "hex_n_word", "padding", "self.n_word")
        if okp is not True:
            ck.bad(rule, h, "hex(padding=True) pads to the word length", "hex_n_word = %s" % (src(pf.env.get("hex_n_word"))[:60] if pf.env.get("hex_n_word") is not None else None), h.node)
            break
    for g_, c in [(g_, n_) for g_, n_ in walk_closure(prog, h) if isinstance(n_, ast.Call)]:
        r = prog.resolve_call(g_, c)
        if r == "utils.hex_repr":
            n_hex += 1
            base = kw(c, "base", 3)
            nw = kw(c, "n_word", 1)
            x = c.args[0] if c.args else None
            # x must be a binary image: self.bin() result / loop variable over self.bin() / binary_repr(... n_word=self.n_word, n_frac=None)
            okx = False
            xi = peel(x)[0] if x is not None else None
            if isinstance(xi, ast.Call) and prog.resolve_call(h, xi) == b.qualname and not xi.args and not xi.keywords:
                okx = True
            elif isinstance(xi, ast.Call) and prog.resolve_call(h, xi) == "utils.binary_repr":
                nfx = kw(xi, "n_frac", 2)
                okx = dotted(_loc(g_, kw(xi, "n_word", 1))) == "self.n_word" and (nfx is None or (isinstance(nfx, ast.Constant) and nfx.value is None)) and kw(xi, "prefix", 3) is None
            elif isinstance(xi, ast.Name):
                # comprehension variable iterating self.bin()
                for comp in ast.walk(h.node):
                    if isinstance(comp, ast.ListComp) and any(n is c for n in ast.walk(comp)):
                        it = comp.generators[0].iter
                        okx = isinstance(it, ast.Call) and prog.resolve_call(h, it) == b.qualname and not it.args and not it.keywords and dotted(comp.generators[0].target) == xi.id
            ck.check(okx and isinstance(base, ast.Constant) and base.value == 2, rule, h, "hex() converts the n_word-bit binary image (base=2), never the signed integer",
                     "hex_repr(%s, base=%s)" % (src(x)[:50] if x is not None else None, src(base) if base is not None else None), c,
                     "hex of a negative or top-bit-set code is not the two's-complement bit pattern")
            ck.check(dotted(nw) == "hex_n_word", rule, h, "hex() passes the padding width", "n_word=%s" % (src(nw) if nw is not None else None), c, nontrivial=False)
    # helper closures that wrap the renderer count once per call of the helper
    for fn_, cnt_name in ((b, "bin"), (h, "hex")):
        for g_, c in [(g_, n_) for g_, n_ in walk_closure(prog, fn_) if isinstance(n_, ast.Call)]:
            if isinstance(c.func, ast.Name) and any(g2.name == c.func.id and g2 is not fn_ for g2, _ in [(q_, None) for q_ in __import__("fxlint.common", fromlist=["closure_funcs"]).closure_funcs(prog, fn_)]):
                if cnt_name == "bin":
                    n_bin += 1
                else:
                    n_hex += 1
    ck.check(n_bin >= 6 and n_hex >= 6, rule, b, "render call sites found: %d in bin(), %d in hex() (scalar/array x real/complex)" % (n_bin, n_hex), "only %d/%d render sites" % (n_bin, n_hex), b.node)
    ck.saw(b)
    ck.saw(h)


def _ident(d):
    return d


def hex_image(ck, rule):
    """C11.R2: utils.hex_repr renders ceil(n_word/4) zero-padded upper-case digits of int(x, 2)."""
    prog = ck.prog
    f = prog.func("utils.hex_repr")
    found = False
    for pf in fpaths(prog, f):
        if pf.end != "return" or pf.ret is None:
            continue
        if none_state(pf.guards, "n_word") is not False:
            continue
        base2 = None
        for t, pol in path_literals(pf.guards):
            if isinstance(t, ast.Compare) and len(t.ops) == 1 and dotted(t.left) == "base" and isinstance(t.comparators[0], ast.Constant) and t.comparators[0].value == 2:
                base2 = pol if isinstance(t.ops[0], ast.Eq) else ((not pol) if isinstance(t.ops[0], ast.NotEq) else None)
        if base2 is not True:
            continue
        found = True
        r = pf.ret
        # prefix + '{0:0{1}X}'.format(x, W)
        fmtc = [c for c in calls_in(r) if isinstance(c.func, ast.Attribute) and c.func.attr == "format" and const_str(c.func.value) is not None]
        if len(fmtc) != 1:
            ck.bad(rule, f, "hex_repr formats with a width-controlled format spec", "returns %s" % src(r)[:70], pf.ret_stmt)
            continue
        c = fmtc[0]
        spec_ok = False
        from ..common import format_fields
        a0 = wexpr = None
        for lit, val, parts, conv in format_fields(c):
            if parts:
                a0 = val
                spec_ok = len(parts) == 3 and parts[0] == "0" and parts[2] == "X" and isinstance(parts[1], ast.AST)
                wexpr = parts[1] if spec_ok else None
                if isinstance(parts[-1], str) and parts[-1].endswith("x"):
                    ck.bad(rule, f, "hex digits are upper case", "format spec %r" % parts, pf.ret_stmt, "lower-case digits")
        ck.check(spec_ok, rule, f, "format spec zero-fills to the given width in upper-case hex ('0<width>X')", "template %r" % const_str(c.func.value), pf.ret_stmt)
        # printed value = int(x, 2)
        ok0 = isinstance(a0, ast.Call) and dotted(a0.func) == "int" and len(a0.args) == 2 and isinstance(a0.args[1], ast.Constant) and a0.args[1].value == 2
        ck.check(ok0, rule, f, "with base=2 the digits come from int(x, 2) of the binary image", "value %s" % (src(a0)[:40] if a0 is not None else None), pf.ret_stmt)
        try:
            if wexpr is None:
                raise IndexError("no width field")
            w = mkterm(wexpr, rename=_ident)
            o = fapp("cdiv", Term.var("n_word"), Term.const(4))
            alt = None
            ck.saw(terms=1)
            ck.check(w == o, rule, f, "digit count is ceil(n_word / 4)", "width %s" % w.show(), pf.ret_stmt, "words whose length is not a multiple of 4 lose or gain a digit")
        except (NotATerm, IndexError) as e:
            ck.unsure(rule, f, "digit count is a term", pf.ret_stmt, str(e))
    ck.check(found, rule, f, "hex_repr has the padded base-2 path", "no path with n_word given and base == 2", f.node)
    ck.saw(f)


# ---- abstract strings: (length Term, digits right of the point or None)

class _Str:
    def __init__(self, length, right=None, haspoint=False):
        self.length, self.right, self.haspoint = length, right, haspoint


def _abs_str(e, L, nf, base="x_bin"):
    if isinstance(e, ast.Constant) and isinstance(e.value, str):
        if "." in e.value:
            i = e.value.index(".")
            return _Str(Term.const(len(e.value)), Term.const(len(e.value) - i - 1), True)
        return _Str(Term.const(len(e.value)))
    if isinstance(e, ast.Name) and e.id == base:
        return _Str(L)
    if isinstance(e, ast.Name):
        return _Str(Term.var("len(%s)" % e.id))
    if isinstance(e, ast.BinOp) and isinstance(e.op, ast.Add):
        a, b = _abs_str(e.left, L, nf, base), _abs_str(e.right, L, nf, base)
        if a.haspoint and b.haspoint:
            raise NotATerm("two points")
        if a.haspoint:
            return _Str(a.length + b.length, a.right + b.length, True)
        if b.haspoint:
            return _Str(a.length + b.length, b.right, True)
        return _Str(a.length + b.length)
    if isinstance(e, ast.BinOp) and isinstance(e.op, ast.Mult):
        for s_, n_ in ((e.left, e.right), (e.right, e.left)):
            if isinstance(s_, ast.Constant) and isinstance(s_.value, str) and "." not in s_.value:
                k = mkterm(n_, rename=lambda d: d, env={"len(x_bin)": None} if False else None)
                return _Str(k * len(s_.value))
        raise NotATerm("string product")
    if isinstance(e, ast.Subscript) and isinstance(e.slice, ast.Slice) and isinstance(e.value, ast.Name) and e.value.id == base:
        lo, hi = e.slice.lower, e.slice.upper

        def idx(t, default):
            if t is None:
                return default
            v = mkterm(t, rename=lambda d: d)
            cv = v.const_value()
            if cv is not None and cv >= 0:
                return v
            # negative index -k -> L - k  (k positive under the branch guard)
            return L + v if (cv is None or cv < 0) else v
        a = idx(lo, Term.const(0))
        b = idx(hi, L)
        return _Str(b - a)
    raise NotATerm("string expr %s" % src(e)[:50])


class _LenRewrite(ast.NodeTransformer):
    def __init__(self, base):
        self.base = base

    def visit_Call(self, n):
        self.generic_visit(n)
        if dotted(n.func) == "len" and len(n.args) == 1 and dotted(n.args[0]) == self.base:
            return ast.Name(id="L", ctx=ast.Load())
        return n


def _region_feasible(guards, nfp, base):
    """is there an ordering of n_frac relative to 0 and len(x) (L >= 1) under which every guard has its path polarity?
    The guards only compare n_frac with 0 and with len(x): five order regions cover all integers."""
    import copy
    Lval = 3
    for nval in (-1, 0, 1, 2, 3, 4):
        ok = True
        for g in guards:
            t = _LenRewrite(base).visit(copy.deepcopy(g[2]))
            try:
                v = _eval_cmp(t, {nfp: nval, "L": Lval})
            except ValueError:
                return True      # guard outside the comparison vocabulary: assume feasible
            if bool(v) != g[1]:
                ok = False
                break
        if ok:
            return True
    return False


def _eval_cmp(t, env):
    if isinstance(t, ast.Constant) and isinstance(t.value, (int, bool)):
        return t.value
    if isinstance(t, ast.Name) and t.id in env:
        return env[t.id]
    if isinstance(t, ast.UnaryOp) and isinstance(t.op, ast.USub):
        return -_eval_cmp(t.operand, env)
    if isinstance(t, ast.UnaryOp) and isinstance(t.op, ast.Not):
        return not _eval_cmp(t.operand, env)
    if isinstance(t, ast.BoolOp):
        vals = [_eval_cmp(v, env) for v in t.values]
        return all(vals) if isinstance(t.op, ast.And) else any(vals)
    if isinstance(t, ast.Compare):
        cur = _eval_cmp(t.left, env)
        for op, r in zip(t.ops, t.comparators):
            rv = _eval_cmp(r, env)
            okc = {ast.Lt: cur < rv, ast.LtE: cur <= rv, ast.Gt: cur > rv, ast.GtE: cur >= rv, ast.Eq: cur == rv, ast.NotEq: cur != rv}.get(type(op))
            if okc is None:
                raise ValueError("op")
            if not okc:
                return False
            cur = rv
        return True
    raise ValueError("expr")


def _abs2(e, nf_name, lens):
    """abstract string (length, digits right of point, haspoint) of a substituted expression; sub-expressions that are not string
    constants / concatenations / repetitions / slices are opaque bases with a symbolic length len(<src>) (registered in ``lens``)"""
    if isinstance(e, ast.Constant) and isinstance(e.value, str):
        if "." in e.value:
            i_ = e.value.index(".")
            return _Str(Term.const(len(e.value)), Term.const(len(e.value) - i_ - 1), True)
        return _Str(Term.const(len(e.value)))
    if isinstance(e, ast.BinOp) and isinstance(e.op, ast.Add):
        a, b = _abs2(e.left, nf_name, lens), _abs2(e.right, nf_name, lens)
        if a.haspoint and b.haspoint:
            raise NotATerm("two points")
        if a.haspoint:
            return _Str(a.length + b.length, a.right + b.length, True)
        if b.haspoint:
            return _Str(a.length + b.length, b.right, True)
        return _Str(a.length + b.length)
    if isinstance(e, ast.BinOp) and isinstance(e.op, ast.Mult):
        for s_, n_ in ((e.left, e.right), (e.right, e.left)):
            if isinstance(s_, ast.Constant) and isinstance(s_.value, str) and "." not in s_.value:
                return _Str(_len_term(n_, nf_name, lens) * len(s_.value))
        raise NotATerm("string product")
    if isinstance(e, ast.Subscript) and isinstance(e.slice, ast.Slice):
        base = _abs2(e.value, nf_name, lens)
        if base.haspoint:
            raise NotATerm("slice of pointed string")
        L = base.length
        lo, hi = e.slice.lower, e.slice.upper

        def idx(t, default):
            if t is None:
                return default
            v = _len_term(t, nf_name, lens)
            cv = v.const_value()
            if cv is not None and cv >= 0:
                return v
            if cv is not None and cv < 0:
                return L + v
            # -n_frac style: a negated positive quantity
            if isinstance(t, ast.UnaryOp) and isinstance(t.op, ast.USub):
                return L + v
            return v
        a = idx(lo, Term.const(0))
        b = idx(hi, L)
        return _Str(b - a)
    # opaque base
    key = src(e)
    lens.setdefault(key, Term.var("len<%d>" % len(lens)))
    return _Str(lens[key])


def _len_term(t, nf_name, lens):
    """integer expression with len(X) replaced by the abstract length of X"""
    import copy

    class R(ast.NodeTransformer):
        def visit_Call(self, n):
            self.generic_visit(n)
            if dotted(n.func) == "len" and len(n.args) == 1:
                a = _abs2(n.args[0], nf_name, lens)
                return _TermNode(a.length)
            return n
    t2 = R().visit(copy.deepcopy(t))
    return _term_with_nodes(t2)


class _TermNode(ast.AST):
    _fields = ()

    def __init__(self, term):
        self.term = term


def _term_with_nodes(e):
    if isinstance(e, _TermNode):
        return e.term
    if isinstance(e, ast.BinOp) and isinstance(e.op, (ast.Add, ast.Sub, ast.Mult)):
        l, r = _term_with_nodes(e.left), _term_with_nodes(e.right)
        return l + r if isinstance(e.op, ast.Add) else (l - r if isinstance(e.op, ast.Sub) else l * r)
    if isinstance(e, ast.UnaryOp) and isinstance(e.op, ast.USub):
        return -_term_with_nodes(e.operand)
    return mkterm(e, rename=lambda d: d)


def point_position(ck, rule):
    """C11.R3: on every path of insert_frac_point (0 <= n_frac) the returned string has exactly n_frac digits to the right of the point.
    The returned expression (after substitution) is interpreted in an abstract string domain (length, digits right of the point)."""
    prog = ck.prog
    f = prog.func("utils.insert_frac_point")
    xb, nfp = f.params[0], f.params[1]
    nf = Term.var(nfp)
    okn = 0
    pfs = fpaths(prog, f)
    ck.saw(f, paths=len(pfs))
    for pf in pfs:
        if pf.end != "return" or pf.ret is None:
            continue
        if none_state(pf.guards, nfp) is not False:
            continue
        lens = {}
        # ordering guards on n_frac: n_frac < 0 is outside the quantifier
        neg = False
        eqs = {}
        rawguards = []
        for t, pol in path_literals(pf.guards):
            if isinstance(t, ast.Compare) and any(dotted(x) == nfp for x in [t.left] + list(t.comparators)):
                rawguards.append((t, pol))
        try:
            s_ = _abs2(pf.ret, nfp, lens)
        except NotATerm as e:
            ck.unsure(rule, f, "returned string is in the abstract string vocabulary", pf.ret_stmt, "%s: %s" % (e, src(pf.ret)[:80]))
            continue
        # evaluate the ordering guards over the regions of n_frac relative to 0 and to the digit count
        digit_len = None
        for t, pol in rawguards:
            for x in [t.left] + list(t.comparators):
                if isinstance(x, ast.Call) and dotted(x.func) == "len":
                    digit_len = _abs2(x.args[0], nfp, lens).length
        feasible_regions = []
        Lval = 3
        for nval in (-1, 0, 1, 2, 3, 4):
            okr = True
            for t, pol in rawguards:
                try:
                    v = _eval_cmp(_LenConst(Lval).visit(__import__("copy").deepcopy(t)), {nfp: nval})
                except ValueError:
                    continue
                if bool(v) != pol:
                    okr = False
                    break
            if okr:
                feasible_regions.append(nval)
        if not feasible_regions:
            continue
        if all(v < 0 for v in feasible_regions):
            continue       # n_frac < 0: outside the quantifier
        if not s_.haspoint:
            ck.bad(rule, f, "every n_frac >= 0 gets a binary point", "no point inserted for n_frac in region %s (digit count 3)" % feasible_regions, pf.ret_stmt,
                   "some fraction length falls through all branches")
            continue
        sub = {}
        if feasible_regions == [0]:
            sub[("v", nfp)] = Term.const(0)
        if feasible_regions == [Lval] and digit_len is not None:
            # n_frac == number of digits: express the digit count through n_frac
            for a in digit_len.atoms():
                if a[0] == "v":
                    sub[a] = nf - (digit_len - Term.atom(a))
        got = s_.right.subst(sub)
        want = nf.subst(sub)
        ck.saw(terms=1)
        if got != want:
            ck.bad(rule, f, "the point is placed n_frac digits from the right", "returns %s: %s digits after the point, expected %s (n_frac region %s of digit count 3)" % (src(pf.ret_stmt.value)[:50] if pf.ret_stmt is not None and pf.ret_stmt.value is not None else "", got.show(), want.show(), feasible_regions), pf.ret_stmt,
                   {"witness": witness(got, want)})
            continue
        okn += 1
    ck.check(okn >= 4, rule, f, "insert_frac_point: %d feasible paths each leave exactly n_frac digits right of the point" % okn, "only %d point-inserting paths recognised" % okn, f.node)


class _LenConst(ast.NodeTransformer):
    """len(<anything>) -> constant digit count (for the finite ordering regions)"""

    def __init__(self, L):
        self.L = L

    def visit_Call(self, n):
        if dotted(n.func) == "len":
            return ast.Constant(value=self.L)
        return self.generic_visit(n)


def decode_terms(ck, rule):
    """C11.R4: strbin2int sign-extends short strings with their first character when signed ('0' otherwise) and decodes a leading 1 as low - 2^(n_word-1);
    the hex parsers pad to n_word bits and decode through the binary parsers with the caller's n_word."""
    prog = ck.prog
    f = prog.func("utils.strbin2int")
    ext_signed = ext_unsigned = dec = 0
    for n in ast.walk(f.node):
        if isinstance(n, ast.If) and dotted(n.test) == "signed":
            for br, want in ((n.body, "x[0]"), (n.orelse, "'0'")):
                for s in br:
                    if isinstance(s, ast.Assign) and dotted(s.targets[0]) == "x" and isinstance(s.value, ast.BinOp) and isinstance(s.value.op, ast.Add):
                        pad = s.value.left
                        if isinstance(pad, ast.BinOp) and isinstance(pad.op, ast.Mult):
                            ch = src(pad.left)
                            cnt = mkterm(pad.right, rename=lambda d: d)
                            okc = ch == want and cnt == Term.var("n_word") - fapp_len()
                            if want == "x[0]":
                                ext_signed += 1
                                ck.check(okc, rule, f, "a short signed string is sign-extended with its own first bit to n_word characters", "pads with %s * (%s)" % (ch, cnt.show()), s,
                                         "negative values written with fewer bits decode as positive")
                            else:
                                ext_unsigned += 1
                                ck.check(okc, rule, f, "a short unsigned string is zero-extended to n_word characters", "pads with %s * (%s)" % (ch, cnt.show()), s)
    if ext_signed == 0 or ext_unsigned == 0:
        # path-based: on every path where the string is shorter than the word, the final x is PAD * (n_word - len(x)) + x with PAD = x[0] when the
        # path has signed true and '0' when it has signed false (named locals, a conditional fill character and merged branches are seen through)
        ext_signed = ext_unsigned = 0

        class _Abs(ast.NodeTransformer):
            """replace every occurrence of the cleaned input string (the value x had before it was extended) by the name x"""
            def __init__(self, key):
                self.key = key

            def visit(self, node):
                if isinstance(node, ast.expr) and ast.dump(node) == self.key:
                    return ast.Name(id="x", ctx=ast.Load())
                return self.generic_visit(node)
        import copy as _cp
        for pf in fpaths(prog, f):
            if pf.end == "raise":
                continue
            xs = [st for st in pf.stores if st.path == "x" and st.depth == 0]
            ext = [st for st in xs if isinstance(st.value, ast.BinOp) and isinstance(st.value.op, ast.Add) and isinstance(st.value.left, ast.BinOp) and isinstance(st.value.left.op, ast.Mult)]
            if not ext:
                continue
            st_e = ext[-1]
            prev = [st for st in xs if st is not st_e and pf.stores.index(st) < pf.stores.index(st_e)]
            key = ast.dump(prev[-1].value) if prev else ast.dump(ast.Name(id="x", ctx=ast.Load()))
            ab = lambda e: _Abs(key).visit(_cp.deepcopy(e))
            lits = [(ab(t), pol) for t, pol in path_literals(pf.guards)]
            pf = type("P", (), {"env": {"x": ab(st_e.value)}, "ret_stmt": st_e.stmt, "guards": pf.guards})()
            short = any(pol and isinstance(t, ast.Compare) and len(t.ops) == 1 and isinstance(t.ops[0], ast.Lt) and src(t.left) == "len(x)" and dotted(t.comparators[0]) == "n_word" for t, pol in lits) or \
                any(pol and isinstance(t, ast.Compare) and len(t.ops) == 1 and isinstance(t.ops[0], ast.Gt) and dotted(t.left) == "n_word" and src(t.comparators[0]) == "len(x)" for t, pol in lits)
            if not short:
                continue
            sg = [pol for t, pol in lits if dotted(t) == "signed"]
            if not sg:
                continue
            xf = pf.env.get("x")
            okc = False
            shown = src(xf)[:60] if xf is not None else None
            if isinstance(xf, ast.BinOp) and isinstance(xf.op, ast.Add) and dotted(xf.right) == "x" and isinstance(xf.left, ast.BinOp) and isinstance(xf.left.op, ast.Mult):
                a, b = xf.left.left, xf.left.right
                pad, cnt_e = (a, b) if (const_str(a) is not None or isinstance(a, ast.Subscript)) else (b, a)
                try:
                    cnt = mkterm(cnt_e, rename=lambda d: d)
                    want = "x[0]" if sg[-1] else "'0'"
                    okc = src(pad) == want and cnt == Term.var("n_word") - fapp_len()
                    shown = "pads with %s * (%s)" % (src(pad), cnt.show())
                except NotATerm:
                    pass
            if sg[-1]:
                ext_signed += 1
                ck.check(okc, rule, f, "a short signed string is sign-extended with its own first bit to n_word characters", "%s" % shown, pf.ret_stmt,
                         "negative values written with fewer bits decode as positive")
            else:
                ext_unsigned += 1
                ck.check(okc, rule, f, "a short unsigned string is zero-extended to n_word characters", "%s" % shown, pf.ret_stmt)
    # decode: val = -1*((1 << (n_word-1)) - val) under x[0] == '1'
    for n in ast.walk(f.node):
        if isinstance(n, ast.If) and isinstance(n.test, ast.Compare) and src(n.test.left) == "x[0]" and const_str(n.test.comparators[0]) == "1":
            for s in n.body:
                if isinstance(s, ast.Assign) and dotted(s.targets[0]) == "val":
                    dec += 1
                    t = mkterm(s.value, rename=lambda d: d)
                    o = Term.var("val") - exp2(Term.var("n_word") - 1)
                    ck.saw(terms=1)
                    ck.check(t == o, rule, f, "a leading 1 decodes as low_bits - 2^(n_word-1) (two's complement)", "decodes as %s" % t.show(), s, {"witness": witness(t, o)})
    ck.check(ext_signed >= 1 and ext_unsigned >= 1 and dec >= 1, rule, f, "strbin2int: sign extension (signed/unsigned) and two's-complement decode found", "extension/decode sites: %d/%d/%d" % (ext_signed, ext_unsigned, dec), f.node)
    # low bits parsed base 2 from x[1:]
    ok_low = any(isinstance(c, ast.Call) and dotted(c.func) == "int" and len(c.args) == 2 and src(c.args[0]) == "x[1:]" and isinstance(c.args[1], ast.Constant) and c.args[1].value == 2 for c in calls_in(f.node))
    ck.check(ok_low, rule, f, "the magnitude bits are int(x[1:], 2)", "no int(x[1:], 2)", f.node)
    # hex parsers delegate with the caller's n_word
    for q, target, nargs in (("utils.strhex2int", "utils.strbin2int", ("x_bin", "signed", "n_word")), ("utils.strhex2float", "utils.strbin2float", ("x_bin", "signed", "n_word", "n_frac"))):
        g = prog.func(q)
        cs = [c for g2, c in walk_closure(prog, g) if isinstance(c, ast.Call) and prog.resolve_call(g2, c) == target]
        if not cs:
            # decodes by itself: every shift amount must be expressed in n_word
            bad_syms = set()
            for n in ast.walk(g.node):
                if isinstance(n, ast.BinOp) and isinstance(n.op, ast.LShift):
                    for x in ast.walk(n.right):
                        if isinstance(x, ast.Name) and x.id != "n_word":
                            bad_syms.add(x.id)
            ck.bad(rule, g, "%s decodes through the binary parser with the caller's n_word (sibling of %s)" % (g.name, "strhex2float" if "int" in q else "strhex2int"),
                   "%s does not call %s%s" % (g.name, target.split(".")[1], "; sign logic uses %s" % sorted(bad_syms) if bad_syms else ""), g.node,
                   "a private two's-complement decode keyed on the digit count instead of n_word mis-decodes words whose length is not a multiple of 4")
            continue
        c = cs[0]
        got = tuple(dotted(a) for a in c.args[:len(nargs)])
        ck.check(got == nargs, rule, g, "%s passes (%s) to %s" % (g.name, ", ".join(nargs), target.split(".")[1]), "passes %s" % (got,), c, "width/signedness of the caller is not the one decoded with")
        # zero-padding to n_word bits before decoding
        # on some path the image handed to the binary parser is zero-extended: '0' * (n_word - <digits>)
        padded = False
        for pf in fpaths(prog, g):
            for ce in pf.calls:
                if prog.resolve_call(ce.ctx or g, ce.raw) == target and ce.call.args:
                    for n in ast.walk(ce.call.args[0]):
                        if isinstance(n, ast.BinOp) and isinstance(n.op, ast.Mult) and any(isinstance(x, ast.Constant) and x.value == "0" for x in (n.left, n.right)):
                            cnt = n.right if isinstance(n.left, ast.Constant) else n.left
                            if any(dotted(y) == "n_word" or (isinstance(y, ast.Name) and y.id == "n_word") for y in ast.walk(cnt)) or "n_word" in src(cnt) or "len(" in src(cnt):
                                padded = True
        ck.check(padded, rule, g, "%s left-pads the binary image to n_word bits (hex digits of a top nibble may be short)" % g.name, "no padding to n_word", g.node)
    ck.saw(f)


def fapp_len():
    return Term.var("<len(x)>")


def parse_dispatch(ck, rule):
    """C11.R5: str2num selects binary by 'b' and hex by 'x' in the first two characters and forwards signed/n_word/n_frac; from_bin adds the prefix."""
    prog = ck.prog
    f = prog.func("utils.str2num")
    table = {"utils.strbin2int": ("x", "signed", "n_word"), "utils.strbin2float": ("x", "signed", "n_word", "n_frac"), "utils.strbin2complex": None,
             "utils.strhex2int": ("x", "signed", "n_word"), "utils.strhex2float": ("x", "signed", "n_word", "n_frac")}
    seen = set()
    done = set()
    for pf in fpaths(prog, f):
        for ce in pf.calls:
            c = ce.call                       # substituted: a parser chosen by a conditional expression / table is the chosen function here
            from ..pinned import PINNED_FUNCS as _PF
            in_helper = bool(ce.depth) and ce.ctx is not None and ce.ctx.qualname not in _PF
            if ce.depth and not in_helper:
                continue
            r = prog.resolve_call(ce.ctx or f, c)
            if r in table and table[r] is not None:
                seen.add(r)
                # arguments as written (the string itself may have been rewritten before, e.g. x.replace('h', 'x'))
                got = tuple(dotted(a) for a in ce.raw.args[:len(table[r])])
                if in_helper:
                    # inside a helper extracted from str2num: the substituted arguments are str2num's own names again
                    got = ("x",) + tuple(dotted(a) for a in ce.call.args[1:len(table[r])])
                if (r, got) in done:
                    continue
                done.add((r, got))
                ck.check(got == table[r], rule, f, "str2num forwards %s to %s" % (", ".join(table[r]), r.split(".")[1]), "passes %s" % (got,), ce.raw, "the string is decoded with another width/signedness than the object's")
    ck.check(len(seen) == 4, rule, f, "str2num dispatches to the four bin/hex parsers", "reaches only %s" % sorted(seen), f.node)
    # selectors
    sel = {"b": False, "x": False}
    for _g, n in walk_closure(prog, f):
        if isinstance(n, ast.Compare) and len(n.ops) == 1 and isinstance(n.ops[0], ast.In) and const_str(n.left) in sel and isinstance(n.comparators[0], ast.Subscript) \
                and isinstance(n.comparators[0].value, ast.Name) and src(n.comparators[0].slice) == ":2":
            sel[const_str(n.left)] = True
    ck.check(all(sel.values()), rule, f, "binary strings are recognised by 'b' and hex strings by 'x' within the first two characters", "selectors found: %s" % sel, f.node,
             "prefixed strings are taken for decimals")
    # recursion result used for containers without writing the argument: C20.R5
    for q in ("objects.Fxp.from_bin", "functions.from_bin"):
        g = prog.func(q)
        okp = any(prog.resolve_call(g, c) == "utils.add_binary_prefix" for c in calls_in(g.node))
        ck.check(okp, rule, g, "%s routes its string through add_binary_prefix" % q, "%s does not add the binary prefix" % q, g.node, "an unprefixed string would be parsed as decimal")
    ck.saw(f)


def string_arms(ck, rule):
    """C11.R6: both string arms of the normaliser (Python str/list/tuple and ndarray of str) parse with n_frac=None in raw mode and with the object's n_frac
    otherwise, and never give raw integer codes a float value type (a binary64 cast loses codes above 2^53)."""
    prog = ck.prog
    fm = A.normaliser(prog)
    n_raw = n_val = 0
    seen = set()
    for pf in fpaths(prog, fm):
        if pf.end == "raise":
            continue
        cs = [ce for ce in pf.calls if isinstance(ce.raw.func, ast.Attribute) and ce.raw.func.attr == "str2num"]
        if not cs:
            continue
        ce = cs[-1]
        raw = truth_on_path(ast.Name(id="raw", ctx=ast.Load()), pf.guards)
        nfa = ce.call.args[3] if len(ce.call.args) > 3 else None
        arm = "ndarray-of-str" if any("np.str_" in src(g[0]) for g in pf.guards) else "str/list"
        if raw is True:
            n_raw += 1
            ok1 = isinstance(nfa, ast.Constant) and nfa.value is None
            if not ok1 and ("nf", arm) not in seen:
                seen.add(("nf", arm))
                ck.bad(rule, fm, "raw strings are parsed as integer codes (str2num with n_frac=None)", "%s arm passes n_frac=%s in raw mode" % (arm, src(nfa) if nfa is not None else None), ce.stmt,
                       "the code is divided by 2^n_frac while parsing and truncated: raw round trip fails")
            vd = pf.ret.elts[1] if isinstance(pf.ret, ast.Tuple) and len(pf.ret.elts) > 1 else None
            if vd is not None and dotted(vd) in ("float", "np.float64") and ("vd", arm) not in seen:
                seen.add(("vd", arm))
                ck.bad(rule, fm, "raw integer codes parsed from strings keep an integer value type", "normaliser:%s raw codes typed float" % arm, pf.ret_stmt,
                       "set_val casts the codes to binary64 before storing: codes with more than 53 significant bits (n_word 54..63) are altered")
        elif raw is None:
            if ("split", arm) not in seen:
                seen.add(("split", arm))
                ck.bad(rule, fm, "each string arm distinguishes raw codes from values before parsing", "%s arm calls str2num(n_frac=%s) without testing raw" % (arm, src(nfa) if nfa is not None else None), ce.stmt,
                       "raw codes are parsed as values: divided by 2^n_frac and truncated (the two string arms disagree)")
        elif raw is False:
            n_val += 1
            ok2 = dotted(nfa) == "self.n_frac"
            if not ok2 and ("nfv", arm) not in seen:
                seen.add(("nfv", arm))
                ck.bad(rule, fm, "value strings are parsed with the object's n_frac", "%s arm passes n_frac=%s" % (arm, src(nfa) if nfa is not None else None), ce.stmt)
    ck.check(n_raw > 0 and n_val > 0, rule, fm, "string arms examined: %d raw paths, %d value paths" % (n_raw, n_val), "string arms not found (%d/%d)" % (n_raw, n_val), fm.node)


def decimal_arm(ck, rule):
    """C01.R8: decimal strings are converted by float(x) / int(x) / complex(x) applied to the string itself: no truncating conversion (int(float(x)),
    round, floor) sits between the text and the rounding stage of set_val."""
    prog = ck.prog
    f = prog.func("utils.str2num")
    n = 0
    seen = set()
    for pf in fpaths(prog, f):
        for st in pf.stores:
            if st.path != "val":
                continue
            v = st.raw_value
            if not isinstance(v, ast.Call) or dotted(v.func) not in ("int", "float", "complex", "round", "np.floor", "np.trunc", "math.floor", "math.trunc"):
                continue
            inner = v.args[0] if v.args else None
            nested = isinstance(inner, ast.Call) and dotted(inner.func) in ("float", "Decimal", "complex")
            trunc = dotted(v.func) in ("int", "round", "np.floor", "np.trunc", "math.floor", "math.trunc") and nested
            n += 1
            k = src(v)
            if k in seen:
                continue
            seen.add(k)
            ck.check(not trunc, rule, f, "string inputs are parsed without a truncating conversion of their own", "val = %s" % src(v)[:60], st.stmt,
                     "the fractional digits are dropped before scaling: the configured rounding mode never sees them")
    if n == 0:
        raise AnalysisError("str2num: numeric conversions not found")


def base_numeral(ck, rule):
    """C11.R7: utils.base_repr returns np.base_repr(x, base) - the sign-magnitude numeral of the code - and inserts a point only for base 2 with a
    requested position (n_frac counts bits, not digits of another base)."""
    prog = ck.prog
    f = prog.func("utils.base_repr")
    n = 0
    for pf in fpaths(prog, f):
        if pf.end != "return" or pf.ret is None:
            continue
        n += 1
        r = pf.ret
        pt = None
        if isinstance(r, ast.Call) and prog.resolve_call(f, r) == "utils.insert_frac_point":
            pt = r
            r = r.args[0] if r.args else None
        okn = isinstance(r, ast.Call) and dotted(r.func) == "np.base_repr" and r.args and dotted(r.args[0]) == "x" and dotted(kw(r, "base", 1)) == "base"
        ck.check(okn, rule, f, "base_repr renders np.base_repr(x, base=base)", "returns %s" % src(pf.ret)[:70], pf.ret_stmt)
        if pt is not None:
            b2 = None
            for t, pol in path_literals(pf.guards):
                if isinstance(t, ast.Compare) and len(t.ops) == 1 and dotted(t.left) == "base" and isinstance(t.comparators[0], ast.Constant) and t.comparators[0].value == 2:
                    b2 = pol if isinstance(t.ops[0], ast.Eq) else ((not pol) if isinstance(t.ops[0], ast.NotEq) else None)
            ck.check(b2 is True and none_state(pf.guards, "n_frac") is False, rule, f, "a point is inserted only into base-2 numerals, at the requested bit position",
                     "point inserted under %s" % [(src(g[0])[:30], g[1]) for g in pf.guards], pf.ret_stmt, "n_frac counts bits: in another base the point lands between the wrong digits")
    if n == 0:
        raise AnalysisError("utils.base_repr: no returning path")
    ck.saw(f)


_DIGITCHARS = set("0123456789.")


def _flat_concat(e, out):
    if isinstance(e, ast.BinOp) and isinstance(e.op, ast.Add):
        _flat_concat(e.left, out)
        _flat_concat(e.right, out)
    elif isinstance(e, ast.Call) and isinstance(e.func, ast.Attribute) and e.func.attr == "format" and const_str(e.func.value) is not None:
        from ..common import format_fields
        for lit, fld, spec, conv in format_fields(e):
            if lit:
                out.append(ast.Constant(lit))
            if fld is not None:
                if spec:
                    out.append(e)           # a width / fill spec can add characters: not a plain concatenation
                    return
                _flat_concat(fld, out)
    elif isinstance(e, ast.JoinedStr):
        for v in e.values:
            _flat_concat(v.value if isinstance(v, ast.FormattedValue) else v, out)
    else:
        out.append(e)


def _clean_chain(e, root_ok, prefix_name):
    """e is the input string passed through character-level clean-ups only: .lower()/.upper()/.casefold()/.strip(), .replace(A, B) where A is
    not made of digit characters alone and B adds no digit character of its own (B is '', letters, signs, or signs + the prefix).
    Returns (True, None) / (False, reason) / (None, None) when e is not rooted at the input at all."""
    cur = e
    while True:
        if root_ok(cur):
            return True, None
        if isinstance(cur, ast.Call) and isinstance(cur.func, ast.Attribute):
            m = cur.func.attr
            if m in ("lower", "upper", "casefold", "strip", "lstrip", "rstrip") :
                if m.endswith("strip") and cur.args:
                    a = const_str(cur.args[0])
                    if a is None or (set(a) & _DIGITCHARS):
                        return False, "%s(%s) can remove digits" % (m, src(cur.args[0]))
                cur = cur.func.value
                continue
            if m == "replace" and len(cur.args) >= 2:
                a = const_str(cur.args[0])
                if a is None or a == "" or not (set(a) - _DIGITCHARS):
                    return False, "replace(%s, ...) removes digit characters" % src(cur.args[0])[:30]
                parts = []
                _flat_concat(cur.args[1], parts)
                for p in parts:
                    if dotted(p) == prefix_name:
                        continue
                    s = const_str(p)
                    if s is None or (set(s) & _DIGITCHARS):
                        return False, "replace(..., %s) inserts characters that are not the prefix" % src(cur.args[1])[:40]
                cur = cur.func.value
                continue
        return None, None


def prefix_helper(ck, rule):
    """C11.R8: utils.add_binary_prefix returns the selected prefix followed by the caller's digits: on every returning path the result is a
    concatenation of `prefix` and the input string passed through character clean-ups only (case folding, removal of blanks / of an old prefix,
    i -> j); no digit or point is added or removed, so an n_word-character image stays n_word characters long."""
    prog = ck.prog
    f = prog.func("utils.add_binary_prefix")
    params = [a.arg for a in f.node.args.args]
    if len(params) < 2:
        raise AnalysisError("utils.add_binary_prefix: parameters not found")
    xname, pname = params[0], params[1]

    def root_ok(e):
        d = dotted(e)
        if d == xname:
            return True
        return isinstance(e, ast.Call) and not e.args and dotted(e.func) in (xname + ".item", "str") or (isinstance(e, ast.Call) and dotted(e.func) == "str" and len(e.args) == 1 and root_ok(e.args[0]))
    n = 0
    for pf in fpaths(prog, f):
        if pf.end != "return" or pf.ret is None:
            continue
        n += 1
        parts = []
        _flat_concat(pf.ret, parts)
        chains, bad = 0, None
        for p in parts:
            if dotted(p) == pname:
                continue
            s = const_str(p)
            if s is not None:
                if set(s) & _DIGITCHARS:
                    bad = "literal %r joined to the digits" % s
                continue
            okc, why = _clean_chain(p, root_ok, pname)
            if okc is True:
                chains += 1
            elif okc is False:
                bad = why
            else:
                bad = "operand %s is neither the prefix nor the cleaned input" % src(p)[:50]
        if bad is None and chains != 1:
            bad = "the input's digits appear %d times in the result" % chains
        ck.check(bad is None, rule, f, "add_binary_prefix returns prefix + the caller's digits (character clean-ups only)",
                 "returns %s: %s" % (src(pf.ret)[:80], bad), pf.ret_stmt,
                 "a digit or point added / removed by the prefix helper changes the length of the rendered image (bin() is no longer n_word characters) or the parsed code")
    if n == 0:
        raise AnalysisError("utils.add_binary_prefix: no returning path")
    ck.saw(f, paths=n)


def _rank_test(t, subject):
    """(meaning if true, meaning if false) of a rank test on `subject`, meanings 'rank1' / 'scalar' / None"""
    if isinstance(t, ast.Compare) and len(t.ops) == 1:
        l, op, r = t.left, t.ops[0], t.comparators[0]
        ld = dotted(l)
        is_ndim = ld == subject + ".ndim" or (isinstance(l, ast.Call) and dotted(l.func) in ("np.ndim",) and l.args and dotted(l.args[0]) == subject) \
            or (isinstance(l, ast.Call) and dotted(l.func) == "len" and l.args and dotted(l.args[0]) in (subject + ".shape",)) \
            or (isinstance(l, ast.Call) and dotted(l.func) == "len" and l.args and isinstance(l.args[0], ast.Call) and dotted(l.args[0].func) in ("np.shape",) and l.args[0].args and dotted(l.args[0].args[0]) == subject)
        if is_ndim and isinstance(r, ast.Constant) and isinstance(r.value, int):
            c = r.value
            if (isinstance(op, ast.Gt) and c == 0) or (isinstance(op, ast.GtE) and c == 1) or (isinstance(op, ast.NotEq) and c == 0):
                return ("rank1", "scalar")
            if (isinstance(op, ast.Eq) and c == 0) or (isinstance(op, ast.Lt) and c == 1) or (isinstance(op, ast.LtE) and c == 0):
                return ("scalar", "rank1")
        if ld == subject + ".shape" and isinstance(r, ast.Tuple) and not r.elts:
            if isinstance(op, ast.NotEq):
                return ("rank1", "scalar")
            if isinstance(op, ast.Eq):
                return ("scalar", "rank1")
    if isinstance(t, ast.Call) and dotted(t.func) == "isinstance" and len(t.args) == 2 and dotted(t.args[0]) == subject:
        names = [dotted(e) for e in (t.args[1].elts if isinstance(t.args[1], ast.Tuple) else [t.args[1]])]
        if "np.ndarray" in names:
            return (None, "scalar")        # not an array at all: a plain number
    if isinstance(t, ast.Call) and dotted(t.func) in ("np.isscalar",) and t.args and dotted(t.args[0]) == subject:
        return ("scalar", None)
    if isinstance(t, ast.UnaryOp) and isinstance(t.op, ast.Not):
        a, b = _rank_test(t.operand, subject)
        return (b, a)
    if isinstance(t, ast.BoolOp):
        sub = [_rank_test(v, subject) for v in t.values]
        if isinstance(t.op, ast.And):
            tr = next((a for a, _ in sub if a), None)                       # all conjuncts hold: any one's meaning holds
            fa = sub[0][1] if all(b == sub[0][1] for _, b in sub) else None   # some conjunct fails: only a common meaning is certain
            return (tr, fa)
        fa = next((b for _, b in sub if b), None)
        tr = sub[0][0] if all(a == sub[0][0] for a, _ in sub) else None
        return (tr, fa)
    return (None, None)


def rank_dispatch(ck, rule):
    """C11.R9: bin(), hex() and base_repr() render element-wise exactly when the stored buffer has rank >= 1: every path that iterates over the
    buffer is selected by a rank test (ndim > 0 / shape != ()), every path that renders the buffer as one number by its negation (rank 0 or
    not an array).  A size test is not a rank test: a one-element array has size 1 and rank 1."""
    prog = ck.prog
    n = 0
    for qn in ("objects.Fxp.bin", "objects.Fxp.hex", "objects.Fxp.base_repr"):
        f = prog.func(qn)
        seen = set()
        for pf in fpaths(prog, f):
            if pf.end != "return" or pf.ret is None:
                continue
            iters = False
            whole = False
            for nd in ast.walk(pf.ret):
                if isinstance(nd, (ast.ListComp, ast.GeneratorExp)):
                    it = peel(nd.generators[0].iter)[0]
                    if dotted(it) == "self.val" or (isinstance(it, ast.Call) and dotted(it.func) in ("self.bin", "self.hex") and not it.args):
                        iters = True
                elif isinstance(nd, ast.Call) and dotted(nd.func) in ("map",) and len(nd.args) == 2 and dotted(peel(nd.args[1])[0]) == "self.val":
                    iters = True
                elif isinstance(nd, ast.Call) and dotted(nd.func) in ("int", "float") and nd.args and dotted(nd.args[0]) in ("self.val", "self.val.real", "self.val.imag"):
                    whole = True
            if not iters and not whole:
                continue
            meanings = set()
            for t, out in [(g[0], g[1]) for g in pf.guards] + list(path_literals(pf.guards)):
                a, b = _rank_test(t, "self.val")
                m = a if out else b
                if m:
                    meanings.add(m)
            need = "rank1" if iters else "scalar"
            key = (need, tuple(sorted(meanings)))
            n += 1
            if key in seen:
                continue
            seen.add(key)
            sizeg = [src(g[0])[:60] for g in pf.guards if ".size" in src(g[0]) or "len(self.val)" in src(g[0])]
            ck.check(need in meanings and len(meanings) == 1, rule, f,
                     "%s() %s under a rank test on the stored buffer" % (f.name, "iterates over the elements" if iters else "renders the buffer as one number"),
                     "%s path selected by %s" % ("element-wise" if iters else "scalar", sizeg or [src(g[0])[:50] for g in pf.guards][-2:]), pf.ret_stmt,
                     "a one-element array (size 1, rank 1) is sent down the scalar path, or a 0-d value down the iterating one: rendering fails or loses the array structure")
        ck.saw(f)
    if n < 12:
        raise AnalysisError("renderers: array/scalar render paths not found (%d)" % n)
