"""C11 - binary and hex strings are faithful images of the code and parse back to it."""
from . import strings, routes

from . import routes, fresh, flags, sizes, conv, dtype, carriers, funcs, ops, strings, pipeline, widths

EXPLANATION = (
    "R1 width provenance at every render site of bin() (10 binary_repr calls) and hex() (6 hex_repr calls): n_word=self.n_word, the code as Python int(s), the point at n_frac "
    "exactly when frac_dot (conditional, not an and/or idiom that drops 0), hex digits taken from the n_word-bit binary image with base=2; R2 hex_repr: width ceil(n_word/4) as a "
    "term, zero-filled upper-case format spec, int(x, 2); R3 insert_frac_point in an abstract string domain (length, digits right of the point): each branch leaves exactly n_frac "
    "digits after the point under its guard (n_frac == 0, == len, > len, 0 < n_frac < len); R4 strbin2int sign-extends with x[0] / '0' to n_word and decodes a leading 1 as "
    "low - 2^(n_word-1) (term); hex parsers pad to n_word bits and decode through the binary parsers with the caller's n_word; R5 str2num dispatch ('b'/'x' in the first two "
    "characters, arguments forwarded in order), from_bin adds the prefix; parsed strings are stored through set_val (C01.R1); R6 both string arms of the normaliser (str/list/tuple and ndarray of str) parse with n_frac=None in raw mode, with the object's n_frac otherwise, and never type raw integer codes as float. DECLINED: the end-to-end bijection over all 2^n_word codes."
    " Added after the third round of seeded changes: constructor state (C20.R2: prefixes and modes are the object's own), the rounding table (C05) and the overflow stage incl. the rule that arrays of Python ints are clamped by np.clip, not by a helper vectorised without otypes (C02.R6)."
    ' Added after the fourth round of seeded changes: R7 utils.base_repr returns np.base_repr(x, base) and inserts a point only for base 2; a scalar code is rendered from int(code); C20.R8 objects carry only the documented attributes and no function writes module-level containers (no caches / memos that go stale).'
    ' Added after the fifth round of seeded changes: C20.R8 also forbids mutable default arguments and private attributes hung on operands (x._cache, x.__dict__[...]).'
    " Added after the sixth round of seeded changes: R8 utils.add_binary_prefix returns the prefix followed by the caller's digits (character clean-ups only: no digit or point added or removed); R9 bin/hex/base_repr iterate exactly under a rank test of the buffer (ndim > 0 / shape != ()), a size test is not a rank test; R5 a wrapper that forwards one of its parameters unchanged to the constructor / set_val / resize gives it the callee's default (from_bin(signed=True) would re-sign a like= reference).")
ASSUMPTIONS = ["np.binary_repr(v, width=w) is the w-character two's-complement image; np.base_repr is sign-magnitude (lemmas)", "'{0:0{1}X}'.format zero-pads to width {1} in upper-case hex"]
TRUSTED = ["CPython ast", "string.Formatter.parse", "fxlint abstract string domain"]


def run(ck):
    strings.render_sites(ck, "C11.R1")
    strings.hex_image(ck, "C11.R2")
    strings.point_position(ck, "C11.R3")
    strings.decode_terms(ck, "C11.R4")
    strings.parse_dispatch(ck, "C11.R5")
    strings.string_arms(ck, "C11.R6")
    routes.write_funnel(ck, "C01.R1")
    fresh.constructor_state(ck, "C20.R2")            # prefixes and modes used by bin()/hex() and by the parsing constructor are the object's own
    pipeline.rounding_table(ck, "C05.R1", "C05.R2", "C05.R3")   # value-mode round trip: the parsed value is re-quantized by the configured mode
    pipeline.overflow_dispatch(ck, "C02.R6", "C03.R2", flags.handler_roles_quiet(ck.prog))
    fresh.no_hidden_state(ck, "C20.R8")                  # results depend on the documented state only (no caches / memos)
    strings.base_numeral(ck, "C11.R7")
    strings.prefix_helper(ck, "C11.R8")
    strings.rank_dispatch(ck, "C11.R9")
    routes.forwarded_defaults(ck, "C11.R5")            # from_bin / constructor wrappers do not override the format a like= reference or the string carries
