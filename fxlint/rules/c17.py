"""C17 - scale and bias act as an exact affine wrapper around the stored code."""
from . import conv, sizes, flags, pipeline

from . import routes, fresh, flags, sizes, conv, dtype, carriers, funcs, ops, strings, pipeline, widths

EXPLANATION = (
    "R1 the normaliser's scaling block normalises (rational normal form, case split on bias == 0 / scale == 1) to (v - bias)/scale and is skipped for raw codes; "
    "R2 astype's read map normalises to scale*val + bias after code/2^n_frac on every dtype branch, and read(store(v)) = v as terms; resize restores scaled objects "
    "through the same read map; R3 resize maps upper/lower through scale and bias and precision through scale only (all normal paths); R4 the inaccuracy comparison's "
    "input side is the normaliser's output, i.e. the transformed value (flags on (v-b)/s); R5 dtype comparisons against Python types use equality (a numpy dtype is "
    "never `is int`), so list inputs take the float promotion after the map; R6 indexing builds its element with Fxp(like=self) only (keeps scale/bias/scaled); "
    "size inference uses the normaliser's output. Residual: binary64 exactness of the two affine steps."
    ' Added after the third round of seeded changes: constructor state (C20.R2): element views and like= objects start with their own fresh status record.'
    ' Added after the fourth round of seeded changes: R8 on every path that applies the map the value type is tested for int and promoted; equal() and the other re-scaling routes (C10.R1/R2); the scaled indicator is recomputed after a state copy (C20.R2); C20.R8 objects carry only the documented attributes and no function writes module-level containers (no caches / memos that go stale).'
    ' Added after the fifth round of seeded changes: R2b the real attribute is read through get_val(); R4b the normaliser writes no attribute of the object on a rejecting path; C20.R8 also forbids mutable default arguments and private attributes hung on operands (x._cache, x.__dict__[...]).'
    ' Added after the sixth round of seeded changes: item() reads through astype / get_val (C16.R2: the read map is not left out); the size assembly of set_best_sizes (C06.R2) and the template rules of the function wrappers (C08.R3: a scaled out_like template is stored through its own map, never as raw codes) are included.')
ASSUMPTIONS = ["scale != 0", "np.dtype('int64') == int holds while `is int` does not (NumPy lemma)"]
TRUSTED = ["CPython ast", "fxlint rational term normaliser"]


def run(ck):
    conv.store_map(ck, "C17.R1")
    conv.read_map(ck, "C17.R2")
    sizes.resize_rules(ck, {"limits": "C17.R3", "restore_scaled": "C17.R2"})
    flags.inaccuracy_guard(ck, "C17.R4")
    conv.dtype_comparisons(ck, "C17.R5")
    conv.getitem_keeps_map(ck, "C17.R6")
    conv.sizes_use_transformed_value(ck, "C17.R7")
    ops.conversions(ck, "C16.R2")       # every read route (float()/int()/complex()) goes through astype, where the read map lives
    pipeline.store_pipeline(ck, "C01.R2", want_bounds=False)
    fresh.constructor_state(ck, "C20.R2")            # results and operands are built by the constructor: own status record, own final configuration
    conv.scaled_value_type(ck, "C17.R8")
    fresh.no_hidden_state(ck, "C20.R8")                  # results depend on the documented state only (no caches / memos)
    conv.rescaling_siblings(ck, "C10.R1", "C10.R2")     # equal() stores through the map unless the source is a fixed-point object
    conv.derived_attributes(ck, "C17.R2")
    sizes.best_sizes_assembly(ck, "C06.R2", "C06.R3", "C06.R4")   # "size inference sizes the transformed value": no shortcut on the caller's untransformed input
    funcs.template_sizes(ck, "C08.R3")                  # a scaled out_like template: the result is stored through the template's own map (value route), never as raw codes sized for it
    funcs.governing_config(ck, "C08.R3")
