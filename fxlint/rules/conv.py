"""Conversion routes (C10) and scale/bias maps (C17)."""
import ast

from ..model import dotted, src, calls_in, kw, AnalysisError
from ..common import fpaths, peel, actual, mkterm, mkbool, guard_cases, same_expr, const_str, status_key, self_rename, isinstance_state
from ..terms import Term, exp2, NotATerm, witness, equiv
from ..paths import enum_paths, walk_path
from ..scaletype import Typer, Mismatch, Unknown
from .. import anchors as A


def _type_rescale(expr, src_name):
    """(scale Term, events) of a re-scaling expression over operand src_name"""
    ev = []
    ty = Typer([src_name], events=ev)
    t = ty.ty(expr)
    return t, ev


def rescaling_siblings(ck, rule, rule_dest):
    """C10.R1/R2: equal, like and the normaliser's Fxp branch compute src.val * 2^(dst.n_frac - src.n_frac) and store it raw into the destination."""
    prog = ck.prog
    fun = A.funnel(prog)
    # ---- equal
    f = prog.func("objects.Fxp.equal")
    sp = [p for p in f.params if p != "self"][0]
    done = 0
    for pf in fpaths(prog, f):
        if pf.end == "raise":
            continue
        isf_state = isinstance_state(pf.guards, sp)
        svs = [ce for ce in pf.calls if prog.resolve_call(f, ce.raw) == fun.qualname]
        if len(svs) != 1:
            ck.bad(rule, f, "equal() stores exactly once through set_val", "%d set_val calls on a path" % len(svs), f.node)
            continue
        ce = svs[0]
        if dotted(ce.raw.func.value) != "self":
            ck.bad(rule_dest, f, "equal() stores into the destination (self)", "receiver %s" % src(ce.raw.func.value), ce.stmt)
        idx = kw(ce.raw, "index")
        if dotted(idx) != "index":
            ck.bad(rule, f, "equal() forwards index", "index=%s" % (src(idx) if idx is not None else None), ce.stmt)
        if isf_state is True:
            arg = ce.call.args[0] if ce.call.args else kw(ce.call, "val")
            raw = kw(ce.call, "raw", 1)
            _check_rescale(ck, rule, f, arg, sp, "self.n_frac", raw, ce.stmt, "equal()")
            done += 1
        else:
            arg = ce.call.args[0] if ce.call.args else None
            raw = kw(ce.call, "raw", 1)
            ck.check(dotted(arg) == sp and (raw is None or (isinstance(raw, ast.Constant) and raw.value is False)), rule, f,
                     "equal() with a plain value behaves like set_val(value)", "set_val(%s, raw=%s)" % (src(arg)[:40] if arg is not None else None, src(raw) if raw is not None else None), ce.stmt)
    if done == 0:
        ck.bad(rule, f, "equal() converts a fixed-point source by re-scaling its codes", "no Fxp branch found in equal()", f.node)
    ck.saw(f)
    # ---- like
    f = prog.func("objects.Fxp.like")
    tp = [p for p in f.params if p != "self"][0]
    done = 0
    for pf in fpaths(prog, f):
        if pf.end != "return" or pf.ret is None:
            continue
        r = peel(pf.ret)[0]
        if not (isinstance(r, ast.Call) and isinstance(r.func, ast.Attribute) and r.func.attr == "set_val"):
            ck.bad(rule, f, "like() stores through set_val", "returns %s" % src(r)[:60], pf.ret_stmt)
            continue
        recv = peel(r.func.value)[0]
        okrecv = isinstance(recv, ast.Call) and ((isinstance(recv.func, ast.Attribute) and recv.func.attr in ("deepcopy", "copy") and dotted(recv.func.value) == tp)
                                                 or (dotted(recv.func) in ("copy.deepcopy", "copy.copy") and recv.args and dotted(recv.args[0]) == tp)
                                                 or (prog.is_fxp_ctor(f, recv) and dotted(kw(recv, "like")) == tp))
        ck.check(okrecv, rule_dest, f, "like(x) stores into a copy of the template x (destination's format and modes)", "receiver %s" % src(r.func.value)[:50], pf.ret_stmt,
                 "the value would be quantized under the wrong object's format/modes or written into the source")
        arg = r.args[0] if r.args else kw(r, "val")
        _check_rescale(ck, rule, f, arg, "self", tp + ".n_frac", kw(r, "raw", 1), pf.ret_stmt, "like()")
        done += 1
    if done == 0:
        ck.bad(rule, f, "like() converts by re-scaling the codes", "no returning path in like()", f.node)
    ck.saw(f)
    # ---- normaliser branch
    fm = A.normaliser(prog)
    vp = [p for p in fm.params if p != "self"][0]
    hit = 0
    for n in ast.walk(fm.node):
        if isinstance(n, ast.If) and isinstance(n.test, ast.Call) and dotted(n.test.func) == "isinstance" and dotted(n.test.args[0]) == vp and dotted(n.test.args[1]) == "Fxp":
            hit += 1
            ps = [walk_path(p) for p in enum_paths(n.body)]
            for pf in ps:
                v = pf.env.get(vp)
                rw = pf.env.get("raw")
                if v is None:
                    ck.bad(rule, fm, "an Fxp input is converted to codes of the destination", "Fxp branch does not rebind the value", n)
                    continue
                dst = pf.env.get("self.n_frac")
                _check_rescale(ck, rule, fm, v, vp, src(dst) if dst is not None else "self.n_frac", rw, n, "constructing/assigning from an Fxp")
            break
    if hit == 0:
        ck.bad(rule, fm, "the normaliser has a branch for fixed-point inputs", "no isinstance(val, Fxp) arm", fm.node)
    ck.saw(fm)
    # ---- functions.fxp_like: the value is stored into a copy of the reference (its format AND its modes)
    try:
        fl = prog.func("functions.fxp_like")
    except AnalysisError:
        fl = None
    if fl is not None and fl.params:
        xp = fl.params[0]
        nret = 0
        for pf in fpaths(prog, fl):
            if pf.end != "return" or pf.ret is None:
                continue
            nret += 1
            r = pf.ret
            recv = None
            if isinstance(r, ast.Call) and isinstance(r.func, ast.Attribute) and r.func.attr in ("set_val", "__call__"):
                recv = r.func.value
            elif isinstance(r, ast.Call) and isinstance(r.func, ast.Call):
                recv = r.func                         # y(val): Fxp.__call__ (not peeled: .copy() is the point here)
            elif isinstance(r, ast.Call):
                recv = r                              # Fxp(val, like=x), or the copy itself after a statement-level y.set_val(val) / y(val)
            okrecv = isinstance(recv, ast.Call) and ((isinstance(recv.func, ast.Attribute) and recv.func.attr in ("deepcopy", "copy") and dotted(recv.func.value) == xp)
                                                     or (dotted(recv.func) in ("copy.deepcopy", "copy.copy") and recv.args and dotted(recv.args[0]) == xp)
                                                     or (prog.is_fxp_ctor(fl, recv) and dotted(kw(recv, "like")) == xp))
            ck.check(okrecv, rule_dest, fl, "fxp_like(x, val) stores into a copy of the reference x (its format and its rounding / overflow modes)",
                     "returns %s" % src(pf.ret)[:70], pf.ret_stmt,
                     "an object rebuilt from the sizes alone quantizes under the default modes, not under the reference's")
        if nret:
            ck.saw(fl, paths=nret)
    # __setitem__ and construction reach the normaliser through set_val: C01.R1


def _check_rescale(ck, rule, f, arg, src_name, dst_nfrac, raw, node, who):
    if arg is None:
        ck.bad(rule, f, "%s passes the re-scaled codes" % who, "no value argument", node)
        return
    try:
        t, ev = _type_rescale(arg, src_name)
    except Mismatch as m:
        ck.bad(rule, f, "%s re-scales the source codes by a power of two" % who, m.what, node, m.detail)
        return
    except (Unknown, NotATerm) as u:
        ck.unsure(rule, f, "%s: re-scaling expression is in the scale-typing vocabulary" % who, node, "%s: %s" % (u, src(arg)[:80]))
        return
    want = mkterm(ast.parse(dst_nfrac, mode="eval").body, rename=lambda d: d)
    if t.kind != "code":
        ck.bad(rule, f, "%s stores codes derived from the source's codes" % who, "stores %s" % src(arg)[:60], node)
        return
    ck.saw(terms=1)
    if t.t != want:
        ck.bad(rule, f, "%s computes src.val * 2^(dst.n_frac - src.n_frac): a code of the destination's fraction length" % who,
               "re-scaled to 2^(%s), destination stores with 2^(%s)" % (t.t.show(), want.show()), node, {"witness": witness(t.t, want), "meaning": "the converted value is wrong by a power of two"})
        return
    pre = [e for e in ev if e[0] in ("intcast", "round", "adjust", "recast", "truediv", "clamp")]
    if t.info.get("floordiv") or pre or any(isinstance(n, ast.BinOp) and isinstance(n.op, (ast.FloorDiv, ast.RShift)) for n in ast.walk(arg)):
        ck.bad(rule, f, "%s leaves the quantization to the destination (no floor/shift/cast while re-scaling)" % who, "pre-quantized: %s" % src(arg)[:80], node,
               "dropping bits with // or >> floors the value and ignores the destination's rounding mode; the routes then disagree")
        return
    if not (isinstance(raw, ast.Constant) and raw.value is True):
        ck.bad(rule, f, "%s stores the re-scaled codes with raw=True" % who, "raw=%s" % (src(raw) if raw is not None else None), node, "codes would be scaled a second time")
        return
    ck.ok(rule, f, "%s : %s.val * 2^(%s - %s.n_frac) stored raw" % (who, src_name, dst_nfrac, src_name), node)


def source_untouched(ck, rule):
    """C10.R3: conversion routes do not write attributes of, or mutate in place, their source object."""
    prog = ck.prog
    table = [("objects.Fxp.equal", None), ("objects.Fxp.like", "self"), (A.normaliser(prog).qualname, None), ("objects.Fxp.__setitem__", None)]
    for q, srcname in table:
        f = prog.func(q)
        s = srcname or [p for p in f.params if p != "self"][-1 if q.endswith("__setitem__") else 0]
        bad = []
        for n in ast.walk(f.node):
            tg = []
            if isinstance(n, ast.Assign):
                tg = n.targets
            elif isinstance(n, (ast.AugAssign, ast.AnnAssign)):
                tg = [n.target]
            for t in tg:
                for tt in (t.elts if isinstance(t, (ast.Tuple, ast.List)) else [t]):
                    base = tt
                    while isinstance(base, (ast.Attribute, ast.Subscript)):
                        base = base.value
                    if isinstance(base, ast.Name) and base.id == s and tt is not base:
                        bad.append((n, src(tt)))
            if isinstance(n, ast.Call) and isinstance(n.func, ast.Attribute) and n.func.attr in ("set_val", "resize", "reset", "sort", "fill", "reshape", "equal") and dotted(n.func.value) == s and s != "self":
                bad.append((n, src(n)[:50]))
            if isinstance(n, ast.Call) and isinstance(n.func, ast.Attribute) and n.func.attr in ("set_val", "resize", "reset", "reshape", "equal") and dotted(n.func.value) == "self" and s == "self":
                bad.append((n, src(n)[:50]))
        ck.check(not bad, rule, f, "%s leaves its source object (%s) unchanged" % (f.name, s), "writes %s" % [b[1] for b in bad], bad[0][0] if bad else None,
                 "converting a value must not modify the object it is read from")
        ck.saw(f)


def no_none_subscripts(ck, rule):
    """C10.R4: no subscript by an index that is None on that path (a[None] inserts an axis, changing the shape)."""
    prog = ck.prog
    n_sub = 0
    for f in prog.all_funcs():
        if f.module != "objects" or f.cls != "Fxp":
            continue
        idxp = [p for p in f.params if p in ("index", "item")]
        if not idxp:
            continue
        for pf in fpaths(prog, f):
            none_now = {}
            for g in pf.guards:
                pass
            # walk events: track guards that are open at each store/call via their recorded guard lists
            for kind, o in pf.order:
                gl = o.guards
                nn = set()
                for g in gl:
                    t = g[2]
                    if t is not None and isinstance(t, ast.Compare) and len(t.ops) == 1 and isinstance(t.comparators[0], ast.Constant) and t.comparators[0].value is None:
                        d = dotted(t.left)
                        if d in idxp and ((isinstance(t.ops[0], ast.Is) and g[1]) or (isinstance(t.ops[0], ast.IsNot) and not g[1])):
                            nn.add(d)
                if not nn:
                    continue
                node = o.stmt
                for s in ast.walk(node):
                    if isinstance(s, ast.Subscript) and dotted(s.slice) in nn:
                        # is this subscript inside the guarded region? the event's statement is; check statement-level containment only
                        n_sub += 1
                        ck.bad(rule, f, "no value is subscripted by an index known to be None", "%s where %s is None" % (src(s), dotted(s.slice)), s,
                               "a[None] inserts a new axis: shape (3,) becomes (1,3)")
    ck.ok(rule, "objects.Fxp", "subscripts under `index is None` guards examined in every method with an index parameter", nontrivial=False)


# ------------------------------------------------------------------------------------------------ C17

def _mentions_scale(node):
    for n in ast.walk(node):
        d = dotted(n) if isinstance(n, (ast.Name, ast.Attribute)) else None
        if d and (d.split(".")[-1] in ("scale", "bias")):
            return True
    return False


def store_map(ck, rule):
    """C17.R1: the normaliser maps v to (v - bias)/scale, only when not raw (decided on the paths of the code slice that applies
    the map, wherever a refactoring has put it: in the normaliser itself or in a helper extracted from it)."""
    prog = ck.prog
    from ..common import closure_funcs, infeasible, guard_cases
    fm = A.normaliser(prog)
    vp = [p for p in fm.params if p != "self"][0]
    # slice of the normaliser from the first top-level statement that mentions scale/bias
    body = fm.node.body
    start = None
    helpers_ = [g for g in closure_funcs(prog, fm) if g is not fm and _mentions_scale(g.node)]

    def _calls_scaling_helper(st):
        for c in ast.walk(st):
            if isinstance(c, ast.Call):
                nm = c.func.attr if isinstance(c.func, ast.Attribute) else (c.func.id if isinstance(c.func, ast.Name) else None)
                if nm and any(g.name == nm for g in helpers_):
                    return True
        return False
    for i, st in enumerate(body):
        if _mentions_scale(st) or _calls_scaling_helper(st):
            start = i
            break
    if start is None:
        ck.bad(rule, fm, "the normaliser applies the scale/bias store map", "no statement of the normaliser (or a helper it calls at top level) mentions scale/bias", fm.node,
               "scaled objects would store the untransformed value")
        return
    # include a directly preceding `self.scaled = False` style reset
    paths = enum_paths(body[start:], prog=prog, func=fm)
    v, b, s_ = Term.var(vp), Term.var("self.bias"), Term.var("self.scale")
    oracle = (v - b) * s_.inverse()
    n_map = n_id = 0
    ck.saw(fm, paths=len(paths))
    for p in paths:
        pf = walk_path(p, prog=prog, func=fm)
        if infeasible(pf) or pf.end == "raise" or pf.ret is None:
            continue
        r0 = pf.ret.elts[0] if isinstance(pf.ret, ast.Tuple) and pf.ret.elts else pf.ret
        r0 = peel(r0)[0]
        try:
            t0 = mkterm(r0, rename=lambda d: d)
        except NotATerm as e:
            ck.unsure(rule, fm, "store map is an affine expression", fm.node, "%s: %s" % (e, src(r0)[:80]))
            continue
        raw_true = any(dotted(g[0]) == "raw" and g[1] for g in pf.guards) or any(isinstance(g[0], ast.UnaryOp) and dotted(g[0].operand) == "raw" and not g[1] for g in pf.guards)
        for asg in guard_cases(pf.guards, rename=lambda d: d):
            t = t0.subst(asg)
            ck.saw(terms=1)
            if t == v.subst(asg):
                # identity: allowed when raw, when scale/bias are unset, or when the map is trivial under this case (bias 0, scale 1)
                o = oracle.subst(asg)
                conj_false = [g for g in pf.guards if isinstance(g[0], ast.BoolOp) and _mentions_scale(g[0]) and not g[1]]
                none_checks = [g for g in pf.guards if _mentions_scale(g[0]) and "None" in src(g[0]) and not isinstance(g[0], ast.BoolOp)]
                def _reason(d_):
                    # a disjunct that by itself justifies leaving the value alone: raw codes, or scale / bias unset
                    return dotted(d_) == "raw" or (_mentions_scale(d_) and "None" in src(d_) and _none_unset((d_, True)))
                or_true = [g for g in pf.guards if isinstance(g[0], ast.BoolOp) and isinstance(g[0].op, ast.Or) and g[1] and all(_reason(d_) for d_ in g[0].values)]
                if o == t or raw_true or asg.get(("b", "raw")) == Term.const(1) or conj_false or or_true or any(_none_unset(g) for g in none_checks):
                    n_id += 1
                    continue
                ck.bad(rule, fm, "storing v stores the quantization of (v - bias)/scale", "value returned untransformed under %s" % [(src(g[0])[:50], g[1]) for g in pf.guards if _mentions_scale(g[0]) or "raw" in src(g[0])], fm.node,
                       "a non-trivial scale/bias is ignored on this path")
                break
            o = oracle.subst(asg)
            if t != o:
                ck.bad(rule, fm, "storing v stores the quantization of (v - bias)/scale", "store map %s, expected %s" % (t.show(), o.show()), fm.node,
                       {"witness": witness(t, o), "meaning": "values are transformed with the wrong affine map before quantization"})
                break
            if raw_true or asg.get(("b", "raw")) == Term.const(1):
                ck.bad(rule, fm, "raw codes bypass the scale/bias map", "map applied on a raw path", fm.node, "raw codes would be transformed as if they were values")
                break
            n_map += 1
            # scaled flag on transformed paths
            sc = pf.env.get("self.scaled")
            if not (isinstance(sc, ast.Constant) and sc.value is True) and t != v.subst(asg):
                ck.bad(rule, fm, "objects with a non-identity map are marked scaled (the read map depends on it)", "self.scaled = %s after a non-trivial map" % (src(sc) if sc is not None else "<unchanged>"), fm.node)
                break
    ck.check(n_map > 0, rule, fm, "store map normalises to (v - bias)/scale on %d transforming path cases; %d identity cases are raw / unset / trivial" % (n_map, n_id),
             "no path applies the scale/bias map", fm.node)


def _none_unset(g):
    """guard says scale/bias is None (map unset)"""
    t, pol = g[0], g[1]
    if isinstance(t, ast.Compare) and len(t.ops) == 1 and isinstance(t.comparators[0], ast.Constant) and t.comparators[0].value is None:
        return (isinstance(t.ops[0], ast.Is) and pol) or (isinstance(t.ops[0], ast.IsNot) and not pol)
    return False


def read_map(ck, rule):
    """C17.R2: astype reads scale*code*2^-n_frac + bias; composition with the store map is the identity."""
    prog = ck.prog
    f = prog.func("objects.Fxp.astype")
    blk = None
    for n in f.node.body:
        if isinstance(n, ast.If) and any(dotted(x) == "self.scaled" for x in ast.walk(n.test)):
            blk = n
    if blk is None:
        ck.bad(rule, f, "astype applies the scale/bias read map", "no block guarded by self.scaled in astype", f.node, "scaled objects would read back the unscaled value")
        return
    # must be at function top level after the conversion (applies to every dtype branch)
    v, b, s = Term.var("val"), Term.var("self.bias"), Term.var("self.scale")
    oracle = v * s + b
    for p in enum_paths([blk]):
        pf = walk_path(p)
        took = [g for g in pf.guards if g[3] is blk]
        if not took or not took[0][1]:
            continue
        cur = pf.env.get("val")
        if cur is None:
            ck.bad(rule, f, "the read map rebinds the value", "scaled block does not assign val", blk)
            continue
        t = mkterm(peel(cur)[0], rename=lambda d: d)
        ck.saw(terms=1)
        ck.check(t == oracle, rule, f, "reading returns scale * (code * 2^-n_frac) + bias", "read map %s, expected %s" % (t.show(), oracle.show()), blk,
                 {"witness": witness(t, oracle)})
        # composition: read(store(v)) = v
        sv = (Term.var("v") - b) * s.inverse()
        comp = t.subst({("v", "val"): sv})
        ck.check(comp == Term.var("v"), rule, f, "read map composed with the store map is the identity", "read(store(v)) = %s" % comp.show(), blk)
    # every float/int/None branch divides the code by the conversion factor
    fac = A.factor(prog)
    n_div = 0
    from ..common import walk_closure
    for g_, n in walk_closure(prog, f):           # astype and the helpers extracted from it
        if isinstance(n, ast.BinOp) and isinstance(n.op, (ast.Div, ast.FloorDiv)) and isinstance(n.right, ast.Call) and prog.resolve_call(g_, n.right) == fac.qualname:
            n_div += 1
            ck.check(not n.right.args and not n.right.keywords, rule, f, "astype divides the code by the non-raw conversion factor 2^n_frac", "factor call %s" % src(n.right), n)
    ck.check(n_div >= 4, rule, f, "astype converts codes with code / 2^n_frac on every dtype branch (%d sites)" % n_div, "only %d divisions by the conversion factor" % n_div, f.node)
    ck.saw(f)


def dtype_comparisons(ck, rule):
    """vdtype / dtype values may be numpy dtype objects: comparisons with Python types must use == / != / issubdtype, never `is`."""
    prog = ck.prog
    types = {"int", "float", "complex", "object", "str", "bool"}
    n = 0
    for f in prog.all_funcs():
        if f.module != "objects":
            continue
        for c in ast.walk(f.node):
            if isinstance(c, ast.Compare) and len(c.ops) == 1:
                l, r = c.left, c.comparators[0]
                for a, b in ((l, r), (r, l)):
                    da, db = dotted(a), dotted(b)
                    if da and db in types and (da.endswith("dtype") or da.endswith("vdtype")):
                        n += 1
                        ck.check(not isinstance(c.ops[0], (ast.Is, ast.IsNot)), rule, f, "value dtypes are compared with Python types by equality", src(c), c,
                                 "np.dtype('int64') == int is True but `is int` is False: list/array inputs would skip this branch")
    if n < 8:
        raise AnalysisError("only %d dtype comparisons found" % n)


def getitem_keeps_map(ck, rule):
    """C17.R6: the element object returned by indexing is built with Fxp(like=self) only, so it carries scale, bias and the scaled flag."""
    prog = ck.prog
    g = prog.func("objects.Fxp.__getitem__")
    ok = False
    for c in calls_in(g.node):
        if prog.is_fxp_ctor(g, c):
            kws = {k.arg: k.value for k in c.keywords}
            ok = not c.args and set(kws) == {"like"} and dotted(kws["like"]) == "self"
            ck.check(ok, rule, g, "indexing builds the element object with Fxp(like=self) and nothing else", src(c)[:60], c,
                     "extra arguments (e.g. raw=True) reset the scaled flag in the normaliser, so the element reads back unscaled")
    if not ok and not any(prog.is_fxp_ctor(g, c) for c in calls_in(g.node)):
        ck.bad(rule, g, "indexing builds the element object from self", "no Fxp(like=self) in __getitem__", g.node)


def sizes_use_transformed_value(ck, rule):
    """C17 last sentence / C06: size inference examines the value returned by the normaliser (after scale/bias)."""
    prog = ck.prog
    f = prog.func("objects.Fxp.set_best_sizes")
    fm = A.normaliser(prog)
    pfs = fpaths(prog, f)
    ck.saw(f, paths=len(pfs))
    nbad = 0
    npaths = 0
    for pf in pfs:
        if pf.end == "raise":
            continue
        gval = [g for g in pf.guards if g[2] is not None and src(g[2]) == "val is None"]
        if gval and gval[0][1]:
            continue
        if pf.zero_loops:
            continue     # searches over an empty value / zero iterations: not a size inferred from data
        npaths += 1
        for attr, param in (("self.n_frac", "n_frac"), ("self.n_word", "n_word")):
            sts = [st for st in pf.stores if st.path == attr]
            if not sts:
                continue
            v = sts[-1].value if attr == "self.n_frac" else (sts[-2].value if len(sts) > 1 else sts[-1].value)
            names = {dotted(n) for n in ast.walk(v) if isinstance(n, (ast.Name, ast.Attribute))}
            calls = [c for c in calls_in(v)]
            dep = any(isinstance(n, ast.Subscript) and isinstance(n.value, ast.Call) and prog.resolve_call(f, n.value) == fm.qualname and isinstance(n.slice, ast.Constant) and n.slice.value == 0
                      for n in ast.walk(v)) or any(dotted(c.func) == "$loop" for c in calls)
            def on_value(n):
                return isinstance(n, ast.Subscript) and isinstance(n.value, ast.Call) and prog.resolve_call(f, n.value) == fm.qualname and isinstance(n.slice, ast.Constant) and n.slice.value == 0
            # control dependence on the value (e.g. the integer-length search breaks out at once) counts as well
            dep = dep or any(any(on_value(n) for n in ast.walk(g[0])) for g in pf.guards if isinstance(g[3], (ast.While, ast.For)) or any(isinstance(b, ast.Break) for b in ast.walk(g[3])))
            given = [g for g in pf.guards if g[2] is not None and src(g[2]) in ("%s is None" % param,)]
            inferred = bool(given and given[-1][1])
            if inferred and not dep:
                nbad += 1
                ck.bad(rule, f, "an inferred %s is computed from the (scale/bias-transformed) value returned by the normaliser" % param,
                       "%s = %s does not depend on the normalised value" % (attr, src(v)[:80]), sts[-1].stmt,
                       "a size decided before/without the transformation does not fit the stored value")
    # the normaliser must be consulted with the caller's own sizes in place (not sizes invented beforehand)
    for pf in pfs:
        for kind, o in pf.order:
            if kind == "store" and o.path in ("self.n_frac", "self.n_word"):
                later_fmt = [c for k2, c in pf.order[pf.order.index((kind, o)):] if k2 == "call" and prog.resolve_call(f, c.raw) == fm.qualname]
                gval = [g for g in pf.guards if g[2] is not None and src(g[2]) == "val is None"]
                if later_fmt and not (gval and gval[0][1]):
                    want = o.path.split(".")[1]
                    if dotted(o.value) != want:
                        nbad += 1
                        ck.bad(rule, f, "before the value is examined the object holds exactly the sizes the caller gave (None = to be inferred)",
                               "%s = %s before the normaliser call" % (o.path, src(o.value)[:50]), o.stmt,
                               "a size fixed before looking at the (transformed) value pre-empts the inference")
    if nbad == 0:
        ck.ok(rule, f, "on all %d value paths the inferred sizes derive from the normaliser's output (or the searches over it)" % npaths)


def order_consistency(ck, rule):
    """C13.R4 / C18.R6: helpers that take an array apart element by element and rebuild it do both in the same (default, C) order: any explicit
    order= of flatten / ravel / reshape / np.array inside such a helper must be 'C'.  Reading in memory order ('K', 'A', 'F') and refilling in C
    order permutes the elements of non-contiguous arrays (x.T, Fortran-ordered inputs)."""
    prog = ck.prog
    n = 0
    subjects = [f for f in prog.all_funcs() if f.module == "utils" or f.qualname in ("objects.Fxp.set_val", "objects.Fxp.astype", "objects.Fxp._format_inupt_val")]
    for f in subjects:
        for c in calls_in(f.node):
            nm = c.func.attr if isinstance(c.func, ast.Attribute) else None
            if nm in ("ravel", "flatten", "reshape", "tolist") or dotted(c.func) in ("np.ravel", "np.reshape", "np.array", "np.asarray"):
                o = kw(c, "order")
                if o is None and nm in ("ravel", "flatten") and c.args:
                    o = c.args[0]
                n += 1
                if o is not None and not (isinstance(o, ast.Constant) and o.value in ("C", None)):
                    ck.bad(rule, f, "element-wise helpers read and rebuild arrays in the same (C) order", "%s" % src(c)[:70], c,
                           "elements of a transposed / Fortran-ordered array end up in other cells")
    ck.ok(rule, "fxpmath/utils.py, set_val, astype", "%d flatten/ravel/reshape sites use the default order" % n, nontrivial=False)


def array_protocol_values(ck, rule):
    """C15.R6: __array__ (what numpy functions outside the registry receive) exports the values unless the configuration asks for raw codes: the only
    path that returns the codes is selected by config.array_op_method == 'raw'."""
    prog = ck.prog
    from ..common import str_state
    f = prog.func("objects.Fxp.__array__", required=False)
    if f is None:
        ck.bad(rule, "objects.Fxp", "Fxp implements __array__", "__array__ missing")
        return
    # pure delegation `return self.helper(*args, **kwargs)`: the exporter is the helper
    from ..pinned import PINNED_FUNCS as _PF
    for _ in range(3):
        body = [s_ for s_ in f.node.body if not (isinstance(s_, ast.Expr) and isinstance(s_.value, ast.Constant))]
        if len(body) == 1 and isinstance(body[0], ast.Return) and isinstance(body[0].value, ast.Call):
            q = prog.resolve_call(f, body[0].value)
            if q in prog.funcs and q not in _PF:
                f = prog.funcs[q]
                continue
        break
    nv = 0
    for pf in fpaths(prog, f):
        if pf.end != "return" or pf.ret is None:
            continue
        inner = peel(pf.ret)[0]
        eq, ne = str_state(pf.guards, "self.config.array_op_method")
        rawsel = eq is not None and eq == {"raw"}
        if dotted(inner) == "self.val":
            ck.check(rawsel, rule, f, "the raw codes are exported only when config.array_op_method == 'raw'", "returns %s under %s" % (src(pf.ret)[:50], [(src(g[0])[:40], g[1]) for g in pf.guards]), pf.ret_stmt,
                     "numpy functions that are not in the registry (matmul, ...) would compute on codes instead of values: results off by 2^n_frac")
        elif isinstance(inner, ast.Call) and isinstance(inner.func, ast.Attribute) and inner.func.attr == "get_val" and dotted(inner.func.value) == "self":
            nv += 1
        else:
            ck.bad(rule, f, "__array__ returns the values (get_val()) or, in raw mode, the codes", "returns %s" % src(pf.ret)[:60], pf.ret_stmt)
    ck.check(nv >= 1, rule, f, "__array__ has a value-exporting path", "no path returns self.get_val()", f.node)
    ck.saw(f)


def scaled_value_type(ck, rule):
    """C17.R8: whenever the normaliser applies the scale/bias map (it stores scaled = True), the question "is the value type int?" is asked on that
    path, and where the answer selects the promotion the value type becomes float.  (A bias may be a float at run time whatever the scale is: a
    promotion that is only reachable for scale != 1 leaves integer inputs with a float bias truncated.)"""
    prog = ck.prog
    fm = A.normaliser(prog)
    n = 0
    seen = set()

    def asks_int(t):
        for c in ast.walk(t):
            if isinstance(c, ast.Compare) and len(c.ops) == 1 and isinstance(c.ops[0], (ast.Eq, ast.Is, ast.NotEq, ast.IsNot)) and dotted(c.left) == "vdtype" and dotted(c.comparators[0]) == "int":
                return True
        return False
    for pf in fpaths(prog, fm):
        if pf.end == "raise":
            continue
        if not any(st.path == "self.scaled" and isinstance(st.value, ast.Constant) and st.value.value is True for st in pf.stores):
            continue
        v = pf.env.get("vdtype")
        n += 1
        asked = [g for g in pf.guards if g[2] is not None and asks_int(g[2])]
        # paths on which the value type is a literal non-int type (float()/Decimal/str arms) were decided by constant propagation: the test does not
        # appear as a guard there because both outcomes are not possible
        if not asked:
            vv = [st.raw_value for st in pf.stores if st.path == "vdtype"]
            if vv and dotted(vv[-1]) in ("float", "complex", "np.float64") :
                continue
            key = "untested"
        else:
            promoted = any(st.path == "vdtype" and dotted(st.raw_value) in ("float", "np.float64") for st in pf.stores)
            if any(g[1] for g in asked) and not promoted:
                key = "unpromoted"
            else:
                continue
        if key in seen:
            continue
        seen.add(key)
        ck.bad(rule, fm, "on every path that applies the scale/bias map the value type is tested for int (and promoted to float where the test selects it)",
               "mapped path under %s on which vdtype == int is %s" % ([(src(g[0])[:40], g[1]) for g in pf.guards if "scale" in src(g[0]) or "bias" in src(g[0])][:4], "never tested" if key == "untested" else "not promoted"), fm.node,
               "the mapped value is cast back to int before scaling: the fraction is truncated and no inaccuracy is flagged")
    # the promotion test itself: besides `vdtype == int` it may only ask whether the map can produce a fraction - and a float bias is one such reason
    for node in ast.walk(fm.node):
        if isinstance(node, ast.If) and asks_int(node.test) and any(isinstance(s_, ast.Assign) and any(dotted(t_) == "vdtype" for t_ in s_.targets) and dotted(s_.value) in ("float", "np.float64") for s_ in node.body):
            conj = node.test.values if isinstance(node.test, ast.BoolOp) and isinstance(node.test.op, ast.And) else [node.test]
            others = [c_ for c_ in conj if not asks_int(c_)]
            if others and any("scale" in src(c_) for c_ in others) and not any("bias" in src(c_) for c_ in others):
                ck.bad(rule, fm, "the float promotion of an int value type covers a float bias (not only a scale other than 1)", "promotion test %s" % src(node.test)[:80], node,
                       "an integer input with bias 0.5 and scale 1 is mapped to v - 0.5 and cast back to int: stored wrong, unflagged")
    if n == 0:
        ck.note("normaliser: no path applies the scale/bias map")
    elif not seen:
        ck.ok(rule, fm, "value type tested for int on all %d paths that apply the map" % n)


def derived_attributes(ck, rule):
    """C17.R2b / R4b: (a) the real / imag attributes set_val refreshes are read through get_val() (the read map), never recomputed from the codes on the
    side; (b) the normaliser rejects an input before it touches the object: no attribute of self is written on a path that ends in raise
    (an exception caught by the caller must leave a scaled object scaled)."""
    prog = ck.prog
    f = A.funnel(prog)
    n = 0
    seen = set()
    for pf in fpaths(prog, f):
        for st in pf.stores:
            if st.path != "self.real":
                continue              # (at any inlining depth: stages split off set_val are part of it)
            n += 1
            v = st.raw_value

            def _reads(e):
                return isinstance(e, ast.Call) and isinstance(e.func, ast.Attribute) and e.func.attr in ("get_val", "astype") and dotted(e.func.value) == "self"
            good = _reads(v) or (isinstance(v, ast.Attribute) and v.attr in ("real", "imag") and _reads(v.value))
            k = src(st.raw_value)
            if k in seen:
                continue
            seen.add(k)
            ck.check(good, rule, f, "the real attribute is the value read back through get_val()", "self.real = %s" % src(st.raw_value)[:60], st.stmt,
                     "for a scaled object the attribute no longer equals scale*code*2^-n_frac + bias")
    if n == 0:
        raise AnalysisError("set_val: store to self.real not found")
    fm = A.normaliser(prog)
    for pf in fpaths(prog, fm):
        if pf.end != "raise":
            continue
        early = [st for st in pf.stores if st.depth == 0 and st.path.startswith("self.") and not isinstance(st.target, ast.Subscript)]
        if early:
            ck.bad(rule, fm, "the normaliser writes no attribute of the object on a path that rejects the input", "%s written before raise" % early[0].path, early[0].stmt,
                   "a rejected store (caught by the caller) leaves the object changed: e.g. scaled = False makes later reads skip scale and bias")
            break
    else:
        ck.ok(rule, fm, "no attribute of self is written on the rejecting paths of the normaliser")
