"""Rule groups about the status record and callbacks (C04; parts shared with C02, C07, C08, C18, C20)."""
import ast

from ..model import dotted, src, calls_in, kw, AnalysisError
from ..common import (fpaths, any_guard, status_key, const_str, same_expr, peel, actual, fxp_names_in, effective_owners, store_status_key)
from .. import anchors as A

FLAGS = ("overflow", "underflow", "inaccuracy")


def ctrl(guards):
    return [(src(g[0]), g[1]) for g in guards]


def handler_roles(ck, rule):
    """C04.R1: in the overflow handler each flag store is control-dependent on exactly its own
    any-reduction guard, strict, on the handler's value parameter.  Returns roles
    {'val': p, 'max': p, 'min': p} (parameter names)."""
    prog = ck.prog
    h = A.flag_writer(prog)
    params = [p for p in h.params if p != "self"]
    if h.node.args.vararg is not None:
        params.append(h.node.args.vararg.arg)
    pfs = fpaths(prog, h)
    ck.saw(h, paths=len(pfs))
    roles = {}
    found = {"overflow": 0, "underflow": 0}
    for pf in pfs:
        for st in pf.stores:
            from ..common import store_status_key as _ssk
            sk = _ssk(st) or status_key(st.target)          # the substituted key: status[flag] inside a helper called with a literal name
            if not sk or sk[0] != "self" or sk[1] not in ("overflow", "underflow"):
                continue
            flag = sk[1]
            found[flag] += 1
            gs = st.guards
            what = "flag '%s' is raised iff some rounded element is %s the format's %s" % (
                flag, "above" if flag == "overflow" else "below", "maximum" if flag == "overflow" else "minimum")
            if len(gs) != 1 or not gs[0][1]:
                extra = [g for g in gs]
                ck.bad(rule, h, what, "status['%s'] store depends on guards %s" % (flag, ctrl(gs)), st.stmt,
                       "the store must be control-dependent on exactly one guard (its own range test); found %d" % len(gs))
                continue
            ag = any_guard(gs[0][2] if gs[0][2] is not None else gs[0][0])
            agsub = any_guard(gs[0][0])
            ag = agsub or ag
            if ag is None:
                ck.unsure(rule, h, what, st.stmt, "guard not in the any-reduction vocabulary: %s" % src(gs[0][0]))
                continue
            red, lo, op, hi = ag
            if red == "all":
                ck.bad(rule, h, what, "all-reduction guard %s" % src(gs[0][0]), st.stmt, "np.all instead of np.any: flag only when every element is out of range")
                continue
            if op != "<":
                ck.bad(rule, h, what, "non-strict comparison %s" % src(gs[0][0]), st.stmt,
                       "a value equal to the bound is in range; the comparison must be strict")
                continue
            # overflow: bound < v ; underflow: v < bound
            v, b = (hi, lo) if flag == "overflow" else (lo, hi)
            vd, bd = dotted(peel(v)[0]), dotted(b)
            if vd not in params or bd not in params or vd == bd:
                # reversed direction (flags exchanged)?
                v2, b2 = (lo, hi) if flag == "overflow" else (hi, lo)
                if dotted(peel(v2)[0]) in params and dotted(b2) in params:
                    ck.bad(rule, h, what, "direction reversed: %s" % src(gs[0][0]), st.stmt,
                           "'%s' is raised on the opposite side of the range" % flag)
                else:
                    ck.unsure(rule, h, what, st.stmt, "operands are not handler parameters: %s" % src(gs[0][0]))
                continue
            key = "max" if flag == "overflow" else "min"
            if roles.get("val", vd) != vd or roles.get(key, bd) != bd:
                ck.bad(rule, h, what, "inconsistent operand roles in %s" % src(gs[0][0]), st.stmt)
                continue
            roles["val"] = vd
            roles[key] = bd
            if not (isinstance(st.value, ast.Constant) and st.value.value is True):
                ck.bad(rule, h, what, "status['%s'] = %s" % (flag, src(st.value)), st.stmt, "flag store must be the literal True (sticky)")
                continue
            ck.ok(rule, h, what + " [guard %s]" % src(gs[0][0]), st.stmt)
    for flag, n in found.items():
        if n == 0:
            ck.bad(rule, h, "flag '%s' is raised by the overflow handler" % flag, "no store to status['%s'] in %s" % (flag, h.name), None,
                   "the handler never raises this flag")
    if "val" in roles and "max" in roles and "min" in roles and roles["max"] == roles["min"]:
        ck.bad(rule, h, "overflow and underflow are tested against different bounds", "both flags test parameter %s" % roles["max"])
    # every path (normal or raising) evaluates both tests: a path that skips a test loses the 'iff'
    for need in ("overflow", "underflow"):
        for pf in pfs:
            tests = [any_guard(g[0]) for g in pf.guards]
            has = False
            for ag in tests:
                if ag and ag[0] == "any":
                    _, lo, op, hi = ag
                    if need == "overflow" and dotted(lo) == roles.get("max") and dotted(peel(hi)[0]) == roles.get("val"):
                        has = True
                    if need == "underflow" and dotted(hi) == roles.get("min") and dotted(peel(lo)[0]) == roles.get("val"):
                        has = True
            if not has and roles.get("val"):
                ck.bad(rule, h, "the %s test is evaluated on every path through the handler" % need,
                       "path without %s test: guards %s" % (need, ctrl(pf.guards)), None,
                       "some write skips the %s test, so the flag can be missed" % need)
                break
        else:
            ck.ok(rule, h, "the %s test is evaluated on every path through the handler (%d paths)" % (need, len(pfs)))
    return h, roles


def callbacks_in_handler(ck, rule, h, roles):
    """C04.R5(a): the callback announced under a flag's guard is 'on_status_<flag>', co-guarded with the store."""
    prog = ck.prog
    run = A.cb_runner(prog)
    pfs = fpaths(prog, h)
    for flag in ("overflow", "underflow"):
        okc = 0
        for pf in pfs:
            stores = [st for st in pf.stores if status_key(st.target) == ("self", flag)]
            cbs = []
            for ce in pf.calls:
                if prog.resolve_call(h, ce.raw) == run.qualname and ce.raw.args:
                    nm = const_str(ce.raw.args[0])
                    cbs.append((nm, ce))
            mine = [c for n, c in cbs if n == "on_status_" + flag]
            if stores and len(mine) != 1:
                ck.bad(rule, h, "callback on_status_%s is invoked exactly once when the flag is raised" % flag,
                       "%d calls of on_status_%s on a path that raises the flag" % (len(mine), flag), stores[0].stmt)
                break
            if not stores and mine:
                ck.bad(rule, h, "callback on_status_%s is invoked only when the flag is raised" % flag,
                       "on_status_%s called on a path that does not raise the flag" % flag, mine[0].stmt)
                break
            if stores and mine:
                if ctrl(mine[0].guards) != ctrl(stores[0].guards):
                    ck.bad(rule, h, "callback on_status_%s is co-guarded with the flag store" % flag,
                           "callback guards %s vs store guards %s" % (ctrl(mine[0].guards), ctrl(stores[0].guards)), mine[0].stmt)
                    break
                okc += 1
        else:
            ck.ok(rule, h, "on_status_%s is invoked once, under the flag's own guard, on every path that raises it (%d paths)" % (flag, okc))
        ck.saw(calls=len(pfs))


def callback_names(ck, rule):
    """C04.R5(b,c): names passed to the runner == on_* methods of callbacks.Callback; runner calls the named
    method of every registered callback with the object."""
    prog = ck.prog
    run = A.cb_runner(prog)
    names = {}
    for f in prog.all_funcs():
        if f.module != "objects":
            continue
        for c in calls_in(f.node):
            if isinstance(c.func, ast.Attribute) and c.func.attr == run.name and c.args:
                nm = const_str(c.args[0])
                if nm is None:
                    # inside a helper new with respect to the pinned tree: the name is built from a parameter that every call site binds to a literal
                    from ..pinned import PINNED_FUNCS as _PF
                    from ..paths import subst as _subst
                    done_ = False
                    if f.qualname not in _PF:
                        ps_ = [p_ for p_ in f.params if p_ != "self"]
                        used = [p_ for p_ in ps_ if any(isinstance(x, ast.Name) and x.id == p_ for x in ast.walk(c.args[0]))]
                        if len(used) == 1:
                            pi = ps_.index(used[0])
                            lits = []
                            for g in prog.all_funcs():
                                for c2 in calls_in(g.node):
                                    n2 = c2.func.attr if isinstance(c2.func, ast.Attribute) else (c2.func.id if isinstance(c2.func, ast.Name) else None)
                                    if n2 == f.name:
                                        a = kw(c2, used[0], pi)
                                        lits.append((g, const_str(a) if a is not None else None))
                            if lits and all(l_ is not None for _, l_ in lits):
                                done_ = True
                                for g, l_ in lits:
                                    folded = const_str(_subst(c.args[0], {used[0]: ast.Constant(value=l_)}))
                                    if folded is None:
                                        done_ = False
                                        break
                                    names.setdefault(folded, []).append(g)
                    if not done_:
                        ck.unsure(rule, f, "callback name is a literal", c, src(c))
                else:
                    names.setdefault(nm, []).append(f)
                ck.saw(f, calls=1)
    cls = prog.classes.get("callbacks.Callback")
    if cls is None:
        raise AnalysisError("callbacks.Callback not found")
    hooks = {n.name for n in cls.body if isinstance(n, ast.FunctionDef) and n.name.startswith("on_")}
    for nm, fs in sorted(names.items()):
        ck.check(nm in hooks, rule, fs[0], "callback name %r passed to the runner is a method of callbacks.Callback" % nm,
                 "runner called with unknown hook name %r" % nm)
    for hk in sorted(hooks):
        ck.check(hk in names, rule, "fxpmath/callbacks.py Callback", "hook %s declared by Callback is announced somewhere" % hk,
                 "hook %s is never invoked" % hk)
    # runner body: on some path through the loop over self.callbacks the (substituted) call is getattr(<loop variable>, name)(self)
    ok = False
    loop_over = None
    p = [x for x in run.params if x != "self"][0]
    for n in ast.walk(run.node):
        if isinstance(n, ast.For) and dotted(n.iter) == "self.callbacks" and isinstance(n.target, ast.Name):
            loop_over = n
    if loop_over is not None:
        cbv = loop_over.target.id
        from ..common import fpaths
        for pf in fpaths(prog, run):
            for ce in pf.calls:
                c = ce.call
                if isinstance(c.func, ast.Call) and dotted(c.func.func) == "getattr" and len(c.func.args) >= 2 \
                        and src(c.func.args[0]) == "$elem(self.callbacks)" and dotted(c.func.args[1]) == p \
                        and len(c.args) >= 1 and dotted(c.args[0]) == "self":
                    ok = True
    ck.check(ok, rule, run, "the runner calls getattr(cb, name)(self) for every registered callback",
             "runner body does not call the named hook on each callback with the object")
    # no early exit from the loop
    if loop_over is not None:
        esc = any(isinstance(n, (ast.Break, ast.Return)) for n in ast.walk(loop_over))
        ck.check(not esc, rule, run, "the runner does not stop after the first callback", "break/return inside the callback loop")
    return names


def sticky_and_ownership(ck, rule, owners=None):
    """C04.R3: every write to a status flag outside __init__/reset stores the literal True (or a sticky
    idiom); whole-record replacement only in __init__; overflow/underflow are raised only by the overflow
    handler; inaccuracy only by the funnel, the normaliser's Fxp branch and the two function wrappers."""
    prog = ck.prog
    h = A.flag_writer(prog)
    w1, w2 = A.wrappers(prog)
    allowed = {
        "overflow": {h.qualname},
        "underflow": {h.qualname},
        "inaccuracy": {A.funnel(prog).qualname, A.normaliser(prog).qualname, w1.qualname, w2.qualname},
        "extended_prec": {"objects.Fxp.resize"},
    }
    n = 0
    for f in prog.all_funcs():
        if f.module not in ("objects", "functions", "utils"):
            continue
        for node in ast.walk(f.node):
            tgts = []
            val = None
            if isinstance(node, ast.Assign):
                tgts, val = node.targets, node.value
            elif isinstance(node, ast.AugAssign):
                tgts, val = [node.target], node
            elif isinstance(node, ast.AnnAssign) and node.value is not None:
                tgts, val = [node.target], node.value
            elif isinstance(node, ast.Delete):
                for t in node.targets:
                    sk = status_key(t)
                    if sk or (isinstance(t, ast.Attribute) and t.attr == "status"):
                        ck.bad(rule, f, "status entries are never deleted", "del %s" % src(t), node)
                continue
            for t in tgts:
                sk = status_key(t)
                if sk:
                    n += 1
                    base, key = sk
                    inreset = effective_owners(prog, f) <= {"objects.Fxp.reset", "objects.Fxp.__init__"}
                    if inreset:
                        continue
                    if key is None:
                        # a key that is a parameter of a helper new with respect to the pinned tree, bound to a literal at every call site:
                        # each caller writes that literal flag (ownership is decided for the caller)
                        sub_ = t.slice
                        from ..pinned import PINNED_FUNCS as _PF
                        if isinstance(sub_, ast.Name) and sub_.id in f.params and f.qualname not in _PF and isinstance(val, ast.Constant) and val.value is True:
                            pi = [p_ for p_ in f.params if p_ != "self"].index(sub_.id) if sub_.id in [p_ for p_ in f.params if p_ != "self"] else None
                            sites = []
                            for g in prog.all_funcs():
                                for c in calls_in(g.node):
                                    nm = c.func.attr if isinstance(c.func, ast.Attribute) else (c.func.id if isinstance(c.func, ast.Name) else None)
                                    if nm == f.name:
                                        a = kw(c, sub_.id, pi)
                                        sites.append((g, const_str(a) if a is not None else None, c))
                            if sites and all(k_ is not None for _, k_, _ in sites):
                                okall = True
                                for g, k_, c in sites:
                                    if k_ in allowed and g.qualname not in allowed[k_] and not (effective_owners(prog, g) <= allowed[k_]):
                                        okall = False
                                        ck.bad(rule, g, "status['%s'] is written only by %s" % (k_, sorted(x.split('.')[-1] for x in allowed[k_])),
                                               "%s raises status['%s'] through %s" % (g.qualname, k_, f.name), c,
                                               "a flag raised outside its owner breaks 'iff': it no longer reports what happened in a write")
                                if okall:
                                    continue
                                continue
                        # computed key: may be any flag, so the writer must own every flag
                        ck.bad(rule, f, "status flags are written under their literal names by their owners", "%s writes %s (computed key)" % (f.qualname, src(t)), node,
                               "a computed key can raise overflow/underflow outside the overflow handler: the flag no longer reports what happened in a write")
                        continue
                    if key in allowed and f.qualname not in allowed[key] and not (effective_owners(prog, f) <= allowed[key]) and not (f.parent and f.parent.qualname in allowed[key]):
                        ck.bad(rule, f, "status['%s'] is written only by %s" % (key, sorted(x.split('.')[-1] for x in allowed[key])),
                               "%s writes status['%s']" % (f.qualname, key), node,
                               "a flag raised outside its owner breaks 'iff': it no longer reports what happened in a write")
                        continue
                    if key in FLAGS:
                        good = isinstance(val, ast.Constant) and val.value is True
                        # sticky idioms: status[K] = status[K] or c ; status[K] |= c
                        if isinstance(val, ast.BoolOp) and isinstance(val.op, ast.Or) and any(same_expr(_load(t), v) for v in val.values):
                            good = True
                        if isinstance(val, ast.AugAssign) and isinstance(val.op, ast.BitOr):
                            good = True
                        ck.check(good, rule, f, "write to status['%s'] can only raise the flag (sticky)" % key,
                                 "%s = %s" % (src(t), src(val.value) if isinstance(val, ast.AugAssign) else src(val)), node,
                                 "a non-True right-hand side can clear a raised flag without reset()")
                    elif key not in allowed:
                        ck.note("status key %r written in %s" % (key, f.qualname))
                elif isinstance(t, ast.Attribute) and t.attr == "status":
                    n += 1
                    if not (effective_owners(prog, f) <= {"objects.Fxp.__init__"}):
                        ck.bad(rule, f, "the status record is replaced only by the constructor",
                               "%s = %s" % (src(t), src(val)[:80]), node,
                               "rebinding the record drops keys or flags (reset() must clear the three flags in place)")
                    else:
                        ck.ok(rule, f, "status record (re)bound in the constructor", node, nontrivial=False)
        # mutating dict methods on a status record
        for c in calls_in(f.node):
            if isinstance(c.func, ast.Attribute) and isinstance(c.func.value, ast.Attribute) and c.func.value.attr == "status" \
                    and c.func.attr in ("clear", "pop", "popitem", "update", "setdefault", "__setitem__", "__delitem__"):
                if f.cls == "Fxp" and f.name in ("reset", "__init__"):
                    continue
                ck.bad(rule, f, "status record is mutated only through sticky flag stores", src(c)[:80], c)
    ck.extra["status_write_sites"] = n
    if n < 6:
        raise AnalysisError("only %d status write sites found; expected at least 6 (instance count fell)" % n)


def _load(t):
    import copy
    t = copy.deepcopy(t)
    for n in ast.walk(t):
        if hasattr(n, "ctx"):
            n.ctx = ast.Load()
    return t


def init_status_keys(prog):
    init = prog.func("objects.Fxp.__init__")
    keys = None
    for n in ast.walk(init.node):
        if isinstance(n, ast.Assign) and any(dotted(t) == "self.status" for t in n.targets) and isinstance(n.value, ast.Dict):
            keys = [const_str(k) for k in n.value.keys]
    if keys is None:
        raise AnalysisError("constructor's status literal not found")
    return keys


def reset_rule(ck, rule):
    """C04.R4: reset() clears the three flags and keeps the key set established by the constructor."""
    prog = ck.prog
    f = prog.func("objects.Fxp.reset")
    keys = init_status_keys(prog)
    pfs = fpaths(prog, f)
    ck.saw(f, paths=len(pfs))
    for pf in pfs:
        if pf.end == "raise":
            continue
        cleared = set()
        rebound = None
        for st in pf.stores:
            sk = store_status_key(st)
            if sk and sk[0] == "self" and isinstance(st.value, ast.Constant) and st.value.value is False and not st.guards:
                cleared.add(sk[1])
            elif sk and sk[0] == "self" and sk[1] in FLAGS:
                ck.bad(rule, f, "reset() clears the flags unconditionally", "%s = %s under %s" % (src(st.target), src(st.value), ctrl(st.guards)), st.stmt)
            if st.path == "self.status" and not isinstance(st.target, ast.Subscript):
                rebound = st
        for ce in pf.calls:
            c = ce.raw
            if isinstance(c.func, ast.Attribute) and c.func.attr == "update" and dotted(c.func.value) == "self.status" and c.args and isinstance(c.args[0], ast.Dict):
                for k, v in zip(c.args[0].keys, c.args[0].values):
                    if isinstance(v, ast.Constant) and v.value is False:
                        cleared.add(const_str(k))
        if rebound is not None:
            if isinstance(rebound.value, ast.Dict):
                newkeys = [const_str(k) for k in rebound.value.keys]
                for k, v in zip(rebound.value.keys, rebound.value.values):
                    if isinstance(v, ast.Constant) and v.value is False:
                        cleared.add(const_str(k))
                missing = [k for k in keys if k not in newkeys]
                ck.check(not missing, rule, f, "reset() leaves the rest of the status record usable (same key set as the constructor's)",
                         "reset rebinds status to a dict without %s" % missing, rebound.stmt,
                         "readers of status[%r] raise KeyError / the indicator is lost after reset()" % (missing[0] if missing else ""))
            else:
                ck.unsure(rule, f, "reset() keeps the key set", rebound.stmt, src(rebound.value))
        else:
            ck.ok(rule, f, "reset() updates the record in place (key set preserved)")
        miss = [k for k in FLAGS if k not in cleared]
        ck.check(not miss, rule, f, "reset() clears overflow, underflow and inaccuracy on every path",
                 "reset leaves %s uncleared" % miss, f.node)
        extra = [k for k in cleared if k not in FLAGS]
        ck.check(not extra, rule, f, "reset() clears only the three flags", "reset also clears %s" % extra, f.node,
                 "the rest of the record (e.g. the extended-precision indicator) must survive reset()")


def inaccuracy_guard(ck, rule):
    """C04.R2 + R5(d): in the funnel, status['inaccuracy'] is raised under exactly the guard
    not all(input == stored/factor); the callback is co-guarded; on_value_change is unconditional, once."""
    prog = ck.prog
    f = A.funnel(prog)
    run = A.cb_runner(prog)
    fmt = A.normaliser(prog)
    fac = A.factor(prog)
    pfs = fpaths(prog, f)
    ck.saw(f, paths=len(pfs))
    n_ok = 0
    seen_bad = set()

    def bad(what, construct, node, detail=None):
        k = (what, construct)
        if k not in seen_bad:
            seen_bad.add(k)
            ck.bad(rule, f, what, construct, node, detail)

    for pf in pfs:
        if pf.end == "raise":
            continue
        vstores = [st for st in pf.stores if st.path == "self.val"]
        istores = [st for st in pf.stores if (store_status_key(st) or status_key(st.target)) == ("self", "inaccuracy")]
        # the substituted name: 'on_status_' + flag inside a helper called with a literal flag folds to the hook's name
        cbs = [((const_str(ce.call.args[0]) or const_str(ce.raw.args[0])) if ce.raw.args else None, ce) for ce in pf.calls
               if prog.resolve_call(ce.ctx or f, ce.raw) == run.qualname]
        vc = [c for n, c in cbs if n == "on_value_change"]
        if len(vc) != 1:
            bad("one value-change notification per write", "%d on_value_change calls on a normal path" % len(vc), f.node,
                "path guards: %s" % ctrl(pf.guards)[:6])
        elif vc[0].guards:
            bad("the value-change notification is unconditional", "on_value_change under %s" % ctrl(vc[0].guards), vc[0].stmt)
        elif vstores and vc[0].idx < max(0, 0):
            pass
        ic = [c for n, c in cbs if n == "on_status_inaccuracy"]
        # the comparison guard must be evaluated on every normal path
        cmpg = [g for g in pf.guards if _is_inacc_test(g[0]) is not None]
        if not cmpg:
            # is there a conjunction containing it?
            conj = [g for g in pf.guards if _contains_inacc_test(g[0])]
            if conj:
                bad("inaccuracy is raised iff some stored element differs from its input",
                    "inaccuracy test weakened by extra condition: %s" % src(conj[0][2] if conj[0][2] is not None else conj[0][0]), conj[0][3],
                    "the comparison is and-ed/or-ed with another condition, so some inexact writes are not flagged (or exact ones are)")
            else:
                bad("inaccuracy is raised iff some stored element differs from its input",
                    "normal path of set_val without the stored-vs-input comparison", f.node, "guards: %s" % ctrl(pf.guards)[:8])
            continue
        g = cmpg[0]
        a, b = _is_inacc_test(g[0])
        # which side is stored/factor ?
        side = None
        for s_in, s_st in ((a, b), (b, a)):
            if isinstance(s_st, ast.BinOp) and isinstance(s_st.op, ast.Div):
                side = (s_in, s_st)
                break
        if side is None:
            bad("inaccuracy compares the input with stored/factor", "comparison %s" % src(g[2])[:100], g[3],
                "neither side divides the stored code by the conversion factor")
            continue
        s_in, s_st = side
        stored, fct = s_st.left, s_st.right
        if vstores:
            if not same_expr(peel(stored)[0], peel(vstores[-1].value)[0]):
                bad("inaccuracy compares the value actually stored", "compared %s" % src(g[2])[:120], g[3],
                    "the left operand of the division is not the expression written to the value buffer (e.g. the rounded-but-unclamped value)")
                continue
        fct_ok = isinstance(fct, ast.Call) and prog.resolve_call(f, fct) == fac.qualname
        if not fct_ok:
            bad("inaccuracy divides the stored code by the conversion factor", "divisor %s" % src(fct)[:80], g[3])
            continue
        inner, casts = peel(s_in)
        in_ok = isinstance(inner, ast.Subscript) and isinstance(inner.value, ast.Call) and prog.resolve_call(f, inner.value) == fmt.qualname \
            and isinstance(inner.slice, ast.Constant) and inner.slice.value == 0
        if not in_ok:
            bad("inaccuracy compares against the normalised input value", "input side %s" % src(s_in)[:100], g[3],
                "the input side must be the normaliser's value output (after scale/bias), not the raw argument or an intermediate")
            continue
        # store and callback co-guarded by exactly this guard with the polarity 'differs'
        differs_pol = _inacc_polarity(g[0])
        took = (g[1] == differs_pol)
        if took:
            if len(istores) != 1:
                bad("inaccuracy flag is raised when the comparison differs", "%d stores on a differing path" % len(istores), g[3])
                continue
            st = istores[0]
            if [x[3] for x in st.guards] != [g[3]]:
                bad("inaccuracy store depends only on the comparison", "store guards %s" % ctrl(st.guards), st.stmt)
                continue
            if not (isinstance(st.value, ast.Constant) and st.value.value is True):
                bad("inaccuracy store is the literal True", "%s = %s" % (src(st.target), src(st.value)), st.stmt)
                continue
            if len(ic) != 1 or [x[3] for x in ic[0].guards] != [g[3]]:
                bad("on_status_inaccuracy is invoked once, co-guarded with the flag store", "%d calls / guards differ" % len(ic), st.stmt)
                continue
        else:
            if istores or ic:
                bad("inaccuracy is not raised when stored == input", "store/callback on the equal branch", g[3])
                continue
        n_ok += 1
    if not seen_bad:
        ck.ok(rule, f, "inaccuracy flag, its callback and the value-change notification are correctly guarded on all %d normal paths" % n_ok)
        ck.extra["exhaustive"] = True


def _is_inacc_test(t):
    """recognise [not] all(equal(A,B)) / any(A != B) / not array_equal(A,B); return (A,B) or None"""
    pol = True
    while isinstance(t, ast.UnaryOp) and isinstance(t.op, ast.Not):
        t = t.operand
        pol = not pol
    # X.all() / np.all(X) / X.any() / np.any(X)
    red = None
    inner = None
    if isinstance(t, ast.Call):
        fn = dotted(t.func)
        if isinstance(t.func, ast.Attribute) and t.func.attr in ("all", "any") and not t.args and fn not in ("np.all", "np.any"):
            red, inner = t.func.attr, t.func.value
        elif fn in ("np.all", "np.any", "all", "any") and t.args:
            red, inner = fn.split(".")[-1], t.args[0]
        elif fn in ("np.array_equal",) and len(t.args) == 2:
            return (t.args[0], t.args[1])
    if inner is None:
        return None
    if isinstance(inner, ast.Call) and dotted(inner.func) in ("np.equal", "np.not_equal") and len(inner.args) == 2:
        if (dotted(inner.func) == "np.equal") == (red == "all"):
            return (inner.args[0], inner.args[1])
        return None
    if isinstance(inner, ast.Compare) and len(inner.ops) == 1 and isinstance(inner.ops[0], (ast.Eq, ast.NotEq)):
        if isinstance(inner.ops[0], ast.Eq) == (red == "all"):
            return (inner.left, inner.comparators[0])
    return None


def _inacc_polarity(t):
    """polarity of the guard expression that means 'differs'"""
    pol = True
    while isinstance(t, ast.UnaryOp) and isinstance(t.op, ast.Not):
        t = t.operand
        pol = not pol
    # all(equal) is True when same -> 'differs' is the negation
    red = None
    if isinstance(t, ast.Call):
        fn = dotted(t.func)
        if isinstance(t.func, ast.Attribute) and t.func.attr in ("all", "any") and not t.args and fn not in ("np.all", "np.any"):
            red = t.func.attr
        elif fn in ("np.all", "np.any", "all", "any"):
            red = fn.split(".")[-1]
        elif fn == "np.array_equal":
            red = "all"
    same_when_true = (red == "all")
    # expression value True means: same (if all) / differs (if any) ; with 'pol' flips
    expr_true_means_differs = (not same_when_true) if pol else same_when_true
    return expr_true_means_differs


def _contains_inacc_test(t):
    for n in ast.walk(t):
        if isinstance(n, (ast.BoolOp,)):
            for v in n.values:
                if _is_inacc_test(v) is not None:
                    return True
    return False


def propagation(ck, rule):
    """C04.R6: results of arithmetic carry the inaccuracy flag whenever an operand carried it: on every returning path of both wrappers,
    if the guards say some operand's flag is set the result's flag is stored True; a path that stores nothing has tested every operand
    and found all flags clear (short-circuit after the first set flag is fine)."""
    prog = ck.prog
    from ..common import path_literals
    for w in A.wrappers(prog):
        ops = [p for p in w.params if p in ("x", "y", "a", "b")]
        pfs = fpaths(prog, w)
        ck.saw(w, paths=len(pfs))
        good = 0
        failed = False
        for pf in pfs:
            if pf.end != "return" or pf.ret is None:
                continue
            rd = dotted(pf.ret_stmt.value) if pf.ret_stmt is not None and isinstance(pf.ret_stmt, ast.Return) else None
            state = {}

            def _unwrap(t):
                """X.status[k] with X = Fxp(op) (operand coerced on this path) reads the flag of the operand role op"""
                class _U(ast.NodeTransformer):
                    def visit_Call(self, n):
                        self.generic_visit(n)
                        if prog.is_fxp_ctor(w, n) and len(n.args) == 1 and not n.keywords and isinstance(n.args[0], ast.Name) and n.args[0].id in ops:
                            return n.args[0]
                        return n
                import copy as _cp
                return _U().visit(_cp.deepcopy(t))
            # the tests as written and as substituted (a named condition `flagged = x.status[..] or y.status[..]` shows only after substitution)
            lits = list(path_literals([(g[2] if g[2] is not None else g[0], g[1]) for g in pf.guards])) + list(path_literals([(_unwrap(g[0]), g[1]) for g in pf.guards]))
            for t, pol in lits:
                if isinstance(t, ast.Subscript):
                    sk = status_key(t)
                    if sk and sk[1] == "inaccuracy" and sk[0] in ops:
                        state[sk[0]] = pol
                elif isinstance(t, ast.BoolOp) and isinstance(t.op, ast.Or) and pol:
                    names = _flag_disjunction(t)
                    if names and set(names) <= set(ops):
                        for n_ in names:
                            state.setdefault(n_, True)     # at least one of them is set
            sts = [st for st in pf.stores if status_key(st.target) and status_key(st.target)[1] == "inaccuracy"]
            set_true = [st for st in sts if isinstance(st.value, ast.Constant) and st.value.value is True and (rd is None or status_key(st.target)[0] == rd)]
            if any(state.values()):
                if not set_true:
                    ck.bad(rule, w, "the result carries the inaccuracy flag when an operand carries it", "operand flag %s set but the result's flag is not raised" % [o for o, v in state.items() if v], pf.ret_stmt,
                           "an operand's inaccuracy is lost in the result")
                    failed = True
                    break
            else:
                missing = [o for o in ops if o not in state]
                if missing:
                    ck.bad(rule, w, "the propagation test examines status['inaccuracy'] of every operand (%s)" % ", ".join(ops),
                           "return path that never tests %s" % missing, pf.ret_stmt, "an operand's inaccuracy is lost in the result")
                    failed = True
                    break
                if set_true and not [st for st in set_true if st.depth == 0 and not st.guards] and False:
                    pass
            if set_true and not any(state.values()):
                ck.bad(rule, w, "the wrapper raises the result's inaccuracy flag only on behalf of an operand", "flag raised although no operand flag is set on this path", set_true[0].stmt)
                failed = True
                break
            good += 1
        if not failed:
            ck.ok(rule, w, "every returning path (%d) raises the result's inaccuracy flag iff an operand (%s) carries it" % (good, ", ".join(ops)))
    # normaliser Fxp branch
    fm = A.normaliser(prog)
    vp = [p for p in fm.params if p != "self"][0]
    hit = False
    for n in ast.walk(fm.node):
        if isinstance(n, ast.If):
            for s in n.body:
                if isinstance(s, ast.Assign) and any(status_key(t) == ("self", "inaccuracy") for t in s.targets):
                    conj = n.test.values if isinstance(n.test, ast.BoolOp) and isinstance(n.test.op, ast.And) else [n.test]
                    srcs = [c for c in conj if isinstance(c, ast.Subscript) and status_key(c) == (vp, "inaccuracy")]
                    others = [c for c in conj if c not in srcs]
                    dflt = fm.defaults()
                    okothers = all(isinstance(o, ast.Name) and o.id in fm.params and isinstance(dflt.get(o.id), ast.Constant) and dflt[o.id].value is True for o in others)
                    hit = True
                    ck.check(bool(srcs) and okothers, rule, fm, "constructing/assigning from a fixed-point source propagates its inaccuracy flag",
                             "propagation test %s" % src(n.test), n)
    if not hit:
        ck.bad(rule, fm, "constructing/assigning from a fixed-point source propagates its inaccuracy flag",
               "no propagation of %s.status['inaccuracy'] in %s" % (vp, fm.name), fm.node)
    # no caller disables it
    for f in prog.all_funcs():
        for c in calls_in(f.node):
            if isinstance(c.func, ast.Attribute) and c.func.attr == fm.name:
                for k in c.keywords:
                    if k.arg == "set_inaccuracy" and not (isinstance(k.value, ast.Constant) and k.value.value is True):
                        ck.bad(rule, f, "no call site disables inaccuracy propagation", src(c)[:90], c)


def _flag_disjunction(t):
    """names X such that t is `X.status['inaccuracy'] [or Y.status['inaccuracy'] ...]`"""
    vals = t.values if isinstance(t, ast.BoolOp) and isinstance(t.op, ast.Or) else [t]
    names = []
    for v in vals:
        if isinstance(v, ast.Subscript):
            sk = status_key(v)
            if sk and sk[1] == "inaccuracy" and sk[0]:
                names.append(sk[0])
                continue
        return None
    return names


def handler_roles_quiet(prog):
    """roles of the handler's parameters (value / minimum / maximum) from its range tests alone, independent of how the
    flag stores are guarded (so that a defect in the flag protocol is reported once, by C04, not as an analysis error elsewhere)"""
    h = A.ovf_handler(prog)
    params = [p for p in h.params if p != "self"]
    triples = []
    for n in ast.walk(h.node):
        if isinstance(n, (ast.If, ast.IfExp, ast.While)):
            ag = any_guard(n.test)
            if ag and ag[0] in ("any", "all"):
                lo, hi = dotted(peel(ag[1])[0]), dotted(peel(ag[3])[0])
                if lo in params and hi in params and lo != hi:
                    triples.append((lo, hi))
    names = [x for t in triples for x in t]
    val = None
    for p_ in params:
        if triples and all(p_ in t for t in triples):
            val = p_
    roles = {}
    if val is not None:
        roles["val"] = val
        for lo, hi in triples:
            if hi == val:
                roles.setdefault("max", lo)
            if lo == val:
                roles.setdefault("min", hi)
    if not all(k in roles for k in ("val", "min", "max")):
        if len(params) == 3:
            roles = {"val": params[0], "min": params[1], "max": params[2]}    # positional convention (value, minimum, maximum)
        else:
            raise AnalysisError("overflow handler parameter roles cannot be determined")
    return roles
