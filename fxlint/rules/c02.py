"""C02 - every produced object is well-formed: codes in range, metadata consistent."""
from . import pipeline, routes, sizes, funcs

from . import routes, fresh, flags, sizes, conv, dtype, carriers, funcs, ops, strings, pipeline, widths

EXPLANATION = (
    "R1 ownership: every write to a .val buffer in the package is in set_val, a None initialiser, or a code-preserving re-arrangement / "
    "right shift; R2 the MIN/MAX terms handed to the overflow stage on every path of set_val, and those used by resize, normalise to the "
    "statement's bounds; R3 n_int = n_word - n_frac - [signed] at the exit of every normal path of resize (with the values of the fields in "
    "force at exit) and in the size reconciliation of _init_size/resize; R4 upper/lower/precision formulas incl. complex and scale/bias; "
    "R5 dtype refresh and value re-store follow the last size write on every path, derived fields are written only by resize, other writers "
    "of format fields always finish through resize; R6 clamp argument roles, no narrowing cast before the clamp; R7 function results are "
    "rebuilt through the constructor or out.set_val. Residual: values returned by NumPy fallbacks (_wrapped_numpy_func); Python ints in "
    "[2^63, 2^64) hit the known int64 carrier finding reported under C19."
    ' Added after the third round of seeded changes: the word cap and the size assembly of set_best_sizes (C06.R2/R3), both range tests of the overflow handler (C04.R1), the machine carrier int64/uint64 (C18.R5) and the absence of class-level state writes (C20.R7) are included because the well-formedness of produced objects leans on them.'
    ' Added after the fourth round of seeded changes: constructor state incl. re-computation of the scaled indicator after a like=/template copy (C20.R2); value-type promotion on mapped paths (C17.R8); C20.R8 objects carry only the documented attributes and no function writes module-level containers (no caches / memos that go stale).'
    ' Added after the fifth round of seeded changes: C20.R8 also forbids mutable default arguments and private attributes hung on operands (x._cache, x.__dict__[...]).')
ASSUMPTIONS = ["attribute writes through setattr()/__dict__ are not used for format fields (checked: only copy of whole __dict__ in the constructor)"]
TRUSTED = ["CPython ast", "fxlint term normaliser (cross-checked on an integer grid when terms differ)"]


def run(ck):
    routes.who_writes_codes(ck, "C02.R1")
    roles = pipeline.store_pipeline(ck, "C01.R2", want_bounds=True)
    sizes.resize_rules(ck, {"nint": "C02.R3", "limits": "C02.R4", "refresh": "C02.R5", "restore_raw": "C10.R1"})
    sizes.init_size_relation(ck, "C02.R3")
    sizes.fields_written_only_in_resize(ck, "C02.R5")
    pipeline.overflow_dispatch(ck, "C02.R6", "C03.R2", roles)
    funcs.results_through_funnel(ck, "C02.R7")
    dtype.language_rules(ck, "C12.R1", "C12.R2")      # "spells exactly that format in its dtype string"
    sizes.no_size_rejection(ck, "C02.R8")
    ops.unary_ops(ck, "C08.R6")                        # operator results are rebuilt through the constructor
    fresh.returned_objects_fresh(ck, "C20.R1")
    sizes.word_max_chain(ck, "C06.R3")                # metadata is computed for the capped word
    sizes.best_sizes_assembly(ck, "C06.R2", "C06.R3", "C06.R4")
    fresh.no_class_state_writes(ck, "C20.R7")
    carriers.machine_carrier(ck, "C18.R5")
    h_, _r = flags.handler_roles(ck, "C04.R1")
    conv.scaled_value_type(ck, "C17.R8")
    fresh.no_hidden_state(ck, "C20.R8")                  # results depend on the documented state only (no caches / memos)
    fresh.constructor_state(ck, "C20.R2")
