"""Carrier (int64 / uint64 / Python-int object array) switches: one threshold symbol everywhere (C18.R1),
modular wrap normal form (C03.R1/R3), object-chain float-freedom (C18.R3)."""
import ast

from ..model import dotted, src, calls_in, kw, AnalysisError
from ..common import fpaths, peel, is_int_cast, actual, mkterm, mkbool, same_expr, const_str
from ..terms import Term, exp2, NotATerm, witness
from .. import anchors as A
from .sizes import _threshold_ok

WIDE_CASTS = {"int", "object", "np.int64", "np.object_", "np.int_", "np.longlong"}


def _ident(d):
    return d


def classify_wrap(e, xparam, problems):
    """-> ('raw',) | ('mod', M) | ('resigned', M, H) | None ; M, H Terms"""
    inner, casts = peel(e)
    for c in casts:
        if c[0] == "astype" and c[1] is not None and c[1] not in WIDE_CASTS:
            problems.append(("no narrowing cast precedes the modular reduction", "cast to %s" % c[1],
                             "values of 2^31 or more are destroyed before the low n_word bits are taken"))
    if dotted(inner) == xparam:
        has_int = any(c[0] in ("int_array",) or (c[0] == "map" and c[1] == "int") or (c[0] in ("astype", "np.array") and c[1] in ("object", "np.object_")) for c in casts)
        return ("raw", has_int, casts)
    if isinstance(inner, ast.BinOp) and isinstance(inner.op, (ast.BitAnd, ast.Mod)):
        l = classify_wrap(inner.left, xparam, problems)
        if l is None or l[0] != "raw":
            return None
        try:
            r = mkterm(inner.right, rename=_ident)
        except NotATerm:
            return None
        M = r + 1 if isinstance(inner.op, ast.BitAnd) else r
        return ("mod", M, l[1], l[2])
    if isinstance(inner, ast.BinOp) and isinstance(inner.op, ast.Sub):
        # offset-binary spelling: ((x + H) mod M) - H  ==  x mod M re-signed at M - H (two's complement iff H == M/2), provided the
        # addition is carried out on integers (a float sum x + H is rounded to 53 bits before the low bits are taken)
        lm, mcasts = peel(inner.left)
        if isinstance(lm, ast.BinOp) and isinstance(lm.op, (ast.BitAnd, ast.Mod)):
            addn, addcasts = peel(lm.left)
            if isinstance(addn, ast.BinOp) and isinstance(addn.op, ast.Add):
                l = classify_wrap(addn.left, xparam, problems)
                if l is not None and l[0] == "raw":
                    try:
                        Hadd = mkterm(addn.right, rename=_ident)
                        Hsub = mkterm(inner.right, rename=_ident)
                        r = mkterm(lm.right, rename=_ident)
                    except NotATerm:
                        return None
                    M = r + 1 if isinstance(lm.op, ast.BitAnd) else r
                    wide_cast = lambda cs: any(c[0] == "int_array" or (c[0] == "map" and c[1] == "int") or (c[0] in ("astype", "np.array") and c[1] in WIDE_CASTS) for c in cs)
                    for c in addcasts:
                        if c[0] == "astype" and c[1] is not None and c[1] not in WIDE_CASTS:
                            problems.append(("no narrowing cast precedes the modular reduction", "cast to %s" % c[1], "values of 2^31 or more are destroyed before the low n_word bits are taken"))
                    zero = Hadd == Term.const(0) if hasattr(Term, "const") else False
                    if Hadd != Hsub:
                        problems.append(("the offset added before the mask is the offset removed after it", "adds %s, subtracts %s" % (Hadd.show(), Hsub.show()), "the residue is shifted by the difference"))
                        return None
                    if zero:
                        return ("mod", M, l[1] or wide_cast(addcasts), l[2] + addcasts)
                    if not wide_cast(l[2]):
                        problems.append(("the half-period offset is added to the value after its conversion to integers", "offset added in %s" % src(addn)[:70],
                                         "a float sum x + 2^(n_word-1) is rounded to the 53-bit mantissa: for |x| >= 2^53 the offset is absorbed and the wrapped code is off by half a period"))
                    return ("resigned", M, Hadd, M, l[1] or wide_cast(addcasts), l[2] + addcasts)   # threshold M - H equals 2^(n-1) iff H does (M is checked against 2^n)
    if isinstance(inner, ast.Call) and dotted(inner.func) == "np.where" and len(inner.args) == 3:
        c, a, b = inner.args
        return _resign(c, a, b, xparam, problems)
    if isinstance(inner, ast.IfExp):
        return _resign(inner.test, inner.body, inner.orelse, xparam, problems)
    return None


def _resign(c, a, b, xparam, problems):
    if not (isinstance(c, ast.Compare) and len(c.ops) == 1):
        return None
    op = c.ops[0]
    l, r = c.left, c.comparators[0]
    # normalise to (v REL H) with v the reduced value
    vl = classify_wrap(l, xparam, [])
    vr = classify_wrap(r, xparam, [])
    if vl is not None and vl[0] == "mod":
        v, H, rel = l, r, type(op)
    elif vr is not None and vr[0] == "mod":
        v, H = r, l
        rel = {ast.Lt: ast.Gt, ast.Gt: ast.Lt, ast.LtE: ast.GtE, ast.GtE: ast.LtE}.get(type(op))
    else:
        return None
    vm = classify_wrap(v, xparam, problems)
    try:
        Ht = mkterm(H, rename=_ident)
    except NotATerm:
        return None
    # keep / adjust branches
    if rel in (ast.Lt, ast.LtE):
        keep, adj = a, b
        strict_ok = rel is ast.Lt
    elif rel in (ast.GtE, ast.Gt):
        keep, adj = b, a
        strict_ok = rel is ast.GtE
    else:
        return None
    if not strict_ok:
        problems.append(("the sign boundary code 2^(n_word-1) is re-signed", "comparison %s" % src(c)[:80],
                         "with this operator the code exactly 2^(n_word-1) stays positive and is out of range (must map to -2^(n_word-1))"))
    pv = peel(v)[0]
    if not same_expr(peel(keep)[0], pv):
        return None
    adj_i = peel(adj)[0]
    if not (isinstance(adj_i, ast.BinOp) and same_expr(peel(adj_i.left)[0], pv)):
        return None
    try:
        d = mkterm(adj_i.right, rename=_ident)
    except NotATerm:
        return None
    if isinstance(adj_i.op, ast.BitOr):
        Madj = -d
    elif isinstance(adj_i.op, ast.Sub):
        Madj = d
    elif isinstance(adj_i.op, ast.Add):
        Madj = -d
    else:
        return None
    return ("resigned", vm[1], Ht, Madj, vm[2], vm[3])


def wrap_rule(ck, rule, rule_carrier):
    """C03.R1: utils.wrap == x mod 2^n, re-signed at 2^(n-1) when signed; C03.R3 object carrier at the storage threshold."""
    prog = ck.prog
    w = prog.func("utils.wrap")
    xp, sp, np_ = w.params[0], w.params[1], w.params[2]
    pfs = fpaths(prog, w)
    ck.saw(w, paths=len(pfs))
    M_o = exp2(Term.var(np_))
    H_o = exp2(Term.var(np_) - 1)
    n_ok = 0
    for pf in pfs:
        if pf.end == "raise":
            continue
        if pf.ret is None:
            ck.bad(rule, w, "wrap returns the reduced value", "path without return value", w.node)
            continue
        sg = [g for g in pf.guards if dotted(g[0]) == sp]
        signed = sg[-1][1] if sg else None
        wide = []
        for g in pf.guards:
            t, pol = g[0], g[1]
            while isinstance(t, ast.UnaryOp) and isinstance(t.op, ast.Not):
                t, pol = t.operand, not pol
            if _wide_guard(prog, t, np_):
                wide.append((t, pol))
            elif isinstance(t, ast.Compare) and len(t.ops) == 1:
                # flipped spellings: T <= n_word, n_word < T, T > n_word
                l, op, r = t.left, t.ops[0], t.comparators[0]
                if dotted(r) == np_ and _threshold_ok(prog, l) and isinstance(op, ast.LtE):
                    wide.append((t, pol))
                elif dotted(l) == np_ and _threshold_ok(prog, r) and isinstance(op, ast.Lt):
                    wide.append((t, not pol))
                elif dotted(r) == np_ and _threshold_ok(prog, l) and isinstance(op, ast.Gt):
                    wide.append((t, not pol))
        problems = []
        cl = classify_wrap(pf.ret, xp, problems)
        for what, construct, detail in problems:
            ck.bad(rule, w, what, construct, pf.ret_stmt, detail)
        if problems:
            continue
        desc = "wrap(%s) %s" % ("signed" if signed else "unsigned" if signed is False else "?", "object carrier" if wide and wide[-1][1] else "int64 carrier")
        if cl is None:
            ck.unsure(rule, w, "wrap body is in the modular-reduction vocabulary", pf.ret_stmt, src(pf.ret)[:120])
            continue
        if cl[0] == "raw":
            ck.bad(rule, w, "every path of wrap reduces the value modulo 2^n_word", "returns the input unreduced under %s" % [(src(g[2])[:50], g[1]) for g in pf.guards if g[2] is not None], pf.ret_stmt,
                   "values outside the range are stored unchanged on this path")
            continue
        if signed is None and cl[0] == "resigned":
            signed = True
        if cl[0] == "mod":
            M, has_int = cl[1], cl[2]
            if signed:
                ck.bad(rule, w, "signed wrap re-interprets the low n_word bits in two's complement", "signed path returns only x mod m", pf.ret_stmt,
                       "codes >= 2^(n_word-1) are left positive and out of range")
                continue
            H = None
            Madj = None
        else:
            M, H, Madj, has_int = cl[1], cl[2], cl[3], cl[4]
            if signed is False:
                ck.bad(rule, w, "unsigned wrap keeps the residue in [0, 2^n_word)", "unsigned path re-signs the residue", pf.ret_stmt)
                continue
        ck.saw(terms=1)
        if M != M_o:
            ck.bad(rule, w, "the residue is taken modulo 2^n_word (mask 2^n_word - 1)", "modulus %s, expected %s [%s]" % (M.show(), M_o.show(), desc), pf.ret_stmt,
                   {"witness": witness(M, M_o)})
            continue
        if H is not None and H != H_o:
            ck.bad(rule, w, "the sign threshold is 2^(n_word-1)", "threshold %s, expected %s [%s]" % (H.show(), H_o.show(), desc), pf.ret_stmt, {"witness": witness(H, H_o)})
            continue
        if Madj is not None and Madj != M_o:
            ck.bad(rule, w, "re-signing subtracts 2^n_word", "adjusts by %s, expected %s [%s]" % (Madj.show(), M_o.show(), desc), pf.ret_stmt)
            continue
        # carrier
        if wide:
            is_wide = wide[-1][1]
            if is_wide and not has_int:
                ck.bad(rule_carrier, w, "on the wide-word path elements are converted to Python integers before masking", "object path masks %s" % src(pf.ret)[:80], pf.ret_stmt,
                       "int64 arithmetic cannot hold 64+ bit codes")
                continue
        else:
            ck.bad(rule_carrier, w, "wrap switches to Python integers for n_word >= the word maximum", "no carrier switch on n_word >= _n_word_max found on this path", pf.ret_stmt)
            continue
        n_ok += 1
        ck.ok(rule, w, "%s normalises to %s" % (desc, "x mod 2^n re-signed at 2^(n-1)" if H is not None else "x mod 2^n"), pf.ret_stmt)
    if n_ok < 4 and not [o for o in ck.obs if o.status != "discharged" and o.rule in (rule, rule_carrier)]:
        raise AnalysisError("wrap: fewer than 4 (signedness x carrier) paths recognised")


def _wide_guard(prog, test, nparam):
    if isinstance(test, ast.Compare) and len(test.ops) == 1:
        l, op, r = test.left, test.ops[0], test.comparators[0]
        if dotted(l) == nparam and isinstance(op, ast.GtE) and _threshold_ok(prog, r):
            return True
    return False


def threshold_everywhere(ck, rule):
    """C18.R1: every carrier switch compares a word/fraction length against the same module constant with >=."""
    prog = ck.prog
    n = 0
    from ..pinned import PINNED_FUNCS
    helper_calls = {}
    for f in prog.all_funcs():
        for node in ast.walk(f.node):
            if isinstance(node, ast.Call):
                nm = node.func.id if isinstance(node.func, ast.Name) else (node.func.attr if isinstance(node.func, ast.Attribute) else None)
                if nm:
                    helper_calls[nm] = helper_calls.get(nm, 0) + 1
    for f in prog.all_funcs():
        if f.module not in ("objects", "functions", "utils"):
            continue
        for node in ast.walk(f.node):
            if isinstance(node, ast.Compare) and len(node.ops) == 1 and isinstance(node.ops[0], (ast.Lt, ast.LtE, ast.Gt, ast.GtE, ast.Eq, ast.NotEq)):
                l, op, r = node.left, node.ops[0], node.comparators[0]
                for a, b, o in ((l, r, op), (r, l, _flip(op))):
                    if _mentions_threshold(b) and not _shadowed(f, "_n_word_max"):
                        # a switch factored into a helper that is new with respect to the pinned tree stands for each of its call sites
                        n += max(1, helper_calls.get(f.name, 0)) if f.qualname not in PINNED_FUNCS else 1
                        okop = isinstance(o, (ast.GtE, ast.Lt))
                        oksym = _threshold_ok(prog, b) or _is_local_threshold(f, b)
                        ck.check(okop and oksym, rule, f, "carrier switch compares against the word maximum with >= (64 is the first extended width)",
                                 "switch %s" % src(node), node, "a different operator or constant moves the boundary between int64 and Python-int storage")
                        ck.saw(f)
                        break
    # the funnel's dtype decision
    f = A.funnel(prog)
    hits = 0
    from ..common import walk_closure
    for _g, node in walk_closure(prog, f):            # set_val and the stages split off it
        if isinstance(node, ast.If):
            sets_obj = any(isinstance(s, ast.Assign) and any(dotted(t) == "val_dtype" for t in s.targets) and dotted(s.value) == "object" for s in node.body)
            if not sets_obj:
                continue
            hits += 1
            test_ = node.test
            if isinstance(test_, ast.Call):
                # the decision factored into a one-expression helper: `if self._needs_object_storage(val):`
                from ..paths import Inliner, subst as _subst
                q_ = prog.resolve_call(f, test_)
                from ..pinned import PINNED_FUNCS as _PF
                if q_ in prog.funcs and q_ not in _PF:
                    g_ = prog.funcs[q_]
                    b_ = Inliner.simple_expr(g_)
                    if b_ is not None:
                        ps_ = [p_ for p_ in g_.params if p_ != "self"]
                        env_ = dict(zip(ps_, test_.args))
                        for s_ in b_[:-1]:
                            env_[s_.targets[0].id] = _subst(s_.value, env_)
                        test_ = _subst(b_[-1].value, env_)
            disj = test_.values if isinstance(test_, ast.BoolOp) and isinstance(test_.op, ast.Or) else [test_]
            word = [d for d in disj if isinstance(d, ast.Compare) and dotted(d.left) == "self.n_word"]
            okw = len(word) == 1 and isinstance(word[0].ops[0], ast.GtE) and (_threshold_ok(prog, word[0].comparators[0]) or _is_local_threshold(_g, word[0].comparators[0]) or _is_local_threshold(f, word[0].comparators[0]))
            ck.check(okw, rule, f, "set_val stores Python-int objects exactly when n_word >= the word maximum (64)", "object-carrier test %s" % src(node.test)[:120], node,
                     "values are kept in int64/uint64 beyond their capacity, or floats lose their rounding on the object path")
            others = [d for d in disj if d not in word]
            for d in others:
                # magnitude tests on the input: np.max(v) >= 2**T , np.min(v) < -2**T
                good = isinstance(d, ast.Compare) and isinstance(d.left, ast.Call) and dotted(d.left.func) in ("np.max", "np.min", "np.amax", "np.amin")
                ck.check(good, rule, f, "the other object-carrier conditions are magnitude tests on the input", "disjunct %s" % src(d)[:80], d)
    if hits < 2:
        ck.bad(rule, f, "set_val decides the storage carrier on both the real and the complex branch", "%d object-carrier decisions found" % hits, f.node)
    ck.extra["threshold_sites"] = n
    if n < 20:
        raise AnalysisError("only %d carrier-threshold comparisons found (expected >= 20)" % n)


def _flip(op):
    return {ast.Lt: ast.Gt(), ast.Gt: ast.Lt(), ast.LtE: ast.GtE(), ast.GtE: ast.LtE()}.get(type(op), op)


def _mentions_threshold(e):
    if isinstance(e, ast.Name):
        return e.id in ("_n_word_max", "_n_word_max_")
    if isinstance(e, ast.Call) and dotted(e.func) == "min":
        return any(isinstance(a, ast.Name) and a.id == "_n_word_max" for a in e.args)
    return False


def _is_local_threshold(f, e):
    """local alias `_n_word_max_ = min(_n_word_max, 64)`"""
    if isinstance(e, ast.Name):
        for n in ast.walk(f.node):
            if isinstance(n, ast.Assign) and any(isinstance(t, ast.Name) and t.id == e.id for t in n.targets):
                from .sizes import _threshold_ok as tok
                return tok(None, n.value)
    return False


def _shadowed(f, name):
    """the module constant is shadowed by a local variable of the same name in f"""
    for n in ast.walk(f.node):
        if isinstance(n, ast.Assign) and any(isinstance(t, ast.Name) and t.id == name for t in n.targets):
            return True
    return name in f.params


def _float_producing(e):
    """sub-expressions that produce floats for integer inputs"""
    out = []
    for n in ast.walk(e):
        if isinstance(n, ast.BinOp) and isinstance(n.op, ast.Div):
            out.append(n)
        elif isinstance(n, ast.Constant) and isinstance(n.value, float):
            out.append(n)
        elif isinstance(n, ast.Call) and dotted(n.func) in ("float", "np.float64", "np.floor", "np.ceil", "np.around", "np.round", "np.trunc", "np.fix", "np.power", "np.exp2", "math.pow"):
            out.append(n)
        elif isinstance(n, ast.BinOp) and isinstance(n.op, ast.Pow) and isinstance(n.right, ast.UnaryOp) and isinstance(n.right.op, ast.USub):
            out.append(n)
    return out


def object_chain_float_free(ck, rule, rule_elem):
    """C18.R3/R4: for Python-int inputs into wide words nothing on the store chain produces a float:
    the conversion factor is an integer expression whenever n_frac >= 0, the object-carrier branch casts the input with
    astype(object), and stored object arrays are rebuilt from int() of each element."""
    prog = ck.prog
    fac = A.factor(prog)
    n = 0
    for pf in fpaths(prog, fac):
        if pf.end != "return" or pf.ret is None:
            continue
        neg = False
        for g in pf.guards:
            t = g[0]           # substituted test: locals bound to self.n_frac are seen through
            pol = g[1]
            while isinstance(t, ast.UnaryOp) and isinstance(t.op, ast.Not):
                t, pol = t.operand, not pol
            if isinstance(t, ast.Compare) and len(t.ops) == 1:
                l, op, r = t.left, t.ops[0], t.comparators[0]
                if isinstance(l, ast.Constant) and l.value == 0 and dotted(r) == "self.n_frac":
                    l, r = r, l
                    op = {ast.Lt: ast.Gt(), ast.Gt: ast.Lt(), ast.LtE: ast.GtE(), ast.GtE: ast.LtE()}.get(type(op), op)
                if dotted(l) == "self.n_frac" and isinstance(r, ast.Constant) and r.value == 0:
                    if (isinstance(op, (ast.GtE, ast.Gt)) and not pol) or (isinstance(op, (ast.Lt, ast.LtE)) and pol):
                        neg = True
        if neg:
            continue
        fl = _float_producing(pf.ret)
        n += 1
        ck.check(not fl, rule, fac, "the conversion factor is an exact integer whenever n_frac >= 0", "factor %s under %s" % (src(pf.ret), [(src(g[2]), g[1]) for g in pf.guards if g[2] is not None]), pf.ret_stmt,
                 "a float factor rounds Python integers above 2^53 before they reach the 64+ bit store")
    if n == 0:
        raise AnalysisError("conversion-factor helper: no non-negative branch found")
    # set_val object branch
    f = A.funnel(prog)
    from .pipeline import match_pipeline
    from .flags import handler_roles_quiet
    roles = handler_roles_quiet(prog)
    h, rnd, fmt = A.ovf_handler(prog), A.rounder(prog), A.normaliser(prog)
    okp = 0
    for pf in fpaths(prog, f):
        if pf.end == "raise":
            continue
        objg = [g for g in pf.guards if g[2] is not None and isinstance(g[3], ast.If) and
                any(isinstance(s, ast.Assign) and any(dotted(t) == "val_dtype" for t in s.targets) and dotted(s.value) == "object" for s in g[3].body)]
        if not objg or not objg[-1][1]:
            continue
        vst = [st for st in pf.stores if st.path == "self.val"]
        if len(vst) != 1:
            continue
        V = vst[0].value
        e0, casts0 = peel(V)
        if isinstance(e0, ast.BinOp):
            continue   # complex branch: covered by stage-order rule; outside C18's quantifier
        probs = []
        pc = match_pipeline(prog, f, V, roles, h, rnd, fmt, fac, probs)
        if pc is None:
            continue
        ic = pc["input_casts"]
        okcast = any(c[0] == "astype" and c[1] in ("object", "np.object_") for c in ic) and not any(c[0] == "astype" and c[1] in ("float", "np.float64") for c in ic)
        if not okcast:
            ck.bad(rule, f, "on the object-carrier branch the input is cast to Python objects (no float detour)", "input casts %s" % ic, vst[0].stmt,
                   "Python integers above 2^53 would be rounded")
            continue
        elem = any(c[0] == "map" and c[1] == "int" for c in casts0) or any(c[0] == "int_array" for c in casts0)
        if not elem:
            ck.bad(rule_elem, f, "stored object arrays are rebuilt from int() of each element", "object store %s" % src(V)[:100], vst[0].stmt,
                   "elements could stay numpy scalars / floats inside the object array")
            continue
        okp += 1
    ck.check(okp > 0, rule, f, "object-carrier store paths (%d) keep Python-int elements from input to store" % okp, "no object-carrier store path recognised", f.node)


def machine_carrier(ck, rule):
    """C18.R5 / C19.R5: below the threshold the stored codes are int64 (signed) / uint64 (unsigned) arrays - the storage invariant the width typing of the
    kernels assumes.  Every definition of the storage type in set_val is `object`, or np.int64 on the signed / np.uint64 on the unsigned branch."""
    prog = ck.prog
    from ..common import path_literals
    f = A.funnel(prog)
    seen = set()
    n = 0
    for pf in fpaths(prog, f):
        for st in pf.stores:
            if st.path != "val_dtype":
                continue              # (at any inlining depth: the stages set_val was split into are part of it)
            n += 1
            v = dotted(st.raw_value) if not isinstance(st.raw_value, ast.IfExp) else None
            vs = dotted(st.value)
            sg = None
            for t, pol in path_literals(st.guards):
                if dotted(t) == "self.signed":
                    sg = pol
            if sg is None:
                # the signedness test may sit inside a helper that returned the type (its guards are path conditions, no longer enclosing)
                for t, pol in path_literals(pf.guards):
                    if dotted(t) == "self.signed":
                        sg = pol
            good = vs in ("object", "np.object_") or (vs == "np.int64" and sg is True) or (vs == "np.uint64" and sg is False)
            key = (id(st.stmt), vs, sg)
            if key in seen:
                continue
            seen.add(key)
            ck.check(good, rule, f, "the machine carrier of the codes is int64 for signed and uint64 for unsigned formats (Python ints otherwise)",
                     "storage type %s on the %s branch" % (src(st.value)[:40], {True: "signed", False: "unsigned", None: "undecided"}[sg]), st.stmt,
                     "a narrower integer type makes the raw kernels (x.val * 2**k, products, sums) wrap far below 64 bits")
    if n == 0:
        raise AnalysisError("set_val: storage type definition not found")


def indicator_after_record(ck, rule):
    """C18.R2 (constructor side): the constructor installs a fresh status record (extended_prec: False) and only resize() recomputes the indicator from
    the word length: on every normal path of __init__ a call that ends through resize (resize itself or the size initialiser) follows the last
    store of the status record - also when like= / a template supplied the sizes and no size argument was given."""
    prog = ck.prog
    f = prog.func("objects.Fxp.__init__")
    rz = prog.func("objects.Fxp.resize")
    ini = prog.func("objects.Fxp._init_size", required=False)
    ends = {rz.qualname} | ({ini.qualname} if ini is not None else set())
    n = nbad = 0
    for pf in fpaths(prog, f):
        if pf.end == "raise":
            continue
        order = pf.order
        si = [i for i, (k_, o) in enumerate(order) if k_ == "store" and o.path in ("self.status", "self.__dict__")]
        if not si:
            continue
        n += 1
        later = [i for i, (k_, o) in enumerate(order) if i > si[-1] and k_ == "call" and prog.resolve_call(o.ctx or f, o.raw) in ends]
        if not later:
            nbad += 1
            ck.bad(rule, f, "the constructor recomputes the extended-precision indicator (through resize) after it installs the fresh status record",
                   "normal path without resize() / _init_size() after the status record: guards %s" % [(src(g[0])[:40], g[1]) for g in pf.guards][-4:], f.node,
                   "objects of 64+ bits built from like= / a template without size arguments report extended_prec = False")
            break
    if n == 0:
        raise AnalysisError("__init__: no path storing the status record found")
    if not nbad:
        ck.ok(rule, f, "on all %d normal paths of __init__ a resize()/_init_size() call follows the status record" % n)
    ck.saw(f, paths=n)
