"""C05 - rounding contracts: direction, error bound, idempotence, monotonicity."""
from . import pipeline, carriers

from . import routes, fresh, flags, sizes, conv, dtype, carriers, funcs, ops, strings, pipeline, widths

EXPLANATION = (
    "R1 direction table: each configured mode is mapped to a primitive of its own direction applied directly to the value "
    "(floor->np.floor, ceil->np.ceil, trunc/fix->np.trunc|np.fix, around->np.around|np.round|np.rint), known-wrong spellings such "
    "as floor(v+0.5) are violations; R2 the dispatcher handles exactly Config's rounding list and raises otherwise; R3 the only "
    "unrounded pass-through is guarded by integer/object-carrier tests on the value; R4 every store path of set_val applies "
    "SCALE (positive factor 2^n_frac) -> RND(self.config.rounding) -> OVF with no other operation in between, so the chain is a "
    "composition of monotone, integer-preserving stages (lemma table); the object carrier (which bypasses rounding) is selected only "
    "at n_word >= 64 or by input magnitude. Residual: half-LSB bound and tie behaviour are the primitives' semantics; exactness of "
    "v*2^n_frac in binary64."
    ' Added after the third round of seeded changes: read-back is code*2^-n_frac for every n_frac (C16.R2) and the inaccuracy comparison is made on the value just stored (C04.R2).'
    ' Added after the fourth round of seeded changes: resize restores scaled objects through the read map and unscaled ones without a cast (C17.R2, C10.R1); the re-scaling routes leave quantization to the destination (C10.R1/R2); C20.R8 objects carry only the documented attributes and no function writes module-level containers (no caches / memos that go stale).'
    " Added after the fifth round of seeded changes: C17.R8 incl. 'the float promotion covers a float bias'; C04.R7; C20.R8 also forbids mutable default arguments and private attributes hung on operands (x._cache, x.__dict__[...])."
    ' Added after the sixth round of seeded changes: functions.fxp_like stores into a copy of its reference (format and modes), never into an object rebuilt from the sizes alone (C10.R2).')
ASSUMPTIONS = ["np.floor/ceil/trunc/fix/around are monotone, identity on integers, |r-v|<1 (around: <=1/2, ties to even)"]
TRUSTED = ["CPython ast", "lemma table of rounding primitives"]


def run(ck):
    pipeline.rounding_table(ck, "C05.R1", "C05.R2", "C05.R3")
    pipeline.store_pipeline(ck, "C05.R4", want_bounds=False)
    pipeline.factor_rule(ck, "C01.R3")
    carriers.threshold_everywhere(ck, "C18.R1")
    routes.carrier_types(ck, "C01.R6")
    fresh.constructor_state(ck, "C20.R2")              # "stored unchanged with no flag": no inherited flags
    roles = flags.handler_roles_quiet(ck.prog)
    pipeline.overflow_dispatch(ck, "C02.R6", "C03.R2", roles)   # monotone under saturate: the clamp is a clamp
    ops.conversions(ck, "C16.R2")                     # the value read back is code * 2^-n_frac for every n_frac (also negative)
    flags.inaccuracy_guard(ck, "C04.R2")              # "stored unchanged with no flag": the comparison is on what was just stored
    sizes.resize_rules(ck, {"restore_scaled": "C17.R2", "restore_raw": "C10.R1"})
    conv.rescaling_siblings(ck, "C10.R1", "C10.R2")
    fresh.no_hidden_state(ck, "C20.R8")                  # results depend on the documented state only (no caches / memos)
    conv.scaled_value_type(ck, "C17.R8")
    fresh.reset_only_by_user(ck, "C04.R7")
