import importlib
import json
import os
import sys
import traceback

from .model import Program, AnalysisError
from .report import Checker, VERIF

ALL = ["C%02d" % i for i in range(1, 21)]


def run_one(prop, tier, only=None, quiet=False):
    try:
        mod = importlib.import_module("fxlint.rules." + prop.lower())
    except ModuleNotFoundError:
        print("ANALYSIS-ERROR property=%s no checker built for this property" % prop)
        return 2
    try:
        prog = Program()
        ck = Checker(prop, tier, prog, getattr(mod, "EXPLANATION", ""))
        ck.assumptions = list(getattr(mod, "ASSUMPTIONS", []))
        ck.trusted = list(getattr(mod, "TRUSTED", []))
        ck.only = only
        try:
            mod.run(ck)
        except AnalysisError as e:
            # an anchor vanished / a rule group could not run: no verdict from the groups that did not run, but violations already
            # established by the groups that did run stand (exit 1 takes precedence over exit 2)
            ck.unsure("ENGINE", None, "all rule groups of the property could be evaluated", None, str(e))
        if tier == "thorough":
            if hasattr(mod, "run_thorough"):
                mod.run_thorough(ck)
            from . import selfcheck
            selfcheck.thorough(ck)
        code, lines = ck.finish()
    except AnalysisError as e:
        print("ANALYSIS-ERROR property=%s %s" % (prop, e))
        return 2
    except Exception:
        print("ANALYSIS-ERROR property=%s internal error in checker:" % prop)
        traceback.print_exc(file=sys.stdout)
        return 2
    if not quiet:
        for l in lines:
            print(l)
    return code


def main(argv):
    tier = os.environ.get("VERIF_TIER", "quick")
    args = []
    i = 0
    replay = None
    while i < len(argv):
        a = argv[i]
        if a == "--tier":
            tier = argv[i + 1]
            i += 2
            continue
        if a == "--replay":
            replay = argv[i + 1]
            i += 2
            continue
        args.append(a)
        i += 1
    if tier not in ("quick", "thorough"):
        tier = "quick"
    if replay:
        with open(replay) as fh:
            r = json.load(fh)
        prop = r["property"]
        code = run_one(prop, tier, quiet=True)
        # re-evaluate and show only the replayed obligation
        from .report import norm
        evp = os.path.join(VERIF, "evidence", prop + ".json")
        print("replay of %s %s at %s" % (prop, r["rule"], r.get("site")))
        print("  obligation: %s" % r["obligation"])
        print("  construct : %s" % r.get("construct"))
        # rerun verbosely to find whether the same key is still violated
        prog = Program()
        mod = importlib.import_module("fxlint.rules." + prop.lower())
        ck = Checker(prop, tier, prog)
        mod.run(ck)
        still = [o for o in ck.obs if o.status == "violated" and o.rule == r["rule"] and (o.func or "") == (r.get("function") or "")
                 and norm(o.construct or o.what) == norm(r.get("construct") or r["obligation"])]
        if still:
            print("VIOLATION property=%s replay=%s" % (prop, replay))
            print("  still violated on the current tree: %s" % still[0].site)
            return 1
        print("  not violated on the current tree")
        return 0
    if not args:
        print(__doc__ or "usage: check Cxx [--tier quick|thorough]")
        return 2
    if args[0] == "all":
        worst = 0
        for p in ALL:
            c = run_one(p, tier)
            worst = max(worst, c)
        return worst
    return run_one(args[0].upper(), tier)
