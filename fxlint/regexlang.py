"""A8 - small automata: regex -> NFA (Thompson) over a finite symbolic alphabet; language inclusion and prefix-match queries.
Uses CPython's own regex parser (re._parser) so the reader's pattern is read exactly as `re` reads it."""
import re
try:
    import re._parser as sre_parse
    import re._constants as sre_c
except ImportError:  # pragma: no cover
    import sre_parse
    import sre_constants as sre_c

OTHER = "\x00other"


class NFA:
    def __init__(self):
        self.n = 0
        self.eps = {}
        self.tr = {}      # state -> list of (charset(frozenset) , target)
        self.start = self.new()
        self.accept = None
        self.groups = {}  # group number -> (enter states, exit states) not needed for inclusion

    def new(self):
        s = self.n
        self.n += 1
        self.eps[s] = set()
        self.tr[s] = []
        return s

    def closure(self, states):
        st = list(states)
        seen = set(states)
        while st:
            s = st.pop()
            for t in self.eps[s]:
                if t not in seen:
                    seen.add(t)
                    st.append(t)
        return frozenset(seen)

    def step(self, states, ch):
        out = set()
        for s in states:
            for cs, t in self.tr[s]:
                if ch in cs:
                    out.add(t)
        return self.closure(out)


def _charset(items, alphabet, ignorecase):
    """set of alphabet symbols matched by an IN list / single item"""
    neg = False
    out = set()
    for op, av in items:
        if op == sre_c.NEGATE:
            neg = True
        elif op == sre_c.LITERAL:
            out.add(chr(av))
        elif op == sre_c.RANGE:
            lo, hi = av
            for a in alphabet:
                if a != OTHER and lo <= ord(a) <= hi:
                    out.add(a)
        elif op == sre_c.CATEGORY:
            if av == sre_c.CATEGORY_DIGIT:
                out |= {a for a in alphabet if a != OTHER and a.isdigit()}
            elif av == sre_c.CATEGORY_WORD:
                out |= {a for a in alphabet if a != OTHER and (a.isalnum() or a == "_")}
            elif av == sre_c.CATEGORY_SPACE:
                out |= {a for a in alphabet if a != OTHER and a.isspace()}
            else:
                raise ValueError("regex category %r outside the vocabulary" % (av,))
        else:
            raise ValueError("regex set item %r outside the vocabulary" % (op,))
    if ignorecase:
        out |= {a.swapcase() for a in out if a != OTHER and a.swapcase() in alphabet}
    out = {a for a in out if a in alphabet}
    if neg:
        out = set(alphabet) - out
    return frozenset(out)


def build(pattern, alphabet, flags=0):
    """NFA for full-match of ``pattern`` (string) over ``alphabet`` (iterable of single chars + OTHER)"""
    alphabet = set(alphabet) | {OTHER}
    p = sre_parse.parse(pattern, flags)
    ic = bool(flags & re.I)
    nfa = NFA()

    def seq(items, s):
        for op, av in items:
            s = one(op, av, s)
        return s

    def one(op, av, s):
        if op == sre_c.LITERAL:
            t = nfa.new()
            nfa.tr[s].append((_charset([(op, av)], alphabet, ic), t))
            return t
        if op == sre_c.NOT_LITERAL:
            t = nfa.new()
            nfa.tr[s].append((frozenset(alphabet - {chr(av)}), t))
            return t
        if op == sre_c.ANY:
            t = nfa.new()
            nfa.tr[s].append((frozenset(alphabet), t))
            return t
        if op == sre_c.IN:
            t = nfa.new()
            nfa.tr[s].append((_charset(av, alphabet, ic), t))
            return t
        if op == sre_c.CATEGORY:
            t = nfa.new()
            nfa.tr[s].append((_charset([(op, av)], alphabet, ic), t))
            return t
        if op == sre_c.BRANCH:
            t = nfa.new()
            for alt in av[1]:
                a0 = nfa.new()
                nfa.eps[s].add(a0)
                e = seq(alt, a0)
                nfa.eps[e].add(t)
            return t
        if op == sre_c.SUBPATTERN:
            return seq(av[3], s)
        if op in (sre_c.MAX_REPEAT, sre_c.MIN_REPEAT):
            lo, hi, sub = av
            cur = s
            for _ in range(lo):
                cur = seq(sub, cur)
            if hi == sre_c.MAXREPEAT:
                loop = nfa.new()
                nfa.eps[cur].add(loop)
                e = seq(sub, loop)
                nfa.eps[e].add(loop)
                return loop
            end = nfa.new()
            nfa.eps[cur].add(end)
            for _ in range(hi - lo):
                cur = seq(sub, cur)
                nfa.eps[cur].add(end)
            return end
        if op == sre_c.AT:
            return s
        raise ValueError("regex construct %r outside the vocabulary" % (op,))
    nfa.accept = seq(p, nfa.start)
    return nfa


def included(a, b, alphabet):
    """L(a) subset of L(b) (full match)?  Returns (True, None) or (False, witness string)."""
    alphabet = sorted(set(alphabet) | {OTHER})
    start = (a.closure({a.start}), b.closure({b.start}))
    seen = {start: ""}
    todo = [start]
    while todo:
        sa, sb = todo.pop()
        w = seen[(sa, sb)]
        if a.accept in sa and b.accept not in sb:
            return False, w
        for ch in alphabet:
            na = a.step(sa, ch)
            if not na:
                continue
            nb = b.step(sb, ch)
            k = (na, nb)
            if k not in seen:
                seen[k] = w + ("?" if ch == OTHER else ch)
                todo.append(k)
    return True, None


def some_prefix_matches(a, b, alphabet):
    """is there a string of L(a) with a (possibly improper) prefix in L(b)?  (re.match semantics of reader b)
    Returns witness or None."""
    alphabet = sorted(set(alphabet) | {OTHER})
    start = (a.closure({a.start}), b.closure({b.start}), False)
    seen = {start: ""}
    todo = [start]
    while todo:
        sa, sb, hit = todo.pop()
        w = seen[(sa, sb, hit)]
        hit2 = hit or (b.accept in sb)
        if a.accept in sa and hit2:
            return w
        for ch in alphabet:
            na = a.step(sa, ch)
            if not na:
                continue
            nb = b.step(sb, ch) if sb else frozenset()
            k = (na, nb, hit2)
            if k not in seen:
                seen[k] = w + ("?" if ch == OTHER else ch)
                todo.append(k)
    return None
