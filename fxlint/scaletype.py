"""A6 - binary-scale typing of raw kernels.

Judgement  e : Code<t>  - "e is an integer (array) equal to R * 2^t" for the real quantity R it stands for;
           e : Pow2<k>  - the number 2^k;      e : Num - a dimensionless constant.
A kernel is well-typed when its return value is Code<n_frac> for its own n_frac parameter: the sink stores
the result as a raw code with exactly that many fraction bits.  A mismatch means the stored value is wrong
by a power of two for generic formats.
"""
import ast

from .model import dotted, src
from .common import peel, mkterm, const_str
from .terms import Term, exp2, NotATerm, fapp, ite, TermBuilder


class Mismatch(Exception):
    def __init__(self, what, node=None, detail=None):
        Exception.__init__(self, what)
        self.what = what
        self.node = node
        self.detail = detail


class Unknown(Exception):
    pass


class Ty:
    __slots__ = ("kind", "t", "ops", "info")

    def __init__(self, kind, t=None, ops=None, info=None):
        self.kind = kind          # 'code' | 'pow2' | 'num'
        self.t = t                # scale / exponent Term
        self.ops = ops or set()   # operand names the value depends on
        self.info = info or {}

    def __repr__(self):
        return "%s<%s>" % (self.kind, self.t.show() if self.t is not None else "")


REDUCE_SAME = {"np.sum", "np.cumsum", "np.max", "np.min", "np.amax", "np.amin", "np.sort", "np.diagonal", "np.trace", "np.transpose",
               "np.clip", "utils.clip", "np.reshape", "np.squeeze", "np.flip", "np.roll", "np.abs", "abs", "np.negative", "np.real", "np.imag",
               "np.conjugate", "np.conj", "np.maximum", "np.minimum", "np.where", "np.take", "np.ravel", "np.mean_disallowed"}
CASTS = {"np.array", "np.asarray", "utils.int_array", "int_array", "np.int64", "int"}
ROUNDERS = {"np.floor", "np.ceil", "np.around", "np.round", "np.rint", "np.trunc", "np.fix", "utils.int_array", "int_array", "int"}


class Typer:
    def __init__(self, operands, rename=None, kernel_nfrac="n_frac", events=None):
        self.operands = set(operands)      # names denoting Fxp operands
        self.rename = rename or (lambda d: d)
        self.tb = TermBuilder(rename=self.rename)
        self.events = events if events is not None else []   # notes: ('cast_guard', src), ('intcast', src), ('truediv', src)

    def term(self, e):
        return self.tb.term(e)

    def ty(self, e):
        # --- cast wrappers
        if isinstance(e, ast.Call):
            fn = dotted(e.func)
            # conditional identity/object cast:  ((lambda m: np.array(m, dtype=object)) if G else (lambda m: m))(arg)
            if isinstance(e.func, ast.IfExp) and isinstance(e.func.body, ast.Lambda) and isinstance(e.func.orelse, ast.Lambda) and len(e.args) == 1:
                if _is_cast_lambda(e.func.body) and _is_cast_lambda(e.func.orelse):
                    self.events.append(("cast_guard", e.func.test, e.args[0], _lambda_kind(e.func.body), _lambda_kind(e.func.orelse)))
                    return self.ty(e.args[0])
            if isinstance(e.func, ast.Lambda) and len(e.args) == 1 and _is_cast_lambda(e.func):
                return self.ty(e.args[0])
            # np.vectorize(lambda v: v.real)(X)
            if isinstance(e.func, ast.Call) and dotted(e.func.func) == "np.vectorize" and e.func.args and isinstance(e.func.args[0], ast.Lambda) and len(e.args) == 1:
                lam = e.func.args[0]
                if isinstance(lam.body, ast.Attribute) and lam.body.attr in ("real", "imag"):
                    return self.ty(e.args[0])
            if fn in ("np.array", "np.asarray") and e.args:
                return self.ty(e.args[0])
            if isinstance(e.func, ast.Attribute) and e.func.attr == "_get_conv_factor" and not e.args and not e.keywords and dotted(e.func.value):
                return Ty("pow2", Term.var(self.rename(dotted(e.func.value) + ".n_frac")))
            if fn in ("utils.int_array", "int_array", "int", "np.int64") and e.args:
                t = self.ty(e.args[0])
                if t.kind == "code":
                    self.events.append(("intcast", e))
                return t
            if fn in ("np.floor", "np.ceil", "np.around", "np.round", "np.rint", "np.trunc", "np.fix") and e.args:
                t = self.ty(e.args[0])
                if t.kind == "code":
                    self.events.append(("round", e))
                return t
            if isinstance(e.func, ast.Attribute) and e.func.attr in ("astype", "reshape", "flatten", "ravel", "copy", "squeeze", "transpose", "conjugate", "conj") and fn not in REDUCE_SAME and (fn or "").split(".")[0] != "np":
                t = self.ty(e.func.value)
                if e.func.attr == "astype" and t.kind == "code" and e.args:
                    tgt = dotted(e.args[0])
                    if tgt in ("int", "np.int64"):
                        self.events.append(("intcast", e))
                    elif tgt not in ("object", "np.object_", "float", "complex"):
                        # astype(np.uint64) / astype(other.dtype): reinterprets the machine representation of the codes
                        self.events.append(("recast", e))
                return t
            if isinstance(e.func, ast.Attribute) and e.func.attr in ("pop", "get") and dotted(e.func.value) in ("kwargs",):
                return Ty("num", Term.const(0))
            if fn in ("np.clip", "utils.clip") and e.args:
                t = self.ty(e.args[0])
                bounds = list(e.args[1:3]) + [k.value for k in e.keywords if k.arg in ("val_min", "val_max", "a_min", "a_max", "min", "max")]
                for b in bounds:
                    if isinstance(b, ast.Constant) and b.value is None:
                        continue
                    try:
                        tb = self.ty(b)
                    except Unknown:
                        continue
                    if tb.kind == "code" and t.kind == "code" and tb.t != t.t:
                        raise Mismatch("clip limits and the clipped codes have different binary points", e, "codes scaled by 2^(%s), limit by 2^(%s)" % (t.t.show(), tb.t.show()))
            if fn in REDUCE_SAME and e.args:
                t = self.ty(e.args[0])
                if t.kind != "code":
                    raise Unknown("reduction of non-code %s" % src(e)[:60])
                if fn in ("np.clip", "utils.clip", "np.maximum", "np.minimum", "np.where"):
                    self.events.append(("clamp", e))
                return Ty("code", t.t, t.ops)
            if fn == "np.prod" and e.args:
                t = self.ty(e.args[0])
                ax = _kwarg(e, "axis", 1)
                cnt = self.count_term(e.args[0], ax, e)
                return Ty("code", cnt * t.t, t.ops, {"count": cnt})
            if fn == "np.cumprod" and e.args:
                t = self.ty(e.args[0])
                ax = _kwarg(e, "axis", 1)
                cnt = self.cumcount_term(ax, e)
                return Ty("code", cnt * t.t, t.ops, {"count": cnt})
            if fn in ("np.dot", "np.matmul", "np.inner", "np.vdot") and len(e.args) >= 2:
                a, b = self.ty(e.args[0]), self.ty(e.args[1])
                if a.kind == "code" and b.kind == "code":
                    return Ty("code", a.t + b.t, a.ops | b.ops)
            if fn in ("np.multiply",) and len(e.args) == 2:
                return self.ty(ast.BinOp(left=e.args[0], op=ast.Mult(), right=e.args[1]))
            if fn in ("np.floor_divide",) and len(e.args) == 2:
                return self.ty(ast.BinOp(left=e.args[0], op=ast.FloorDiv(), right=e.args[1]))
            if fn in ("np.add", "np.subtract", "np.mod") and len(e.args) == 2:
                op = {"np.add": ast.Add(), "np.subtract": ast.Sub(), "np.mod": ast.Mod()}[fn]
                return self.ty(ast.BinOp(left=e.args[0], op=op, right=e.args[1]))
            if fn in ("np.power",) and len(e.args) == 2:
                return self.ty(ast.BinOp(left=e.args[0], op=ast.Pow(), right=e.args[1]))
            # list of powers of two: utils.int_array([2**p for p in X]) handled through ListComp below
            raise Unknown("call %s" % src(e)[:70])
        if isinstance(e, ast.ListComp) and len(e.generators) == 1 and isinstance(e.generators[0].target, ast.Name):
            # [2**p for p in P]  ->  Pow2<P> elementwise
            g = e.generators[0]
            from .paths import subst
            body = subst(e.elt, {g.target.id: _strip_cast_call(g.iter)})
            return self.ty(body)
        if isinstance(e, ast.Attribute):
            d = dotted(e)
            if e.attr == "val" and dotted(e.value) in self.operands:
                o = dotted(e.value)
                return Ty("code", Term.var(self.rename(o + ".n_frac")), {o}, {"direct": True})
            if e.attr in ("real", "imag", "T"):
                return self.ty(e.value)
            raise Unknown("attribute %s" % src(e)[:60])
        if isinstance(e, ast.Subscript):
            return self.ty(e.value)
        if isinstance(e, ast.Constant):
            if isinstance(e.value, (int, float, complex)) and not isinstance(e.value, bool):
                return Ty("num", Term.const(0))
            raise Unknown("constant %r" % (e.value,))
        if isinstance(e, ast.UnaryOp) and isinstance(e.op, (ast.USub, ast.UAdd)):
            return self.ty(e.operand)
        if isinstance(e, ast.BinOp):
            return self.binop(e)
        if isinstance(e, ast.Compare):
            for sub in [e.left] + list(e.comparators):
                self.ty(sub)
            return Ty("num", Term.const(0))
        if isinstance(e, ast.IfExp):
            a, b = self.ty(e.body), self.ty(e.orelse)
            if a.kind == b.kind and a.t == b.t:
                return a
            raise Mismatch("conditional expression combines different scales", e, "%r vs %r" % (a, b))
        raise Unknown("%s %s" % (type(e).__name__, src(e)[:60]))

    def pow2(self, e):
        """Pow2 exponent Term if e is 2**k / 1<<k / 2.0**k, else None"""
        if isinstance(e, ast.BinOp) and isinstance(e.op, ast.Pow) and isinstance(e.left, ast.Constant) and e.left.value in (2, 2.0):
            return self.term(e.right)
        if isinstance(e, ast.BinOp) and isinstance(e.op, ast.LShift) and isinstance(e.left, ast.Constant) and e.left.value == 1:
            return self.term(e.right)
        if isinstance(e, ast.BinOp) and isinstance(e.op, ast.Pow) and isinstance(e.left, ast.Constant) and e.left.value == 0.5:
            return -self.term(e.right)
        if isinstance(e, ast.Call) and dotted(e.func) == "np.power" and len(e.args) == 2 and isinstance(e.args[0], ast.Constant) and e.args[0].value in (2, 2.0):
            return self.term(e.args[1])
        return None

    def binop(self, e):
        op = e.op
        p = self.pow2(e)
        if p is not None:
            return Ty("pow2", p)
        if isinstance(op, ast.Pow):
            base = self.ty(e.left)
            try:
                k = self.term(e.right)
            except NotATerm:
                raise Unknown("power %s" % src(e)[:50])
            if base.kind == "code":
                kv = k.const_value()
                if kv is None or kv.denominator != 1 or kv < 0:
                    raise Unknown("non-constant power of a code")
                return Ty("code", base.t * k, base.ops)
            raise Unknown("power %s" % src(e)[:50])
        if isinstance(op, (ast.LShift, ast.RShift)):
            # the shift count is a number of bits (a term), not a code; np.array(k, dtype=...) / int(k) wrappers are transparent
            l = self.ty(e.left)
            cnt = e.right
            while isinstance(cnt, ast.Call) and dotted(cnt.func) in ("np.array", "np.asarray", "int", "np.int64", "np.uint64", "np.int_") and cnt.args:
                cnt = cnt.args[0]
            if l.kind == "code":
                k = self.term(cnt)
                if isinstance(op, ast.RShift):
                    self.events.append(("floorshift", e))
                    return Ty("code", l.t - k, l.ops)
                return Ty("code", l.t + k, l.ops)
        l, r = self.ty(e.left), self.ty(e.right)
        if isinstance(op, ast.Mult):
            if l.kind == "code" and r.kind == "code":
                return Ty("code", l.t + r.t, l.ops | r.ops)
            for a, b in ((l, r), (r, l)):
                if a.kind == "code" and b.kind == "pow2":
                    return Ty("code", a.t + b.t, a.ops, {"shift": b.t, "base": a})
                if a.kind == "code" and b.kind == "num":
                    return Ty("code", a.t, a.ops)
            if l.kind == "pow2" and r.kind == "pow2":
                return Ty("pow2", l.t + r.t)
            if l.kind == "num" and r.kind == "num":
                return Ty("num", Term.const(0))
            for a, b in ((l, r), (r, l)):
                if a.kind == "pow2" and b.kind == "num":
                    return Ty("code", a.t, set(), {"from_number": True})     # a real number scaled by 2^k is a code with k fraction bits
        if isinstance(op, ast.FloorDiv):
            if l.kind == "code" and r.kind == "code":
                return Ty("code", l.t - r.t, l.ops | r.ops, {"floordiv": True})
            if l.kind == "code" and r.kind == "pow2":
                self.events.append(("floorshift", e))
                return Ty("code", l.t - r.t, l.ops, {"floordiv": True})
        if isinstance(op, ast.Div):
            self.events.append(("truediv", e))
            if l.kind == "code" and r.kind == "code":
                return Ty("code", l.t - r.t, l.ops | r.ops)
            if l.kind == "code" and r.kind == "pow2":
                return Ty("code", l.t - r.t, l.ops)
        if isinstance(op, ast.LShift) and l.kind == "code":
            return Ty("code", l.t + self.term(e.right), l.ops)
        if isinstance(op, ast.RShift) and l.kind == "code":
            self.events.append(("floorshift", e))
            return Ty("code", l.t - self.term(e.right), l.ops)
        if isinstance(op, (ast.Add, ast.Sub)) and {l.kind, r.kind} == {"code", "num"}:
            c = l if l.kind == "code" else r
            self.events.append(("adjust", e))
            return Ty("code", c.t, c.ops)
        if isinstance(op, (ast.Add, ast.Sub, ast.Mod)):
            if l.kind == "code" and r.kind == "code":
                if l.t != r.t:
                    raise Mismatch("operands of %s have different binary points" % {ast.Add: "+", ast.Sub: "-", ast.Mod: "%"}[type(op)], e,
                                   "left is scaled by 2^(%s), right by 2^(%s)" % (l.t.show(), r.t.show()))
                return Ty("code", l.t, l.ops | r.ops)
            if l.kind == "num" and r.kind == "num":
                return Ty("num", Term.const(0))
        raise Unknown("binop %s on %r, %r" % (type(op).__name__, l, r))

    # count terms for products
    def count_term(self, arr, axis, node):
        base = dotted(arr.value) if isinstance(arr, ast.Attribute) and arr.attr == "val" else None
        b = self.rename(base) if base else "?"
        if axis is None or (isinstance(axis, ast.Constant) and axis.value is None):
            return Term.var(b + ".size")
        a = self.tb.term(axis) if not isinstance(axis, ast.Name) else None
        ax = src(axis)
        return ite(Term.pred("%s is None" % ax), Term.var(b + ".size"), Term.var("%s.shape[%s]" % (b, ax)))

    def cumcount_term(self, axis, node):
        return Term.var("<cumcount(%s)>" % (src(axis) if axis is not None else "None"))


def _kwarg(call, name, pos):
    for k in call.keywords:
        if k.arg == name:
            return k.value
    for k in call.keywords:
        if k.arg is None:
            # **kwargs : axis is kwargs.get('axis') (None when absent, numpy's default)
            return ast.Call(func=ast.Attribute(value=k.value, attr="get", ctx=ast.Load()), args=[ast.Constant(value=name)], keywords=[])
    if len(call.args) > pos:
        return call.args[pos]
    return None


def _is_cast_lambda(lam):
    if len(lam.args.args) != 1:
        return False
    p = lam.args.args[0].arg
    b = lam.body
    if isinstance(b, ast.Name) and b.id == p:
        return True
    if isinstance(b, ast.Call) and dotted(b.func) in ("np.array", "np.asarray") and b.args and dotted(b.args[0]) == p:
        return True
    if isinstance(b, ast.Call) and isinstance(b.func, ast.Attribute) and b.func.attr == "astype" and dotted(b.func.value) == p:
        return True
    return False


def _lambda_kind(lam):
    b = lam.body
    if isinstance(b, ast.Name):
        return "identity"
    for k in getattr(b, "keywords", []):
        if k.arg == "dtype":
            return dotted(k.value)
    if isinstance(b, ast.Call) and b.args and len(b.args) > 1:
        return dotted(b.args[1])
    if isinstance(b, ast.Call) and isinstance(b.func, ast.Attribute) and b.func.attr == "astype" and b.args:
        return dotted(b.args[0])
    return "cast"


def _strip_cast_call(e):
    """precision_cast(X) -> X for the conditional-lambda cast idiom"""
    if isinstance(e, ast.Call) and isinstance(e.func, ast.IfExp) and len(e.args) == 1:
        return e.args[0]
    return e
