"""Anchor location (Appendix A): public names directly, private helpers by name with a
role-predicate fallback, so renaming a private helper does not disturb any rule."""
import ast

from .model import AnalysisError, dotted, calls_in
from .common import status_key, const_str

_CACHE = {}


def _memo(prog, key, fn):
    k = (id(prog), key)
    if k not in _CACHE:
        _CACHE[k] = fn()
    return _CACHE[k]


def fxp_methods(prog):
    return [f for q, f in prog.funcs.items() if f.cls == "Fxp" and f.module == "objects" and f.parent is None]


def funnel(prog):
    return prog.func("objects.Fxp.set_val")


def _callees_of(prog, f):
    out = []
    for c in calls_in(f.node):
        r = prog.resolve_call(f, c, fxp_names=("self",))
        if r and r in prog.funcs:
            out.append(prog.funcs[r])
    return out


def ovf_handler(prog):
    """method of Fxp whose body stores status['overflow'] / ['underflow'] and takes the value as a parameter"""
    def find():
        f = prog.func("objects.Fxp._overflow_action", required=False)
        if f is not None:
            return f
        cands = []
        for m in fxp_methods(prog):
            if m.name in ("__init__", "reset"):
                continue
            for n in ast.walk(m.node):
                if isinstance(n, ast.Assign):
                    for t in n.targets:
                        sk = status_key(t)
                        if sk and sk[1] in ("overflow", "underflow") and len(m.params) >= 2:
                            cands.append(m)
        cands = list(dict.fromkeys(cands))
        if len(cands) != 1:
            raise AnalysisError("overflow handler role matches %d functions" % len(cands))
        return cands[0]
    return _memo(prog, "ovf", find)


def flag_writer(prog):
    """the method of Fxp that raises the overflow / underflow flags: the overflow handler itself, or - when the handler no longer stores them -
    the one other method (not __init__ / reset) that does (the range tests were factored out of the handler)"""
    def find():
        h = ovf_handler(prog)

        def stores(m):
            for n in ast.walk(m.node):
                if isinstance(n, ast.Assign):
                    for t in n.targets:
                        sk = status_key(t)
                        if sk and sk[1] in ("overflow", "underflow"):
                            return True
            return False
        if stores(h):
            return h
        cands = [m for m in fxp_methods(prog) if m.name not in ("__init__", "reset") and m is not h and stores(m)]
        if len(cands) == 1:
            # a helper the handler itself calls is part of the handler (it is inlined into the handler's paths)
            called = {c.func.attr for c in calls_in(h.node) if isinstance(c.func, ast.Attribute)} | {c.func.id for c in calls_in(h.node) if isinstance(c.func, ast.Name)}
            if cands[0].name in called:
                return h
            return cands[0]
        return h
    return _memo(prog, "flagw", find)


def rounder(prog):
    def find():
        f = prog.func("objects.Fxp._round", required=False)
        if f is not None:
            return f
        prims = {"np.floor", "np.ceil", "np.trunc", "np.fix", "np.around", "np.round", "np.rint"}
        cands = []
        for m in fxp_methods(prog):
            hits = {dotted(c.func) for c in calls_in(m.node)} & prims
            if len(hits) >= 3:
                cands.append(m)
        if len(cands) != 1:
            raise AnalysisError("rounding dispatcher role matches %d functions" % len(cands))
        return cands[0]
    return _memo(prog, "rnd", find)


def normaliser(prog):
    def find():
        f = prog.func("objects.Fxp._format_inupt_val", required=False)
        if f is not None:
            return f
        f = prog.func("objects.Fxp._format_input_val", required=False)
        if f is not None:
            return f
        cands = []
        for m in _callees_of(prog, funnel(prog)):
            n_isinst = sum(1 for c in calls_in(m.node) if dotted(c.func) == "isinstance")
            if m.cls == "Fxp" and n_isinst >= 5 and "val" in m.params:
                cands.append(m)
        cands = list(dict.fromkeys(cands))
        if len(cands) != 1:
            raise AnalysisError("input normaliser role matches %d functions" % len(cands))
        return cands[0]
    return _memo(prog, "fmt", find)


def factor(prog):
    def find():
        f = prog.func("objects.Fxp._get_conv_factor", required=False)
        if f is not None:
            return f
        cands = []
        for m in _callees_of(prog, funnel(prog)):
            if m.cls == "Fxp" and "raw" in m.params and len(m.params) == 2 and any(isinstance(n, ast.Return) for n in ast.walk(m.node)):
                txt = ast.unparse(m.node)
                if "n_frac" in txt and "status" not in txt:
                    cands.append(m)
        cands = list(dict.fromkeys(cands))
        if len(cands) != 1:
            raise AnalysisError("conversion-factor role matches %d functions" % len(cands))
        return cands[0]
    return _memo(prog, "fac", find)


def cb_runner(prog):
    def find():
        f = prog.func("objects.Fxp._run_callbacks", required=False)
        if f is not None:
            return f
        cands = []
        for m in fxp_methods(prog):
            for n in ast.walk(m.node):
                if isinstance(n, ast.For) and dotted(n.iter) == "self.callbacks":
                    cands.append(m)
        cands = list(dict.fromkeys(cands))
        if len(cands) != 1:
            raise AnalysisError("callback runner role matches %d functions" % len(cands))
        return cands[0]
    return _memo(prog, "cbr", find)


def dtype_refresher(prog):
    def find():
        f = prog.func("objects.Fxp._update_dtype", required=False)
        if f is not None:
            return f
        cands = []
        for m in fxp_methods(prog):
            if m.name == "__init__":
                continue
            for n in ast.walk(m.node):
                if isinstance(n, ast.Assign) and any(dotted(t) == "self._dtype" for t in n.targets):
                    cands.append(m)
        cands = list(dict.fromkeys(cands))
        if len(cands) != 1:
            raise AnalysisError("dtype refresher role matches %d functions" % len(cands))
        return cands[0]
    return _memo(prog, "upd", find)


def fmt_parser(prog):
    def find():
        f = prog.func("objects.Fxp._parseformatstr", required=False)
        if f is not None:
            prog._fmt_parser_entry = f
            # pure delegation (`return helper(fmt)`): the parser is the function it hands the string to
            for _ in range(3):
                body = [s for s in f.node.body if not (isinstance(s, ast.Expr) and isinstance(s.value, ast.Constant))]
                if len(body) == 1 and isinstance(body[0], ast.Return) and isinstance(body[0].value, ast.Call):
                    q = prog.resolve_call(f, body[0].value)
                    from .pinned import PINNED_FUNCS
                    if q in prog.funcs and q not in PINNED_FUNCS:
                        f = prog.funcs[q]
                        continue
                break
            return f
        cands = []
        for m in fxp_methods(prog):
            n_match = sum(1 for c in calls_in(m.node) if isinstance(c.func, ast.Attribute) and c.func.attr in ("match", "fullmatch"))
            if n_match >= 2:
                cands.append(m)
        if len(cands) != 1:
            raise AnalysisError("format-string parser role matches %d functions" % len(cands))
        return cands[0]
    return _memo(prog, "prs", find)


def fmt_parser_entry(prog):
    """the function callers hand a dtype string to (the pinned parser method, even when it only delegates)"""
    p = fmt_parser(prog)
    return getattr(prog, "_fmt_parser_entry", p)


def wrappers(prog):
    """(WRAP1, WRAP2): functions of functions.py with parameters repr_func, raw_func and one / two operands"""
    def find():
        one = two = None
        for q, f in prog.funcs.items():
            if f.module == "functions" and f.parent is None and "repr_func" in f.params and "raw_func" in f.params:
                ops = [p for p in f.params if p in ("x", "y", "a", "b")]
                if len(ops) == 1:
                    one = f
                elif len(ops) == 2:
                    two = f
        if one is None or two is None:
            raise AnalysisError("function wrappers (repr_func/raw_func) not found")
        return one, two
    return _memo(prog, "wrp", find)


def sizing(prog):
    def find():
        f = prog.func("functions._get_sizing", required=False)
        if f is not None:
            return f
        cands = [f for q, f in prog.funcs.items() if f.module == "functions" and f.parent is None and "sizing" in f.params and "optimal_size" in f.params and "repr_func" not in f.params]
        if len(cands) != 1:
            raise AnalysisError("sizing function role matches %d functions" % len(cands))
        return cands[0]
    return _memo(prog, "siz", find)


def const_conv(prog):
    def find():
        f = prog.func("objects.Fxp._convert_op_input_value", required=False)
        if f is not None:
            return f
        counts = {}
        for m in fxp_methods(prog):
            for c in calls_in(m.node):
                r = prog.resolve_call(m, c)
                if r in prog.funcs and prog.funcs[r].cls == "Fxp":
                    counts.setdefault(r, set()).add(m.name)
        cands = [prog.funcs[r] for r, s in counts.items() if len([n for n in s if n.startswith("__")]) >= 8 and r != "objects.Fxp.set_val"]
        if len(cands) != 1:
            raise AnalysisError("constant converter role matches %d functions" % len(cands))
        return cands[0]
    return _memo(prog, "cc", find)
