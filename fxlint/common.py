"""Helpers shared by the rule modules: cached path facts, cast peeling, roles, renaming."""
import ast

from .model import AnalysisError, dotted, src, kw, calls_in
from .paths import enum_paths, walk_path, PathCap, subst
from .terms import (Term, TermBuilder, NotATerm, exp2, tmax, tmin, ite, t_or, t_and, t_not, fapp,
                    nonneg, Facts, witness)

_PATH_CACHE = {}


def fpaths(prog, f, cap=20000, prune=True):
    """list of PathFacts for all enumerated paths of f (cached per Program)"""
    key = (id(prog), f.qualname, cap, prune)
    if key not in _PATH_CACHE:
        paths = enum_paths(f.node.body, cap=cap, prune=prune, prog=prog, func=f)
        pfs = [walk_path(p, prog=prog, func=f) for p in paths]
        _PATH_CACHE[key] = [pf for pf in pfs if not infeasible(pf)]
    return _PATH_CACHE[key]


TYPE_CONSTS = {"object", "int", "float", "complex", "str", "bool", "np.int64", "np.uint64", "np.int32", "np.float64", "np.object_"}


def _const_alts(e):
    """set of type-constant names an expression can evaluate to, or None"""
    d = dotted(e)
    if d in TYPE_CONSTS:
        return {d}
    if isinstance(e, ast.IfExp):
        a, b = _const_alts(e.body), _const_alts(e.orelse)
        if a is not None and b is not None:
            return a | b
    return None


def static_truth(test):
    """True/False when a (substituted) guard is decided by constant propagation, else None:
    T == T for type constants; `x is None` for literal None / literal non-None."""
    if isinstance(test, ast.UnaryOp) and isinstance(test.op, ast.Not):
        v = static_truth(test.operand)
        return None if v is None else (not v)
    if isinstance(test, ast.Constant) and isinstance(test.value, (bool, int, str, type(None))):
        return bool(test.value)
    if isinstance(test, ast.Compare) and len(test.ops) == 1:
        l, op, r = test.left, test.ops[0], test.comparators[0]
        if isinstance(op, (ast.Eq, ast.NotEq)):
            a, b = _const_alts(l), _const_alts(r)
            if a is not None and b is not None:
                if len(a) == 1 and a == b:
                    return isinstance(op, ast.Eq)
                if not (a & b):
                    return isinstance(op, ast.NotEq)
        if isinstance(op, (ast.Is, ast.IsNot)) and isinstance(r, ast.Constant) and r.value is None:
            if isinstance(l, ast.Constant):
                return (l.value is None) == isinstance(op, ast.Is)
            if isinstance(l, (ast.List, ast.Tuple, ast.Dict, ast.BinOp)):
                return isinstance(op, ast.IsNot)
            if isinstance(l, ast.Call) and dotted(l.func) in ("int", "float", "len", "str", "bool", "list", "tuple", "abs", "np.array", "np.asarray"):
                return isinstance(op, ast.IsNot)
    if isinstance(test, ast.Call) and dotted(test.func) == "isinstance" and len(test.args) == 2 and dotted(test.args[1]) == "object":
        return True
    return None


def _implied_literals(t, pol, out):
    """literals (test, polarity) that follow from `t == pol`: not-elimination, all conjuncts of a true `and`, all disjuncts of a false `or`"""
    while isinstance(t, ast.UnaryOp) and isinstance(t.op, ast.Not):
        t, pol = t.operand, not pol
    if isinstance(t, ast.Call) and dotted(t.func) == "bool" and len(t.args) == 1 and not t.keywords:
        return _implied_literals(t.args[0], pol, out)
    if isinstance(t, ast.BoolOp):
        out.append((t, pol))
        if (isinstance(t.op, ast.And) and pol) or (isinstance(t.op, ast.Or) and not pol):
            for v in t.values:
                _implied_literals(v, pol, out)
        return
    out.append((t, pol))


def infeasible(pf):
    """a path is infeasible when a guard is decided the other way by constant propagation, or when two guards imply the same
    literal (same substituted expression over the inputs and the heap as read at that point) with opposite truth values"""
    seen = {}
    for g in pf.guards:
        v = static_truth(g[0])
        if v is not None and v != g[1]:
            return True
        lits = []
        _implied_literals(g[0], g[1], lits)
        for t, pol in lits:
            v = static_truth(t)
            if v is not None and v != pol:
                return True
            if isinstance(t, ast.Compare) and len(t.ops) == 1 and isinstance(t.ops[0], (ast.IsNot, ast.NotEq, ast.NotIn)):
                k = ("cmp", type(t.ops[0]).__name__[:2], _ekey(t.left), _ekey(t.comparators[0]))
                pol = not pol
            elif isinstance(t, ast.Compare) and len(t.ops) == 1 and isinstance(t.ops[0], (ast.Is, ast.Eq, ast.In)):
                k = ("cmp", type(t.ops[0]).__name__[:2], _ekey(t.left), _ekey(t.comparators[0]))
            else:
                k = _ekey(t)
            if _impure(t):
                continue
            if k in seen and seen[k] != pol:
                return True
            seen[k] = pol
    return False


def _impure(t):
    """tests whose value may change between two evaluations although the text is the same (loop-carried or synthetic markers)"""
    for n in ast.walk(t):
        if isinstance(n, ast.Name) and n.id.startswith("$") and not n.id.startswith("$arg"):
            return True
        if isinstance(n, ast.Call) and isinstance(n.func, ast.Name) and n.func.id.startswith("$"):
            return True
    return False


def self_rename(d):
    """'self.n_word' -> 'n_word' so that terms from different methods compare equal"""
    return d[5:] if d.startswith("self.") else d


def obj_rename(name):
    """rename attributes of object ``name`` to bare names: obj_rename('x')('x.n_frac') = 'n_frac'"""
    def r(d):
        return d[len(name) + 1:] if d.startswith(name + ".") else d
    return r


_TERM_CACHE = {}


def _ekey(expr):
    k = getattr(expr, "_fx_dump", None)
    if k is None:
        k = ast.dump(expr) if isinstance(expr, ast.AST) else repr(expr)
        try:
            expr._fx_dump = k
        except Exception:
            pass
    return k


def mkterm(expr, rename=self_rename, env=None, bool_names=()):
    if env is None:
        key = ("t", _ekey(expr), rename, tuple(bool_names))
        if key not in _TERM_CACHE:
            try:
                _TERM_CACHE[key] = TermBuilder(env=env, rename=rename, bool_names=bool_names).term(expr)
            except NotATerm as e:
                _TERM_CACHE[key] = e
        r = _TERM_CACHE[key]
        if isinstance(r, NotATerm):
            raise r
        return r
    return TermBuilder(env=env, rename=rename, bool_names=bool_names).term(expr)


def mkbool(expr, rename=self_rename, env=None, bool_names=()):
    if env is None:
        key = ("b", _ekey(expr), rename, tuple(bool_names))
        if key not in _TERM_CACHE:
            try:
                _TERM_CACHE[key] = TermBuilder(env=env, rename=rename, bool_names=bool_names).boolean(expr)
            except NotATerm as e:
                _TERM_CACHE[key] = e
        r = _TERM_CACHE[key]
        if isinstance(r, NotATerm):
            raise r
        return r
    return TermBuilder(env=env, rename=rename, bool_names=bool_names).boolean(expr)


def guard_assignment(guards, rename=self_rename):
    """{atom: Term.const} for guards that are a bare boolean symbol or its negation"""
    out = {}
    lits = []
    for g in guards:
        _implied_literals(g[0], g[1], lits)
    for test, pol in lits:
        if isinstance(test, ast.BoolOp):
            continue
        try:
            t = mkbool(test, rename)
        except NotATerm:
            continue
        # t is either atom or 1-atom
        if len(t.m) == 1:
            (mono, c), = t.m.items()
            if c == 1 and len(mono) == 1 and mono[0][0][0] in ("b", "p"):
                out[mono[0][0]] = Term.const(1 if pol else 0)
        elif len(t.m) == 2 and t.m.get(()) == 1:
            rest = [(m, c) for m, c in t.m.items() if m != ()]
            (mono, c), = rest
            if c == -1 and len(mono) == 1 and mono[0][0][0] in ("b", "p"):
                out[mono[0][0]] = Term.const(0 if pol else 1)
    return out


def path_asg(pf, rename=self_rename):
    """assignment of the boolean / predicate atoms fixed by the guards of a path (all guards, not only the enclosing ones)"""
    return guard_assignment(pf.guards, rename)


def guard_cases(guards, rename=self_rename, cap=16):
    """Assignments (list of {atom: Term}) that together cover the conjunction of the path's guards:
    each guard is expanded to a disjunction of literal conjunctions; a literal that is a bare boolean symbol
    fixes it to 0/1, `sym == const` taken true fixes the symbol, anything else contributes no information."""
    cases = [dict()]

    def lits(test, pol):
        """DNF of (test == pol) as list of conjunctions (lists of (kind, atom, value))"""
        if isinstance(test, ast.UnaryOp) and isinstance(test.op, ast.Not):
            return lits(test.operand, not pol)
        if isinstance(test, ast.Call) and dotted(test.func) == "bool" and len(test.args) == 1:
            return lits(test.args[0], pol)
        if isinstance(test, ast.BoolOp):
            is_or = isinstance(test.op, ast.Or)
            parts = [lits(v, pol) for v in test.values]
            if is_or == pol:
                # disjunction
                out = []
                for p_ in parts:
                    out.extend(p_)
                return out
            # conjunction: cross product
            out = [[]]
            for p_ in parts:
                out = [a + b for a in out for b in p_]
            return out
        try:
            t = mkbool(test, rename)
        except NotATerm:
            return [[]]
        if len(t.m) == 1:
            (mono, c), = t.m.items()
            if c == 1 and len(mono) == 1 and mono[0][0][0] == "b":
                return [[(mono[0][0], Term.const(1 if pol else 0))]]
        if isinstance(test, ast.Compare) and len(test.ops) == 1 and isinstance(test.ops[0], (ast.Eq, ast.NotEq)):
            is_eq = isinstance(test.ops[0], ast.Eq)
            if is_eq == pol:
                try:
                    l = mkterm(test.left, rename)
                    r = mkterm(test.comparators[0], rename)
                except NotATerm:
                    return [[]]
                for a, b in ((l, r), (r, l)):
                    if b.is_const() and len(a.m) == 1:
                        (mono, c), = a.m.items()
                        if c == 1 and len(mono) == 1 and mono[0][1] == 1 and mono[0][0][0] == "v":
                            return [[(mono[0][0], b)]]
        return [[]]

    for g in guards:
        alts = lits(g[0], g[1])
        new = []
        for c in cases:
            for conj in alts:
                c2 = dict(c)
                okc = True
                for atom, val in conj:
                    if atom in c2 and c2[atom] != val:
                        okc = False
                        break
                    c2[atom] = val
                if okc and c2 not in new:
                    new.append(c2)
        cases = new[:cap] if new else cases
    return cases


# --------------------------------------------------------------------------- cast peeling

INT_TYPES = {"int", "np.int64", "np.uint64", "np.int32", "np.int_", "np.intp", "'int'", "'int64'", "'uint64'", "np.integer"}

IDENTITY_CALLS = {"np.array", "np.asarray", "np.asanyarray", "np.ascontiguousarray", "np.copy", "np.squeeze", "np.atleast_1d"}
IDENTITY_METHODS = {"astype", "reshape", "flatten", "ravel", "copy", "squeeze", "view", "tolist"}


def peel(expr, casts=None):
    """Strip value-preserving wrappers (casts and re-arrangements that keep every element):
    X.astype(T), np.array(X), np.asarray(X), X.reshape(..), X.flatten(), list(map(int, X)),
    utils.int_array(X), precision casts.  Returns (inner, [cast descriptors])."""
    casts = [] if casts is None else casts
    while True:
        if isinstance(expr, ast.Call):
            fn = dotted(expr.func)
            if fn in IDENTITY_CALLS and expr.args:
                dt = kw(expr, "dtype", 1)
                casts.append(("np.array", src(dt) if dt is not None else None))
                expr = expr.args[0]
                continue
            if fn in ("utils.int_array", "int_array") and expr.args:
                casts.append(("int_array", "int"))
                expr = expr.args[0]
                continue
            if fn == "list" and len(expr.args) == 1:
                expr = expr.args[0]
                continue
            if fn == "map" and len(expr.args) == 2 and dotted(expr.args[0]) in ("int", "float"):
                casts.append(("map", dotted(expr.args[0])))
                expr = expr.args[1]
                continue
            if isinstance(expr.func, ast.Attribute) and expr.func.attr in IDENTITY_METHODS and dotted(expr.func.value) != "np":
                if expr.func.attr == "astype":
                    a = expr.args[0] if expr.args else kw(expr, "dtype")
                    casts.append(("astype", src(a) if a is not None else None))
                expr = expr.func.value
                continue
        return expr, casts


def is_int_cast(c):
    return c[0] in ("astype", "np.array") and c[1] is not None and c[1] in INT_TYPES or c[0] in ("int_array",) or (c[0] == "map" and c[1] == "int")


def find_calls(expr, pred):
    return [c for c in calls_in(expr) if pred(c)]


def method_call(expr, name, recv="self"):
    """expr is `recv.name(...)`"""
    return isinstance(expr, ast.Call) and isinstance(expr.func, ast.Attribute) and expr.func.attr == name \
        and dotted(expr.func.value) == recv


def actual(call, f, pname):
    """actual argument expr bound to parameter ``pname`` of callee Func f at ``call`` (positional or keyword);
    for methods the receiver is not counted."""
    params = f.params
    if f.cls and params and params[0] == "self":
        params = params[1:]
    for k in call.keywords:
        if k.arg == pname:
            return k.value
    if pname in params:
        i = params.index(pname)
        if i < len(call.args) and not any(isinstance(a, ast.Starred) for a in call.args[:i + 1]):
            return call.args[i]
    return None


def const_str(e):
    return e.value if isinstance(e, ast.Constant) and isinstance(e.value, str) else None


def status_key(target):
    """'overflow' for `<x>.status['overflow']` subscript node, with the base path; else None"""
    if isinstance(target, ast.Subscript) and isinstance(target.value, ast.Attribute) and target.value.attr == "status":
        k = const_str(target.slice)
        return (dotted(target.value.value), k)
    return None


# --------------------------------------------------------------------------- any-reduction guards

def any_guard(test):
    """Normalise an "exists an element with a REL b" test to (lhs, op, rhs) with op in {'<','<='}.

    Accepted idioms (Appendix C): np.any(a > b), (a > b).any(), any(a > b), np.max(a) > b,
    np.min(a) < b, a.max() > b.  Returns None when the test is not of that shape,
    ('all', ...) marker when it is an all-reduction (listed as wrong)."""
    t = test
    red = None
    if isinstance(t, ast.Call) and dotted(t.func) in ("any", "all") and len(t.args) == 1 and isinstance(t.args[0], (ast.GeneratorExp, ast.ListComp)) \
            and len(t.args[0].generators) == 1 and not t.args[0].generators[0].ifs and isinstance(t.args[0].generators[0].target, ast.Name):
        # any(np.any(part > b) for part in parts): the same test on every member of a group of value arrays == the test on the group
        g = t.args[0].generators[0]
        inner = any_guard(t.args[0].elt)
        if inner is None:
            return None
        red_i, lo, op_i, hi = inner
        v = g.target.id
        outer = dotted(t.func)
        if red_i != outer:
            return ("all", lo, op_i, hi) if "all" in (red_i, outer) else None
        if dotted(peel(lo)[0]) == v and not any(isinstance(x, ast.Name) and x.id == v for x in ast.walk(hi)):
            return (red_i, g.iter, op_i, hi)
        if dotted(peel(hi)[0]) == v and not any(isinstance(x, ast.Name) and x.id == v for x in ast.walk(lo)):
            return (red_i, lo, op_i, g.iter)
        return None
    if isinstance(t, ast.Call):
        fn = dotted(t.func)
        if fn in ("np.any", "any", "numpy.any") and len(t.args) >= 1:
            red, t = "any", t.args[0]
        elif fn in ("np.all", "all") and len(t.args) >= 1:
            red, t = "all", t.args[0]
        elif isinstance(t.func, ast.Attribute) and t.func.attr in ("any", "all") and not t.args:
            red, t = t.func.attr, t.func.value
        elif fn == "bool" and len(t.args) == 1:
            return any_guard(t.args[0])
    if not (isinstance(t, ast.Compare) and len(t.ops) == 1):
        return None
    l, op, r = t.left, t.ops[0], t.comparators[0]
    if red is None:
        # np.max(a) > b  == any(a > b) ; np.min(a) < b == any(a < b)
        def ext(e):
            if isinstance(e, ast.Call):
                fn = dotted(e.func)
                if fn in ("np.max", "np.amax", "max") and len(e.args) == 1:
                    return "max", e.args[0]
                if fn in ("np.min", "np.amin", "min") and len(e.args) == 1:
                    return "min", e.args[0]
                if isinstance(e.func, ast.Attribute) and e.func.attr in ("max", "min") and not e.args:
                    return e.func.attr, e.func.value
            return None, e
        kl, l2 = ext(l)
        kr, r2 = ext(r)
        ok = False
        if kl == "max" and kr is None and isinstance(op, (ast.Gt, ast.GtE)):
            l, ok = l2, True
        elif kl == "min" and kr is None and isinstance(op, (ast.Lt, ast.LtE)):
            l, ok = l2, True
        elif kr == "max" and kl is None and isinstance(op, (ast.Lt, ast.LtE)):
            r, ok = r2, True
        elif kr == "min" and kl is None and isinstance(op, (ast.Gt, ast.GtE)):
            r, ok = r2, True
        elif kl is None and kr is None:
            ok = True   # scalar comparison: same as any() over one element
        if not ok:
            return None
        red = "any"
    if isinstance(op, ast.Gt):
        res = (r, "<", l)
    elif isinstance(op, ast.GtE):
        res = (r, "<=", l)
    elif isinstance(op, ast.Lt):
        res = (l, "<", r)
    elif isinstance(op, ast.LtE):
        res = (l, "<=", r)
    else:
        return None
    return (red,) + res


def same_expr(a, b):
    return ast.dump(a) == ast.dump(b)


def fxp_names_in(prog, f):
    """names that denote Fxp objects inside f (flow-insensitive local inference, A2)"""
    names = set()
    if f.cls == "Fxp":
        names.add("self")
    for n in ast.walk(f.node):
        if isinstance(n, ast.Call) and dotted(n.func) == "isinstance" and len(n.args) == 2:
            d = dotted(n.args[0])
            t = n.args[1]
            ts = t.elts if isinstance(t, ast.Tuple) else [t]
            if d and any(dotted(x) in ("Fxp", "self.__class__") for x in ts):
                names.add(d)
        if isinstance(n, ast.Assign) and len(n.targets) == 1 and isinstance(n.targets[0], ast.Name):
            v = n.value
            if isinstance(v, ast.Call):
                if prog.is_fxp_ctor(f, v):
                    names.add(n.targets[0].id)
                elif isinstance(v.func, ast.Attribute) and v.func.attr in ("copy", "deepcopy", "like") and dotted(v.func.value) in names | {"self"}:
                    names.add(n.targets[0].id)
    return names


def effective_owners(prog, f, _seen=None):
    """pinned functions on whose behalf f writes: f itself when it is in the pinned table, otherwise (a helper introduced by a
    refactoring) the effective owners of all its callers"""
    from .pinned import PINNED_FUNCS
    if f.qualname in PINNED_FUNCS:
        return {f.qualname}
    _seen = _seen or set()
    if f.qualname in _seen:
        return set()
    _seen.add(f.qualname)
    out = set()
    callers = 0
    for g in prog.all_funcs():
        if g is f:
            continue
        for c in calls_in(g.node):
            fn = c.func
            nm = fn.attr if isinstance(fn, ast.Attribute) else (fn.id if isinstance(fn, ast.Name) else None)
            if nm == f.name:
                callers += 1
                out |= effective_owners(prog, g, _seen)
                break
    if not callers:
        out.add(f.qualname)      # unreachable helper: stands for itself
    return out


def closure_funcs(prog, f, _seen=None):
    """f plus the unpinned helper functions reachable from it (what the path engine inlines)"""
    from .pinned import PINNED_FUNCS
    _seen = _seen if _seen is not None else []
    if f in _seen:
        return _seen
    _seen.append(f)
    for c in calls_in(f.node):
        fn = c.func
        q = None
        if isinstance(fn, ast.Name):
            q = prog.resolve_name(f, fn.id)
        elif isinstance(fn, ast.Attribute) and dotted(fn.value) == "self" and f.cls:
            m = prog.method(f.cls, fn.attr, required=False, module=f.module)
            q = m.qualname if m is not None else None
        elif isinstance(fn, ast.Attribute) and dotted(fn.value) == "utils":
            q = "utils." + fn.attr
        if q and q in prog.funcs and q not in PINNED_FUNCS:
            closure_funcs(prog, prog.funcs[q], _seen)
    return _seen


def walk_closure(prog, f):
    """(func, node) for every AST node of f and of the helpers inlined into it; each node is attributed to the innermost function"""
    for g in closure_funcs(prog, f):
        stack = list(ast.iter_child_nodes(g.node))
        while stack:
            n = stack.pop()
            if isinstance(n, (ast.FunctionDef, ast.AsyncFunctionDef)):
                continue        # nested defs are visited as functions of their own when they are in the closure
            yield g, n
            stack.extend(ast.iter_child_nodes(n))


# --------------------------------------------------------------------------- semantic guard queries (robust to restructured conditions)

def path_literals(guards):
    """all literals (substituted test, polarity) implied by the guards of a path, closed under unit propagation:
    a false `a and b` with a known true gives b false; a true `a or b` with a known false gives b true"""
    out = []
    for g in guards:
        _implied_literals(g[0], g[1], out)
    if not any(isinstance(t, ast.BoolOp) for t, _ in out):
        return out
    for _ in range(4):
        known = {}
        for t, pol in out:
            if not _impure(t):
                k, p2 = _lit_key(t, pol)
                known.setdefault(k, p2)
        added = False
        for t, pol in list(out):
            if not isinstance(t, ast.BoolOp):
                continue
            unit = (isinstance(t.op, ast.And) and not pol) or (isinstance(t.op, ast.Or) and pol)
            if not unit:
                continue
            want = isinstance(t.op, ast.And)          # operands that are `want` do not decide the result
            open_ = []
            for v in t.values:
                lits = []
                _implied_literals(v, True, lits)
                k, p2 = _lit_key(lits[0][0], lits[0][1]) if len(lits) >= 1 else (None, None)
                val = None
                if k in known:
                    val = known[k] == p2
                if val is None:
                    open_.append(v)
                elif val != want:
                    open_ = None
                    break
            if open_ is not None and len(open_) == 1:
                new = []
                _implied_literals(open_[0], not want, new)
                for nt, npol in new:
                    k, p2 = _lit_key(nt, npol)
                    if k not in known:
                        out.append((nt, npol))
                        known[k] = p2
                        added = True
        if not added:
            break
    return out


def _lit_key(t, pol):
    while isinstance(t, ast.UnaryOp) and isinstance(t.op, ast.Not):
        t, pol = t.operand, not pol
    if isinstance(t, ast.Compare) and len(t.ops) == 1 and isinstance(t.ops[0], (ast.IsNot, ast.NotEq, ast.NotIn)):
        return ("cmp", {"IsNot": "Is", "NotEq": "Eq", "NotIn": "In"}[type(t.ops[0]).__name__], _ekey(t.left), _ekey(t.comparators[0])), not pol
    if isinstance(t, ast.Compare) and len(t.ops) == 1 and isinstance(t.ops[0], (ast.Is, ast.Eq, ast.In)):
        return ("cmp", type(t.ops[0]).__name__, _ekey(t.left), _ekey(t.comparators[0])), pol
    return _ekey(t), pol


def none_state(guards, name):
    """True when the path's guards imply `name is None`, False when they imply it is not None, else None"""
    for t, pol in path_literals(guards):
        if isinstance(t, ast.Compare) and len(t.ops) == 1 and dotted(t.left) == name and isinstance(t.comparators[0], ast.Constant) and t.comparators[0].value is None:
            if isinstance(t.ops[0], ast.Is):
                return pol
            if isinstance(t.ops[0], ast.IsNot):
                return not pol
    return None


def str_state(guards, name):
    """(eq, ne): strings the path's guards assert `name` (a dotted path, matched on the substituted test) equal / not equal to.
    A true disjunction `name == 'a' or name == 'b'` yields eq = {'a','b'}."""
    eq, ne = None, set()
    for g in guards:
        t, pol = g[0], g[1]
        while isinstance(t, ast.UnaryOp) and isinstance(t.op, ast.Not):
            t, pol = t.operand, not pol
        alts = t.values if (isinstance(t, ast.BoolOp) and isinstance(t.op, ast.Or)) else [t]
        vals = []
        okall = True
        for a in alts:
            if isinstance(a, ast.Compare) and len(a.ops) == 1 and dotted(a.left) == name:
                c = a.comparators[0]
                if isinstance(a.ops[0], ast.Eq) and const_str(c) is not None:
                    vals.append(("eq", const_str(c)))
                    continue
                if isinstance(a.ops[0], ast.NotEq) and const_str(c) is not None:
                    vals.append(("ne", const_str(c)))
                    continue
                if isinstance(a.ops[0], ast.In) and isinstance(c, (ast.Tuple, ast.List, ast.Set)) and all(const_str(x) is not None for x in c.elts):
                    vals.extend(("eq", const_str(x)) for x in c.elts)
                    continue
                if isinstance(a.ops[0], ast.Is) and isinstance(c, ast.Constant) and c.value is None:
                    vals.append(("eq", None))
                    continue
            okall = False
        if not vals:
            continue
        if len(alts) == 1:
            kind, v = vals[0] if len(vals) == 1 else (None, None)
            if len(vals) > 1:       # membership in a tuple
                if pol:
                    eq = set(v for _, v in vals) if eq is None else eq & set(v for _, v in vals)
                else:
                    ne |= set(v for _, v in vals)
                continue
            if (kind == "eq") == pol:
                eq = {v} if eq is None else eq & {v}
            else:
                ne.add(v)
        elif okall and all(k == "eq" for k, _ in vals):
            if pol:
                s_ = set(v for _, v in vals)
                eq = s_ if eq is None else eq & s_
            else:
                ne |= set(v for _, v in vals)
    return eq, ne


def truth_on_path(expr, guards):
    """True/False when the path's guards (or constants) decide the boolean expression, else None"""
    if isinstance(expr, ast.Constant):
        return bool(expr.value)
    if isinstance(expr, ast.UnaryOp) and isinstance(expr.op, ast.Not):
        v = truth_on_path(expr.operand, guards)
        return None if v is None else (not v)
    if isinstance(expr, ast.Call) and dotted(expr.func) == "bool" and len(expr.args) == 1:
        return truth_on_path(expr.args[0], guards)
    k = _ekey(expr)
    for g in guards:
        if _ekey(g[0]) == k:
            return g[1]
    for t, pol in path_literals(guards):
        if _ekey(t) == k:
            return pol
    if isinstance(expr, ast.BoolOp):
        vals = [truth_on_path(v, guards) for v in expr.values]
        if isinstance(expr.op, ast.And):
            if any(v is False for v in vals):
                return False
            if all(v is True for v in vals):
                return True
        else:
            if any(v is True for v in vals):
                return True
            if all(v is False for v in vals):
                return False
    v = static_truth(expr)
    return v


def isinstance_state(guards, name, typename="Fxp"):
    """True when the guards imply isinstance(name, Fxp), False when they imply the contrary, else None"""
    for t, pol in path_literals(guards):
        if isinstance(t, ast.Call) and dotted(t.func) == "isinstance" and len(t.args) == 2 and dotted(t.args[0]) == name:
            ts = t.args[1].elts if isinstance(t.args[1], ast.Tuple) else [t.args[1]]
            if any(dotted(x) in (typename, "self.__class__") for x in ts):
                return pol
    return None


def order_facts(guards, rename=self_rename):
    """Facts(ge=[(a, b)]) from comparison guards between terms: a >= b"""
    ge = []
    for t, pol in path_literals(guards):
        if isinstance(t, ast.Compare) and len(t.ops) == 1 and isinstance(t.ops[0], (ast.Lt, ast.LtE, ast.Gt, ast.GtE)):
            try:
                l, r = mkterm(t.left, rename), mkterm(t.comparators[0], rename)
            except NotATerm:
                continue
            op = type(t.ops[0])
            if not pol:
                op = {ast.Lt: ast.GtE, ast.LtE: ast.Gt, ast.Gt: ast.LtE, ast.GtE: ast.Lt}[op]
            if op in (ast.Gt, ast.GtE):
                ge.append((l, r))
            else:
                ge.append((r, l))
    return ge


def simplify_extrema(term, ge):
    """resolve two-argument max/min atoms whose order is decided by the facts a >= b"""
    from .terms import Facts
    facts = Facts(ge=ge)
    mapping = {}
    for a in term.all_atoms():
        if a[0] in ("max", "min") and len(a[1]) == 2:
            p_, q_ = a[1]
            if any((x == p_ and y == q_) for x, y in ge) or nonneg(p_ - q_, facts):
                mapping[a] = p_ if a[0] == "max" else q_
            elif any((x == q_ and y == p_) for x, y in ge) or nonneg(q_ - p_, facts):
                mapping[a] = q_ if a[0] == "max" else p_
    return term.subst(mapping) if mapping else term


def store_status_key(st):
    """(base, key) of a store to <base>.status[key] using the substituted subscript (loop variables over literal tuples are resolved)"""
    t = st.target
    if isinstance(t, ast.Subscript) and isinstance(t.value, ast.Attribute) and t.value.attr == "status":
        k = const_str(st.sub) if st.sub is not None else const_str(t.slice)
        return (dotted(t.value.value), k)
    return None


def format_fields(call):
    """[(literal text, field expr | None, spec parts | None, conversion)] of a '<template>'.format(...) call; a field is resolved to
    the expression it prints whether it is numbered, auto-numbered or named; spec parts are literal strings and expressions
    (for nested fields such as the width in '{0:0{1}X}')."""
    import string as _string
    tpl = const_str(call.func.value)
    out = []
    auto = [0]

    def resolve(name):
        if name == "":
            i = auto[0]
            auto[0] += 1
            return call.args[i] if i < len(call.args) else None
        if name.isdigit():
            i = int(name)
            return call.args[i] if i < len(call.args) else None
        if not name.isidentifier():
            return None
        from .model import kw as _kw
        return _kw(call, name)
    for lit, fld, spec, conv in _string.Formatter().parse(tpl):
        if fld is None:
            out.append((lit, None, None, None))
            continue
        val = resolve(fld)
        parts = []
        if spec:
            for l2, f2, s2, c2 in _string.Formatter().parse(spec):
                if l2:
                    parts.append(l2)
                if f2 is not None:
                    parts.append(resolve(f2))
        out.append((lit, val, parts, conv))
    return out
