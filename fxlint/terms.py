"""A5 - canonical terms (value numbering of format formulas).

A Term is a polynomial with Fraction coefficients over atoms.  Atoms:
  ('v', name)            integer/real symbol, e.g. 'x.n_frac'
  ('b', name)            boolean symbol used arithmetically (idempotent: b*b = b), e.g. 'x.signed'
  ('p', pred)            indicator of an uninterpreted predicate (idempotent), pred is a string
  ('exp2', T)            2**T, at most one per monomial; exp2(a)*exp2(b)=exp2(a+b); exp2(const) folds
  ('max', (T,...))       n-ary, flattened, sorted, de-duplicated, common addend factored out
  ('min', (T,...))
  ('f', name, (T,...))   uninterpreted function application (clog2, bitlen, cdiv4, size, ...)

Boolean structure is expanded into the polynomial ([p or q] = [p]+[q]-[p][q], [not p] = 1-[p],
ite(c,a,b) = [c]*a + (1-[c])*b), so structural equality of normal forms decides equality of
the formulas for every assignment of the boolean symbols - no case split and no solver.
"""
import ast
from fractions import Fraction
from itertools import product

from .model import dotted, src

BOOL_LAST = {"signed", "raw", "scaled", "restore_val", "frac_dot", "padding", "return_sizes", "complex_flag", "complex_dtype"}


class NotATerm(Exception):
    pass


def _akey(atom):
    k = atom[0]
    if k in ("v", "b", "p"):
        return (k, atom[1])
    if k == "exp2":
        return (k, atom[1].key())
    if k in ("max", "min"):
        return (k, tuple(t.key() for t in atom[1]))
    if k == "f":
        return (k, atom[1], tuple(t.key() if isinstance(t, Term) else ("s", t) for t in atom[2]))
    raise ValueError(atom)


class Term:
    __slots__ = ("m", "_key")

    def __init__(self, m=None):
        # m: dict monomial -> Fraction ; monomial: tuple of (atom, power) sorted by key repr
        self.m = {k: v for k, v in (m or {}).items() if v != 0}
        self._key = None

    # ---------------------------------------------------------------- construction
    @staticmethod
    def const(c):
        c = Fraction(c)
        return Term({(): c}) if c != 0 else Term()

    @staticmethod
    def atom(a):
        return Term({((a, 1),): Fraction(1)})

    @staticmethod
    def var(name):
        return Term.atom(("v", name))

    @staticmethod
    def bvar(name):
        return Term.atom(("b", name))

    @staticmethod
    def pred(p):
        return Term.atom(("p", p))

    def key(self):
        if self._key is None:
            items = []
            for mono, c in self.m.items():
                items.append((tuple((_akey(a), p) for a, p in mono), (c.numerator, c.denominator)))
            self._key = tuple(sorted(items, key=repr))
        return self._key

    def __hash__(self):
        return hash(self.key())

    def __eq__(self, o):
        return isinstance(o, Term) and self.key() == o.key()

    # ---------------------------------------------------------------- arithmetic
    def __add__(self, o):
        o = _t(o)
        m = dict(self.m)
        for k, v in o.m.items():
            m[k] = m.get(k, 0) + v
        return Term(m)

    __radd__ = __add__

    def __neg__(self):
        return Term({k: -v for k, v in self.m.items()})

    def __sub__(self, o):
        return self + (-_t(o))

    def __rsub__(self, o):
        return _t(o) - self

    def __mul__(self, o):
        o = _t(o)
        m = {}
        for k1, v1 in self.m.items():
            for k2, v2 in o.m.items():
                k, c = _mono_mul(k1, k2)
                m[k] = m.get(k, 0) + v1 * v2 * c
        return Term(m)

    __rmul__ = __mul__

    def __pow__(self, n):
        if isinstance(n, int) and n < 0:
            return self.inverse() ** (-n)
        if not isinstance(n, int):
            raise NotATerm("power %r" % (n,))
        r = Term.const(1)
        for _ in range(n):
            r = r * self
        return r

    def is_const(self):
        return all(k == () for k in self.m)

    def const_value(self):
        if not self.is_const():
            return None
        return self.m.get((), Fraction(0))

    def inverse(self):
        """1/self when self is a single monomial made of a coefficient and exp2 atoms only."""
        if len(self.m) != 1:
            raise NotATerm("cannot invert a sum")
        (mono, c), = self.m.items()
        inv = []
        for a, p in mono:
            if a[0] == "exp2":
                inv.append((("exp2", -a[1]), p))
            elif a[0] in ("v", "f"):
                inv.append((a, -p))      # rational normal form: negative powers of symbols
            else:
                raise NotATerm("cannot invert %s" % (a,))
        k, cc = _mono_mul(tuple(inv), ())
        return Term({k: cc / c})

    def atoms(self):
        out = set()
        for mono in self.m:
            for a, _ in mono:
                out.add(a)
        return out

    def all_atoms(self):
        """atoms including those nested in exp2/max/min/f arguments"""
        out = set()
        for a in self.atoms():
            out.add(a)
            if a[0] == "exp2":
                out |= a[1].all_atoms()
            elif a[0] in ("max", "min"):
                for t in a[1]:
                    out |= t.all_atoms()
            elif a[0] == "f":
                for t in a[2]:
                    if isinstance(t, Term):
                        out |= t.all_atoms()
        return out

    def symbols(self):
        return sorted({a[1] for a in self.all_atoms() if a[0] in ("v", "b", "p")})

    # ---------------------------------------------------------------- substitution / evaluation
    def subst(self, mapping):
        """mapping: atom -> Term ; applied recursively inside nested atoms"""
        res = Term()
        for mono, c in self.m.items():
            t = Term.const(c)
            for a, p in mono:
                t = t * (_subst_atom(a, mapping) ** p)
            res = res + t
        return res

    def evaluate(self, env):
        """numeric value under env: symbol name -> number (bools as 0/1); uninterpreted f via env[('f',name)]"""
        tot = Fraction(0)
        for mono, c in self.m.items():
            v = Fraction(c)
            for a, p in mono:
                v *= Fraction(_eval_atom(a, env)) ** p
            tot += v
        return tot

    # ---------------------------------------------------------------- printing
    def __repr__(self):
        return "T(%s)" % self.show()

    def show(self):
        if not self.m:
            return "0"
        parts = []
        for mono, c in sorted(self.m.items(), key=lambda kv: (len(kv[0]), repr(_monokey(kv[0])))):
            fs = []
            for a, p in mono:
                s = _show_atom(a)
                fs.append(s if p == 1 else "%s^%d" % (s, p))
            body = "*".join(fs)
            if not fs:
                txt = _fr(c)
            elif c == 1:
                txt = body
            elif c == -1:
                txt = "-" + body
            else:
                txt = "%s*%s" % (_fr(c), body)
            parts.append(txt)
        out = parts[0]
        for p in parts[1:]:
            out += (" - " + p[1:]) if p.startswith("-") else (" + " + p)
        return out


def _fr(c):
    return str(c.numerator) if c.denominator == 1 else "%d/%d" % (c.numerator, c.denominator)


def _monokey(mono):
    return tuple((_akey(a), p) for a, p in mono)


def _show_atom(a):
    k = a[0]
    if k in ("v", "b"):
        return a[1] if k == "v" else "[%s]" % a[1]
    if k == "p":
        return "[%s]" % a[1]
    if k == "exp2":
        return "2^(%s)" % a[1].show()
    if k in ("max", "min"):
        return "%s(%s)" % (k, ", ".join(t.show() for t in a[1]))
    if k == "f":
        return "%s(%s)" % (a[1], ", ".join(t.show() if isinstance(t, Term) else str(t) for t in a[2]))
    return repr(a)


def _t(x):
    if isinstance(x, Term):
        return x
    if isinstance(x, bool):
        return Term.const(int(x))
    if isinstance(x, (int, Fraction)):
        return Term.const(x)
    if isinstance(x, float):
        return Term.const(Fraction(x))
    raise NotATerm(repr(x))


def _mono_mul(k1, k2):
    """multiply two monomials -> (monomial, extra coefficient)"""
    acc = {}
    exp = None
    for a, p in tuple(k1) + tuple(k2):
        if a[0] == "exp2":
            e = a[1] * p if p != 1 else a[1]
            exp = e if exp is None else exp + e
        else:
            ak = _akey(a)
            if ak in acc:
                acc[ak] = (a, acc[ak][1] + p)
            else:
                acc[ak] = (a, p)
    coef = Fraction(1)
    items = []
    for ak, (a, p) in acc.items():
        if p == 0:
            continue
        if a[0] in ("b", "p") and p > 1:
            p = 1                       # idempotent
        items.append((a, p))
    if exp is not None:
        cv = exp.const_value()
        if cv is not None:
            if cv.denominator != 1:
                raise NotATerm("exp2 of non-integer constant")
            coef = Fraction(2) ** int(cv)
        else:
            items.append((("exp2", exp), 1))
    items.sort(key=lambda ap: repr((_akey(ap[0]), ap[1])))
    return tuple(items), coef


def exp2(t):
    t = _t(t)
    k, c = _mono_mul(((("exp2", t), 1),), ())
    return Term({k: c})


def _common(terms):
    """largest Term C such that every t - C has no monomial of C (monomials shared with equal coefficient)"""
    first = terms[0].m
    com = {}
    for mono, c in first.items():
        if all(t.m.get(mono) == c for t in terms[1:]):
            com[mono] = c
    return Term(com)


def _mk_ext(kind, args):
    args = [_t(a) for a in args]
    flat = []
    for a in args:
        # flatten nested same-kind atoms that stand alone with coefficient 1
        if len(a.m) == 1:
            (mono, c), = a.m.items()
            if c == 1 and len(mono) == 1 and mono[0][1] == 1 and mono[0][0][0] == kind:
                flat.extend(mono[0][0][1])
                continue
        flat.append(a)
    uniq = []
    for a in flat:
        if a not in uniq:
            uniq.append(a)
    if len(uniq) == 1:
        return uniq[0]
    if all(a.is_const() for a in uniq):
        vals = [a.const_value() for a in uniq]
        return Term.const(max(vals) if kind == "max" else min(vals))
    com = _common(uniq)
    rest = [a - com for a in uniq]
    # drop constants dominated by other constants
    consts = [a for a in rest if a.is_const()]
    if len(consts) > 1:
        keep = (max if kind == "max" else min)(consts, key=lambda a: a.const_value())
        rest = [a for a in rest if not a.is_const()] + [keep]
    rest.sort(key=lambda a: repr(a.key()))
    return Term.atom((kind, tuple(rest))) + com


def tmax(*args):
    return _mk_ext("max", args)


def tmin(*args):
    return _mk_ext("min", args)


def fapp(name, *args):
    return Term.atom(("f", name, tuple(args)))


def t_or(a, b):
    return a + b - a * b


def t_and(a, b):
    return a * b


def t_not(a):
    return Term.const(1) - a


def ite(c, a, b):
    return c * a + (Term.const(1) - c) * b


def _subst_atom(a, mapping):
    if a in mapping:
        return mapping[a]
    k = a[0]
    if k == "exp2":
        return exp2(a[1].subst(mapping))
    if k in ("max", "min"):
        return _mk_ext(k, [t.subst(mapping) for t in a[1]])
    if k == "f":
        return Term.atom(("f", a[1], tuple(t.subst(mapping) if isinstance(t, Term) else t for t in a[2])))
    return Term.atom(a)


def _eval_atom(a, env):
    k = a[0]
    if k in ("v", "b", "p"):
        if a[1] not in env:
            raise KeyError(a[1])
        return Fraction(int(env[a[1]])) if isinstance(env[a[1]], bool) else Fraction(env[a[1]])
    if k == "exp2":
        e = a[1].evaluate(env)
        if e.denominator != 1:
            raise NotATerm("exp2 non-integer")
        return Fraction(2) ** int(e)
    if k == "max":
        return max(t.evaluate(env) for t in a[1])
    if k == "min":
        return min(t.evaluate(env) for t in a[1])
    if k == "f":
        args = [t.evaluate(env) if isinstance(t, Term) else t for t in a[2]]
        if a[1] == "clog2":
            n = args[0]
            if n < 1:
                raise NotATerm("clog2 domain")
            return Fraction((int(-(-n // 1)) - 1).bit_length())
        if a[1] == "cdiv":
            return Fraction(-((-args[0]) // args[1]))
        fk = ("f", a[1])
        if fk in env:
            return Fraction(env[fk](*args))
        raise KeyError(a[1])
    raise ValueError(a)


# --------------------------------------------------------------------------- AST -> Term

def _method_to_np(e):
    """np.f(..).max() -> np.max(np.f(..))  (method spelling of a reduction on an array expression), recursively in the first argument"""
    if isinstance(e, ast.Call) and isinstance(e.func, ast.Attribute) and e.func.attr in ("max", "min") and not e.args and not e.keywords \
            and isinstance(e.func.value, ast.Call) and (dotted(e.func.value.func) or "").startswith("np."):
        return ast.Call(func=ast.Attribute(value=ast.Name(id="np", ctx=ast.Load()), attr=e.func.attr, ctx=ast.Load()), args=[e.func.value], keywords=[])
    if isinstance(e, ast.Call) and dotted(e.func) in ("int", "float") and len(e.args) == 1 and not e.keywords:
        a = _method_to_np(e.args[0])
        if a is not e.args[0]:
            return ast.Call(func=e.func, args=[a], keywords=[])
    return e


class TermBuilder:
    """Convert a (substituted) expression into a Term.

    ``rename``: function dotted-name -> canonical symbol name (or None to keep);
    ``is_bool``: function dotted-name -> bool;  ``env``: name -> ast expr for further substitution.
    """

    def __init__(self, env=None, rename=None, bool_names=None, opaque_ok=True):
        self.env = env or {}
        self.rename = rename or (lambda d: d)
        self.bool_names = set(bool_names or ())
        self.opaque_ok = opaque_ok
        self._depth = 0

    def is_bool(self, d):
        return d in self.bool_names or d.split(".")[-1] in BOOL_LAST

    def sym(self, d):
        d2 = self.rename(d)
        if isinstance(d2, Term):
            return d2
        return Term.bvar(d2) if self.is_bool(d) or self.is_bool(d2) else Term.var(d2)

    def term(self, e):
        self._depth += 1
        try:
            if self._depth > 60:
                raise NotATerm("too deep")
            return self._term(e)
        finally:
            self._depth -= 1

    def _term(self, e):
        if isinstance(e, Term):
            return e
        if isinstance(e, ast.Constant):
            v = e.value
            if isinstance(v, bool):
                return Term.const(int(v))
            if isinstance(v, (int, float)):
                return _t(v)
            if isinstance(v, complex) and v.real == 0:
                return Term.var("J") * _t(v.imag)
            if v is None:
                return Term.var("None")
            raise NotATerm("constant %r" % (v,))
        if isinstance(e, (ast.Name, ast.Attribute)):
            d = dotted(e)
            if d is None:
                # attribute of a call etc: uninterpreted
                return self.opaque(e)
            if isinstance(e, ast.Name) and e.id in self.env:
                return self.term(self.env[e.id])
            if d in self.env:
                return self.term(self.env[d])
            if d == "True":
                return Term.const(1)
            if d == "False":
                return Term.const(0)
            return self.sym(d)
        if isinstance(e, ast.UnaryOp):
            if isinstance(e.op, ast.USub):
                return -self.term(e.operand)
            if isinstance(e.op, ast.UAdd):
                return self.term(e.operand)
            if isinstance(e.op, ast.Not):
                return t_not(self.boolean(e.operand))
            raise NotATerm("unary %s" % type(e.op).__name__)
        if isinstance(e, ast.BinOp):
            return self.binop(e)
        if isinstance(e, ast.BoolOp):
            return self.boolean(e)
        if isinstance(e, ast.Compare):
            return self.boolean(e)
        if isinstance(e, ast.IfExp):
            return ite(self.boolean(e.test), self.term(e.body), self.term(e.orelse))
        if isinstance(e, ast.Call):
            return self.call(e)
        if isinstance(e, ast.Subscript):
            return self.opaque(e)
        raise NotATerm("%s: %s" % (type(e).__name__, src(e)[:60]))

    def opaque(self, e):
        if not self.opaque_ok:
            raise NotATerm("opaque: " + src(e)[:60])
        # X.shape[k] -> symbol 'X.shape[k]' with X renamed, so that aliases of one operand agree
        if isinstance(e, ast.Subscript) and isinstance(e.value, ast.Attribute) and e.value.attr == "shape":
            b = dotted(e.value.value)
            if b is not None:
                b2 = self.rename(b + ".shape")
                return Term.var("%s[%s]" % (b2, src(e.slice)))
        if isinstance(e, ast.Call) and dotted(e.func) == "cumcount" and len(e.args) == 1:
            return Term.var("<cumcount(%s)>" % src(e.args[0]))
        return Term.var("<%s>" % src(e))

    def binop(self, e):
        op = e.op
        if isinstance(op, ast.Pow):
            base = self.term(e.left)
            bv = base.const_value()
            if bv is not None and bv == 2:
                return exp2(self.term(e.right))
            if bv is not None and bv == Fraction(1, 2):
                return exp2(-self.term(e.right))
            ex = self.term(e.right)
            ev = ex.const_value()
            if ev is not None and ev.denominator == 1 and ev >= 0:
                return base ** int(ev)
            if ev is not None and ev.denominator == 1 and ev < 0:
                return base.inverse() ** int(-ev)
            return fapp("pow", base, ex)
        if isinstance(op, ast.LShift):
            return self.term(e.left) * exp2(self.term(e.right))
        if isinstance(op, ast.RShift):
            lt, rt = self.term(e.left), self.term(e.right)
            rv = rt.const_value()
            if rv is not None and len(lt.m) == 1:
                (mono, c), = lt.m.items()
                if c == 1 and len(mono) == 1 and mono[0][0][0] == "exp2":
                    return exp2(mono[0][0][1] - rt)     # 2^L >> k = 2^(L-k)  (L >= k assumed: word lengths >= 1)
            return fapp("floor", lt * exp2(-rt))
        l = self.term(e.left)
        r = self.term(e.right)
        if isinstance(op, ast.Add):
            return l + r
        if isinstance(op, ast.Sub):
            return l - r
        if isinstance(op, ast.Mult):
            return l * r
        if isinstance(op, ast.Div):
            rv = r.const_value()
            if rv is not None:
                if rv == 0:
                    raise NotATerm("division by zero")
                return l * Term.const(1 / rv)
            try:
                return l * r.inverse()
            except NotATerm:
                return fapp("div", l, r)
        if isinstance(op, ast.FloorDiv):
            return fapp("floordiv", l, r)
        if isinstance(op, ast.Mod):
            return fapp("mod", l, r)
        if isinstance(op, ast.BitAnd):
            return fapp("and", l, r)
        if isinstance(op, ast.BitOr):
            return fapp("or", l, r)
        if isinstance(op, ast.BitXor):
            return fapp("xor", l, r)
        raise NotATerm("binop %s" % type(op).__name__)

    def boolean(self, e):
        """indicator Term (0/1 valued) of a boolean expression"""
        if isinstance(e, ast.BoolOp):
            vals = [self.boolean(v) for v in e.values]
            r = vals[0]
            for v in vals[1:]:
                r = t_or(r, v) if isinstance(e.op, ast.Or) else t_and(r, v)
            return r
        if isinstance(e, ast.UnaryOp) and isinstance(e.op, ast.Not):
            return t_not(self.boolean(e.operand))
        if isinstance(e, ast.Constant) and isinstance(e.value, bool):
            return Term.const(int(e.value))
        if isinstance(e, ast.Compare) and len(e.ops) == 1:
            return self.compare(e)
        if isinstance(e, (ast.Name, ast.Attribute)):
            d = dotted(e)
            if d is not None:
                if isinstance(e, ast.Name) and e.id in self.env:
                    return self.boolean(self.env[e.id])
                if d in self.env:
                    return self.boolean(self.env[d])
                if d == "True":
                    return Term.const(1)
                if d == "False":
                    return Term.const(0)
                d2 = self.rename(d)
                if isinstance(d2, Term):
                    return d2
                return Term.bvar(d2)
        if isinstance(e, ast.Call):
            fn = dotted(e.func)
            if fn in ("bool", "int") and len(e.args) == 1:
                return self.boolean(e.args[0])
            if fn in ("np.any", "any") and len(e.args) == 1 and isinstance(e.args[0], ast.ListComp):
                lc = e.args[0]
                # bool(np.any([v.signed for v in [x, y]])) -> or over the list
                return self._any_listcomp(lc)
        if isinstance(e, ast.IfExp):
            return ite(self.boolean(e.test), self.boolean(e.body), self.boolean(e.orelse))
        return Term.pred(src(e))

    def _any_listcomp(self, lc):
        items = self._expand_comp(lc)
        if items is None:
            return Term.pred(src(lc))
        r = Term.const(0)
        for it in items:
            r = t_or(r, self.boolean(it))
        return r

    def _expand_comp(self, lc):
        """[f(v) for v in [a, b]] -> [f(a), f(b)] when the iterable is a literal list (after env)"""
        if len(lc.generators) != 1 or lc.generators[0].ifs:
            return None
        g = lc.generators[0]
        it = g.iter
        if isinstance(it, ast.Name) and it.id in self.env:
            it = self.env[it.id]
        if not isinstance(it, (ast.List, ast.Tuple)) or not isinstance(g.target, ast.Name):
            return None
        from .paths import subst
        return [subst(lc.elt, {g.target.id: el}) for el in it.elts]

    def compare(self, e):
        op = e.ops[0]
        l, r = e.left, e.comparators[0]
        if isinstance(op, (ast.Is, ast.IsNot)) and isinstance(r, ast.Constant) and r.value is None:
            d = dotted(l)
            if d is not None and d in self.env:
                v = self.env[d]
                if isinstance(v, ast.Constant):
                    val = 1 if v.value is None else 0
                    return Term.const(val if isinstance(op, ast.Is) else 1 - val)
            p = Term.pred("%s is None" % (self.rename(d) if d else src(l)))
            return p if isinstance(op, ast.Is) else t_not(p)
        try:
            lt, rt = self.term(l), self.term(r)
        except NotATerm:
            return Term.pred(src(e))
        d = lt - rt
        dv = d.const_value()
        table = {ast.Lt: lambda v: v < 0, ast.LtE: lambda v: v <= 0, ast.Gt: lambda v: v > 0,
                 ast.GtE: lambda v: v >= 0, ast.Eq: lambda v: v == 0, ast.NotEq: lambda v: v != 0}
        if dv is not None and type(op) in table:
            return Term.const(int(table[type(op)](dv)))
        # canonical direction: a < b ; a <= b ; a == b  (with negation as 1 - .)
        if isinstance(op, ast.Lt):
            return Term.pred("%s < %s" % (lt.show(), rt.show()))
        if isinstance(op, ast.GtE):
            return t_not(Term.pred("%s < %s" % (lt.show(), rt.show())))
        if isinstance(op, ast.Gt):
            return Term.pred("%s < %s" % (rt.show(), lt.show()))
        if isinstance(op, ast.LtE):
            return t_not(Term.pred("%s < %s" % (rt.show(), lt.show())))
        if isinstance(op, (ast.Eq, ast.NotEq)):
            a, b = sorted([lt.show(), rt.show()])
            p = Term.pred("%s == %s" % (a, b))
            return p if isinstance(op, ast.Eq) else t_not(p)
        return Term.pred(src(e))

    def call(self, e):
        e = _method_to_np(e)
        fn = dotted(e.func)
        args = e.args
        if fn in ("int", "float", "bool", "np.int64", "np.array", "np.asarray", "abs_id") and len(args) >= 1 and fn != "abs_id":
            a = args[0]
            if fn == "bool" or isinstance(a, (ast.BoolOp, ast.Compare)):
                return self.boolean(a)
            # int(np.ceil(np.log2(N))) etc
            inner = self._ceil_patterns(a) if fn == "int" else None
            if inner is not None:
                return inner
            if fn == "int" and isinstance(a, ast.Call) and dotted(a.func) in ("np.max", "np.amax") and len(a.args) == 1:
                inner = self._ceil_patterns(a.args[0])
                if inner is not None:
                    return fapp("amax", inner)
            return self.term(a)
        if fn in ("max", "min", "np.maximum", "np.minimum"):
            items = None
            if len(args) == 1 and isinstance(args[0], ast.ListComp):
                items = self._expand_comp(args[0])
            elif len(args) == 1 and isinstance(args[0], (ast.List, ast.Tuple)):
                items = args[0].elts
            elif len(args) >= 2:
                items = args
            if items is not None:
                ts = [self.term(a) for a in items]
                return tmax(*ts) if fn in ("max", "np.maximum") else tmin(*ts)
        cp = self._ceil_patterns(e)
        if cp is not None:
            return cp
        if fn in ("np.power",) and len(args) == 2:
            return self.binop(ast.BinOp(left=args[0], op=ast.Pow(), right=args[1]))
        if fn in ("abs", "np.abs") and len(args) == 1:
            return fapp("abs", self.term(args[0]))
        if fn in ("np.max", "np.amax") and len(args) == 1:
            return fapp("amax", self.term(args[0]))
        if fn in ("np.min", "np.amin") and len(args) == 1:
            return fapp("amin", self.term(args[0]))
        # method-style astype(int) etc
        if isinstance(e.func, ast.Attribute) and e.func.attr in ("astype",) and dotted(e.func.value) is None:
            return self.term(e.func.value)
        return self.opaque(e)

    def _ceil_patterns(self, e):
        """np.ceil(np.log2(N)) -> clog2(N); np.ceil(w/4) -> cdiv(w,4); math.* alike"""
        if not isinstance(e, ast.Call):
            return None
        fn = dotted(e.func)
        if fn in ("np.ceil", "math.ceil") and len(e.args) == 1:
            a = e.args[0]
            if isinstance(a, ast.Call) and dotted(a.func) in ("np.log2", "math.log2") and len(a.args) == 1:
                inner = a.args[0]
                # np.log2(np.abs(v)+0.5) -> bitlen(v)
                if isinstance(inner, ast.BinOp) and isinstance(inner.op, ast.Add) and isinstance(inner.right, ast.Constant) and inner.right.value == 0.5 \
                        and isinstance(inner.left, ast.Call) and dotted(inner.left.func) in ("np.abs", "abs") and len(inner.left.args) == 1:
                    return fapp("bitlen", self.term(inner.left.args[0]))
                return fapp("clog2", self.term(inner))
            if isinstance(a, ast.BinOp) and isinstance(a.op, ast.Div):
                den = self.term(a.right).const_value()
                if den is not None and den.denominator == 1 and den > 0:
                    return fapp("cdiv", self.term(a.left), Term.const(den))
        return None


def term_of(expr, **kw):
    return TermBuilder(**kw).term(expr)


# --------------------------------------------------------------------------- ordering

class Facts:
    """Sign facts used by the ordering decision (Appendix B)."""

    def __init__(self, nonneg_syms=(), ge=()):
        self.nonneg_syms = set(nonneg_syms)   # symbol names known >= 0
        self.ge = list(ge)                    # (Term a, Term b): a >= b

    def atom_nonneg(self, a):
        k = a[0]
        if k in ("b", "p"):
            return True
        if k == "exp2":
            return True
        if k == "v":
            return a[1] in self.nonneg_syms
        if k == "f" and a[1] in ("clog2", "bitlen_nonneg", "size"):
            return True
        if k in ("max", "min"):
            return all(nonneg(t, self) for t in a[1]) if k == "min" else any(nonneg(t, self) for t in a[1])
        return False


def nonneg(t, facts=None, depth=0):
    """sound (incomplete) proof that t >= 0 for all admissible assignments; boolean atoms are
    case-split, monomials certified by sign facts, max/min by membership (max(S) >= e for e in S)."""
    facts = facts or Facts()
    t = _t(t)
    # case split on boolean atoms (few)
    bools = sorted({a for a in t.all_atoms() if a[0] in ("b", "p")}, key=repr)
    if bools and depth < 1:
        if len(bools) > 8:
            return False
        for vals in product((0, 1), repeat=len(bools)):
            sub = t.subst({a: Term.const(v) for a, v in zip(bools, vals)})
            if not nonneg(sub, facts, depth + 1):
                return False
        return True
    if t.is_const():
        return t.const_value() >= 0
    # every monomial non-negative?
    def mono_ok(mono, c):
        if c < 0:
            return False
        return all(facts.atom_nonneg(a) or p % 2 == 0 for a, p in mono)
    if all(mono_ok(mo, c) for mo, c in t.m.items()):
        return True
    if depth > 6:
        return False
    # max(S) - e >= 0 : replace a positive max atom by one of its members / negative min atom
    for mono, c in t.m.items():
        if len(mono) == 1 and mono[0][1] == 1:
            a = mono[0][0]
            if a[0] == "max" and c > 0:
                for e in a[1]:
                    if nonneg(t - Term({mono: c}) + e * Term.const(c), facts, depth + 1):
                        return True
            if a[0] == "min" and c < 0:
                for e in a[1]:
                    if nonneg(t - Term({mono: c}) + e * Term.const(c), facts, depth + 1):
                        return True
            if a[0] == "min" and c > 0:
                if all(nonneg(t - Term({mono: c}) + e * Term.const(c), facts, depth + 1) for e in a[1]):
                    return True
            if a[0] == "max" and c < 0:
                if all(nonneg(t - Term({mono: c}) + e * Term.const(c), facts, depth + 1) for e in a[1]):
                    return True
    # explicit facts a >= b : t - k*(a-b) for k=1
    for a, b in facts.ge:
        d = a - b
        if d.m and depth < 4:
            if set(d.m) & set(t.m):
                if nonneg(t - d, facts, depth + 2):
                    return True
    return False


GRID_SIZES = (1, 2, 3, 4, 7, 8, 16, 31, 32, 33, 64)


_WIT = {}


def witness(a, b, limit=1500, extra=None):
    """first grid assignment on which terms a and b evaluate differently (reporting only)"""
    k = (a.key(), b.key())
    if k not in _WIT:
        _WIT[k] = _witness(a, b, limit, extra)
    return _WIT[k]


def _witness(a, b, limit=1500, extra=None):
    syms = sorted(set(a.symbols()) | set(b.symbols()))
    atoms = {x[1]: x[0] for x in (a.all_atoms() | b.all_atoms()) if x[0] in ("v", "b", "p")}
    doms = []
    for s in syms:
        if atoms.get(s) in ("b", "p"):
            doms.append((0, 1))
        else:
            doms.append(GRID_SIZES[:6])
    n = 0
    for vals in product(*doms):
        n += 1
        if n > limit:
            break
        env = dict(zip(syms, vals))
        if extra:
            env.update(extra)
        try:
            va, vb = a.evaluate(env), b.evaluate(env)
        except Exception:
            continue
        if va != vb:
            return {"assignment": {k: int(v) for k, v in zip(syms, vals)}, "found": str(va), "expected": str(vb)}
    return None


def equiv(a, b, limit=256):
    """a == b for every 0/1 assignment of the boolean atoms (needed when indicators sit inside max/min).
    Returns (True, None) or (False, assignment-of-booleans)."""
    if a == b:
        return True, None
    bools = sorted({x for x in (a.all_atoms() | b.all_atoms()) if x[0] in ("b", "p")}, key=repr)
    if not bools or 2 ** len(bools) > limit:
        return False, None
    for vals in product((0, 1), repeat=len(bools)):
        m = {x: Term.const(v) for x, v in zip(bools, vals)}
        if a.subst(m) != b.subst(m):
            return False, {x[1]: v for x, v in zip(bools, vals)}
    return True, None
