"""A3/A4 - structured path enumeration and per-path (SSA by construction) substitution.

Python has no goto, so the CFG of a function is given by its statement nesting; paths are
enumerated directly over the nesting (loops taken 0 and 1 times).  On a path every use
has exactly one reaching definition, so provenance is plain substitution: the environment
maps a local name or an attribute path rooted at a name ('self.val') to the expression,
already expressed over the function's inputs, that defines it on this path.

Nothing is executed; expressions are rewritten, never evaluated.
"""
import ast
import copy

from .model import dotted, src, AnalysisError


import re as _re
_TOK = _re.compile(r"[A-Za-z_][A-Za-z_0-9]*(?:\.[A-Za-z_][A-Za-z_0-9]*)*")


class Ev:
    """One event on a path."""
    __slots__ = ("kind", "stmt", "a", "b")

    def __init__(self, kind, stmt, a=None, b=None):
        self.kind = kind    # assign | aug | expr | guard | return | raise | iter | loop0 | def | except | end | with
        self.stmt = stmt
        self.a = a
        self.b = b

    def __repr__(self):
        return "Ev(%s@%s)" % (self.kind, getattr(self.stmt, "lineno", "?"))


class PathCap(Exception):
    pass


def _guard_key(test):
    """(key, polarity) with 'not' stripped, for contradiction pruning."""
    pol = True
    while isinstance(test, ast.UnaryOp) and isinstance(test.op, ast.Not):
        test = test.operand
        pol = not pol
    # 'x is not None' -> ('x is None', False)
    if isinstance(test, ast.Compare) and len(test.ops) == 1:
        op = test.ops[0]
        l, r = test.left, test.comparators[0]
        if isinstance(op, ast.IsNot):
            return ("%s is %s" % (src(l), src(r)), not pol)
        if isinstance(op, ast.NotEq):
            return ("%s == %s" % (src(l), src(r)), not pol)
        if isinstance(op, ast.NotIn):
            return ("%s in %s" % (src(l), src(r)), not pol)
    return (src(test), pol)


def _names_in(node):
    out = set()
    for n in ast.walk(node):
        if isinstance(n, ast.Name):
            out.add(n.id)
    return out


def _assigned_roots(stmt):
    """dotted paths (or bare names) written by an assignment-like statement: 'x', 'self.upper'"""
    out = set()
    tg = []
    if isinstance(stmt, ast.Assign):
        tg = stmt.targets
    elif isinstance(stmt, (ast.AugAssign, ast.AnnAssign)):
        tg = [stmt.target]
    elif isinstance(stmt, (ast.For,)):
        tg = [stmt.target]

    def add(t):
        if isinstance(t, (ast.Tuple, ast.List)):
            for e in t.elts:
                add(e)
        elif isinstance(t, ast.Starred):
            add(t.value)
        elif isinstance(t, ast.Name):
            out.add(t.id)
        elif isinstance(t, ast.Attribute):
            d = dotted(t)
            if d:
                out.add(d)
            else:
                for n in ast.walk(t):
                    if isinstance(n, ast.Name):
                        out.add(n.id)
        elif isinstance(t, ast.Subscript):
            d = dotted(t.value)
            if d:
                out.add(d)
    for t in tg:
        add(t)
    return out


def _escapes(stmt):
    """can control leave this compound statement other than by falling through?
    (return/raise anywhere inside; break/continue that target an enclosing loop)"""
    def walk(nodes, in_loop):
        for n in nodes:
            if isinstance(n, (ast.Return, ast.Raise)):
                return True
            if isinstance(n, (ast.Break, ast.Continue)) and not in_loop:
                return True
            if isinstance(n, (ast.FunctionDef, ast.AsyncFunctionDef, ast.ClassDef, ast.Lambda)):
                continue
            inner_loop = in_loop or isinstance(n, (ast.For, ast.While, ast.AsyncFor))
            for fld in ("body", "orelse", "finalbody"):
                v = getattr(n, fld, None)
                if isinstance(v, list) and walk(v, inner_loop):
                    return True
            for h in getattr(n, "handlers", []) or []:
                if walk(h.body, inner_loop):
                    return True
        return False
    if isinstance(stmt, (ast.For, ast.While, ast.AsyncFor)):
        return walk(stmt.body, True) or walk(stmt.orelse, False)
    return walk(getattr(stmt, "body", []), False) or walk(getattr(stmt, "orelse", []), False)


def enum_paths(body, cap=20000, prune=True):
    """All acyclic paths (loops 0/1 times) through a statement list.

    Returns list of lists of Ev; each path ends with Ev('return'|'raise'|'end').
    Raises PathCap when more than ``cap`` complete paths exist.
    """
    done = []

    class _Break(Exception):
        pass

    def consistent(facts, key, pol):
        return facts.get(key, pol) == pol

    def kill(facts, roots):
        if not roots or not facts:
            return facts
        out = {}
        for k, v in facts.items():
            toks = _tokens(k)
            dead = False
            for r in roots:
                for t in toks:
                    if t == r or t.startswith(r + "."):
                        dead = True
                        break
                if dead:
                    break
            if not dead:
                out[k] = v
        return out

    def _tokens(key):
        # dotted identifiers in the key string
        return _TOK.findall(key)

    # continuation-passing enumeration: run(stmts, i, prefix, facts, conts)
    # conts: stack of (kind, payload) describing what follows the current block
    def run(stmts, i, prefix, facts, k):
        """k: function(prefix, facts, how) called when block falls through (how='fall'),
        or with how='break'/'continue' for loop control."""
        if len(done) > cap:
            raise PathCap()
        if i >= len(stmts):
            return k(prefix, facts, "fall")
        s = stmts[i]
        nxt = lambda p, f, how="fall": (run(stmts, i + 1, p, f, k) if how == "fall" else k(p, f, how))
        if isinstance(s, (ast.Assign, ast.AnnAssign)):
            if isinstance(s, ast.AnnAssign) and s.value is None:
                return nxt(prefix, facts)
            return nxt(prefix + [Ev("assign", s)], kill(facts, _assigned_roots(s)))
        if isinstance(s, ast.AugAssign):
            return nxt(prefix + [Ev("aug", s)], kill(facts, _assigned_roots(s)))
        if isinstance(s, ast.Expr):
            return nxt(prefix + [Ev("expr", s)], facts)
        if isinstance(s, ast.Return):
            done.append(prefix + [Ev("return", s)])
            return
        if isinstance(s, ast.Raise):
            done.append(prefix + [Ev("raise", s)])
            return
        if isinstance(s, ast.If):
            key, pol = _guard_key(s.test)
            esc = _escapes(s)

            def endif(p, f, how="fall"):
                if how == "fall":
                    return nxt(p + [Ev("endif", s, esc)], f)
                return k(p, f, how)
            for branch, bpol in ((s.body, True), (s.orelse, False)):
                p = pol if bpol else (not pol)
                if prune and not consistent(facts, key, p):
                    continue
                f2 = dict(facts)
                f2[key] = p
                run(branch, 0, prefix + [Ev("guard", s, s.test, bpol)], f2, endif)
            return
        if isinstance(s, ast.Assert):
            return nxt(prefix + [Ev("guard", s, s.test, True)], facts)
        if isinstance(s, (ast.For, ast.AsyncFor)):
            # zero iterations
            def after(p, f, how="fall"):
                return nxt(p, f)
            run(s.orelse, 0, prefix + [Ev("loop0", s)], facts, nxt)
            # one iteration
            def body_k(p, f, how):
                if how in ("fall", "continue"):
                    return run(s.orelse, 0, p + [Ev("endif", s, _escapes(s))], f, nxt)
                if how == "break":
                    return nxt(p + [Ev("endif", s, _escapes(s))], f)
                return k(p, f, how)
            run(s.body, 0, prefix + [Ev("iter", s)], kill(facts, _assigned_roots(s)), body_k)
            return
        if isinstance(s, ast.While):
            key, pol = _guard_key(s.test)
            if not prune or consistent(facts, key, not pol):
                f0 = dict(facts)
                f0[key] = not pol
                run(s.orelse, 0, prefix + [Ev("guard", s, s.test, False), Ev("endif", s, _escapes(s))], f0, nxt)
            if not prune or consistent(facts, key, pol):
                f1 = dict(facts)
                f1[key] = pol

                def wbody_k(p, f, how):
                    if how in ("fall", "continue"):
                        return nxt(p + [Ev("loopexit", s), Ev("endif", s, _escapes(s))], {})
                    if how == "break":
                        return nxt(p + [Ev("endif", s, _escapes(s))], f)
                    return k(p, f, how)
                run(s.body, 0, prefix + [Ev("guard", s, s.test, True)], f1, wbody_k)
            return
        if isinstance(s, ast.Break):
            return k(prefix, facts, "break")
        if isinstance(s, ast.Continue):
            return k(prefix, facts, "continue")
        if isinstance(s, ast.Try) or (hasattr(ast, "TryStar") and isinstance(s, getattr(ast, "TryStar"))):
            def fin(p, f, how="fall"):
                if how != "fall":
                    return k(p, f, how)
                return run(s.finalbody, 0, p, f, nxt)

            def after_body(p, f, how="fall"):
                if how != "fall":
                    return k(p, f, how)
                return run(s.orelse, 0, p, f, fin)
            run(s.body, 0, prefix + [Ev("try", s)], facts, after_body)
            for h in s.handlers:
                run(h.body, 0, prefix + [Ev("except", s, h)], {}, fin)
            return
        if isinstance(s, (ast.With, ast.AsyncWith)):
            return run(s.body, 0, prefix + [Ev("with", s)], facts, nxt)
        if isinstance(s, (ast.FunctionDef, ast.AsyncFunctionDef, ast.ClassDef)):
            return nxt(prefix + [Ev("def", s)], kill(facts, {s.name}))
        if isinstance(s, (ast.Import, ast.ImportFrom, ast.Pass, ast.Global, ast.Nonlocal, ast.Delete)):
            return nxt(prefix, facts)
        if hasattr(ast, "Match") and isinstance(s, ast.Match):
            for c in s.cases:
                run(c.body, 0, prefix + [Ev("guard", s, s.subject, True)], {}, nxt)
            return
        raise AnalysisError("statement kind outside the path vocabulary: %s at line %s" % (type(s).__name__, getattr(s, "lineno", "?")))

    def top_k(prefix, facts, how):
        done.append(prefix + [Ev("end", None)])

    run(body, 0, [], {}, top_k)
    if len(done) > cap:
        raise PathCap()
    return done


# --------------------------------------------------------------------------- substitution

def _bound_names(node):
    out = set()
    if isinstance(node, ast.Lambda):
        a = node.args
        for x in a.posonlyargs + a.args + a.kwonlyargs:
            out.add(x.arg)
        if a.vararg:
            out.add(a.vararg.arg)
        if a.kwarg:
            out.add(a.kwarg.arg)
    else:
        for g in node.generators:
            out |= _names_in(g.target)
    return out


def subst(node, env):
    """Functional substitution: returns ``node`` itself when nothing below it changes, otherwise a
    shallow rebuild of the spine. Environment values are shared, never copied or mutated."""
    if not env:
        return node
    return _sub(node, env)


def _sub(node, env):
    if isinstance(node, ast.Name):
        if isinstance(node.ctx, ast.Load) and node.id in env:
            return env[node.id]
        return node
    if isinstance(node, ast.Attribute):
        if isinstance(node.ctx, ast.Load):
            d = dotted(node)
            if d is not None and d in env:
                return env[d]
    if isinstance(node, (ast.Lambda, ast.ListComp, ast.SetComp, ast.GeneratorExp, ast.DictComp)):
        bound = _bound_names(node)
        if bound:
            env = {k: v for k, v in env.items() if k.split(".")[0] not in bound}
            if not env:
                return node
    if isinstance(node, ast.Constant):
        return node
    changed = None
    for fld, old in ast.iter_fields(node):
        if isinstance(old, ast.AST):
            if isinstance(old, (ast.expr_context, ast.operator, ast.unaryop, ast.cmpop, ast.boolop)):
                continue
            new = _sub(old, env)
            if new is not old:
                if changed is None:
                    changed = {}
                changed[fld] = new
        elif isinstance(old, list) and old:
            newl = None
            for i, it in enumerate(old):
                if isinstance(it, ast.AST):
                    ni = _sub(it, env)
                    if ni is not it:
                        if newl is None:
                            newl = list(old)
                        newl[i] = ni
            if newl is not None:
                if changed is None:
                    changed = {}
                changed[fld] = newl
    if changed is None:
        return node
    kwargs = {f: changed.get(f, v) for f, v in ast.iter_fields(node)}
    new = type(node)(**kwargs)
    return ast.copy_location(new, node) if hasattr(node, "lineno") else new


def _elem(call_like, i):
    return ast.Subscript(value=call_like, slice=ast.Constant(value=i), ctx=ast.Load())


class Store:
    __slots__ = ("target", "path", "sub", "value", "raw_value", "guards", "stmt", "aug", "prior")

    def __init__(self, target, path, sub, value, raw_value, guards, stmt, aug=None):
        self.target = target      # original target node
        self.path = path          # dotted path of attribute/name target ('self.val'), for subscript: path of the base
        self.sub = sub            # substituted slice expr for subscript stores, else None
        self.value = value        # substituted value expr
        self.raw_value = raw_value
        self.guards = guards      # control guards: list of (substituted test, polarity, raw test, if-stmt)
        self.stmt = stmt
        self.aug = aug
        self.prior = []


class CallEv:
    __slots__ = ("call", "raw", "guards", "stmt", "idx", "prior")

    def __init__(self, call, raw, guards, stmt, idx):
        self.call = call      # substituted call expr
        self.raw = raw        # original call node
        self.guards = guards
        self.stmt = stmt
        self.idx = idx        # position in path's event order


class PathFacts:
    """Result of walking one path with substitution."""

    def __init__(self):
        self.stores = []     # Store, in order
        self.calls = []      # CallEv, in order
        self.ret = None      # substituted return expr (or None)
        self.ret_stmt = None
        self.end = None      # 'return' | 'raise' | 'end'
        self.guards = []     # all guards on path (substituted, polarity, raw)
        self.env = {}
        self.order = []      # interleaved ('store'|'call', obj)
        self.zero_loops = 0  # loops taken zero times on this path


def _calls_in_order(node):
    out = []

    def visit(n):
        if isinstance(n, (ast.Lambda, ast.FunctionDef, ast.AsyncFunctionDef)):
            return
        for c in ast.iter_child_nodes(n):
            visit(c)
        if isinstance(n, ast.Call):
            out.append(n)
    visit(node)
    return out


def walk_path(path, params=(), init_env=None, kill_attr_on_call=None):
    """Substitute along one path. ``kill_attr_on_call(call_node) -> iterable of dotted attr paths``
    lets a rule say which attribute definitions a call invalidates (mod/ref summary)."""
    env = dict(init_env or {})
    pf = PathFacts()
    guards = []      # enclosing (open) guards
    closed = []      # guards of completed compound statements that can escape
    n = 0

    def record_calls(raw_expr, stmt):
        nonlocal n
        for c in _calls_in_order(raw_expr):
            ce = CallEv(subst(c, env), c, list(guards), stmt, n)
            ce.prior = list(closed)
            n += 1
            pf.calls.append(ce)
            pf.order.append(("call", ce))
            if kill_attr_on_call is not None:
                for d in kill_attr_on_call(c) or ():
                    env.pop(d, None)

    def bind(target, value_sub, raw_value, stmt, aug=None):
        nonlocal n
        if isinstance(target, ast.Name):
            env[target.id] = value_sub
            # a rebinding of a root invalidates attribute paths below it
            for k in [k for k in env if k.startswith(target.id + ".")]:
                del env[k]
            st = Store(target, target.id, None, value_sub, raw_value, list(guards), stmt, aug)
        elif isinstance(target, ast.Attribute):
            d = dotted(target)
            if d is None:
                # attribute of a complex expression: record with substituted base text
                d = src(subst(target, env))
            else:
                # express the base through env (y.val where y -> expr) only for reporting
                pass
            env[d] = value_sub
            for k in [k for k in env if k.startswith(d + ".")]:
                del env[k]
            st = Store(target, d, None, value_sub, raw_value, list(guards), stmt, aug)
        elif isinstance(target, ast.Subscript):
            d = dotted(target.value) or src(subst(target.value, env))
            st = Store(target, d, subst(target.slice, env), value_sub, raw_value, list(guards), stmt, aug)
        elif isinstance(target, (ast.Tuple, ast.List)):
            for i, t in enumerate(target.elts):
                if isinstance(t, ast.Starred):
                    bind(t.value, ast.Call(func=ast.Name(id="$rest", ctx=ast.Load()), args=[value_sub], keywords=[]), raw_value, stmt)
                elif isinstance(value_sub, (ast.Tuple, ast.List)) and len(value_sub.elts) == len(target.elts):
                    bind(t, value_sub.elts[i], raw_value, stmt)
                else:
                    bind(t, _elem(value_sub, i), raw_value, stmt)
            return
        else:
            return
        st.prior = list(closed)
        n += 1
        pf.stores.append(st)
        pf.order.append(("store", st))

    for ev in path:
        s = ev.stmt
        if ev.kind == "assign":
            value = s.value
            record_calls(value, s)
            v = subst(value, env)
            targets = s.targets if isinstance(s, ast.Assign) else [s.target]
            for t in targets:
                if isinstance(t, ast.Subscript):
                    record_calls(t, s)
                bind(t, v, value, s)
        elif ev.kind == "aug":
            record_calls(s.value, s)
            cur = subst(_load(s.target), env)
            v = ast.BinOp(left=cur, op=s.op, right=subst(s.value, env))
            bind(s.target, v, s.value, s, aug=s.op)
        elif ev.kind == "expr":
            record_calls(s.value, s)
            # L.append(v) on a local list literal: model as L = L + [v]
            c = s.value
            if isinstance(c, ast.Call) and isinstance(c.func, ast.Attribute) and c.func.attr == "append" and isinstance(c.func.value, ast.Name) \
                    and len(c.args) == 1 and isinstance(env.get(c.func.value.id), ast.List):
                old = env[c.func.value.id]
                env[c.func.value.id] = ast.List(elts=list(old.elts) + [subst(c.args[0], env)], ctx=ast.Load())
        elif ev.kind == "guard":
            record_calls(ev.a, s)
            g = (subst(ev.a, env), ev.b, ev.a, s)
            guards.append(g)
            pf.guards.append(g)
            if isinstance(s, ast.While) and not ev.b:
                pf.zero_loops += 1
        elif ev.kind == "endif":
            # leaving the compound statement: its guard no longer encloses what follows; when some
            # branch of it can escape (return/raise/break) it is remembered as a *prior* guard
            if ev.a:
                closed.extend(g for g in guards if g[3] is s)
            guards[:] = [g for g in guards if g[3] is not s]
        elif ev.kind == "iter":
            record_calls(s.iter, s)
            it = ast.Call(func=ast.Name(id="$elem", ctx=ast.Load()), args=[subst(s.iter, env)], keywords=[])
            bind(s.target, it, s.iter, s)
            g = (ast.Call(func=ast.Name(id="$nonempty", ctx=ast.Load()), args=[subst(s.iter, env)], keywords=[]), True, s.iter, s)
            guards.append(g)
            pf.guards.append(g)
        elif ev.kind == "loop0":
            record_calls(s.iter, s)
            pf.zero_loops += 1
        elif ev.kind == "loopexit":
            # after a while-body: values assigned in the body are loop-carried; forget them
            for r in _assigned_in(s.body):
                env[r] = ast.Call(func=ast.Name(id="$loop", ctx=ast.Load()), args=[ast.Constant(value=r)], keywords=[])
        elif ev.kind == "def":
            env.pop(s.name, None)
        elif ev.kind == "with":
            for it in s.items:
                record_calls(it.context_expr, s)
                if it.optional_vars is not None:
                    bind(it.optional_vars, subst(it.context_expr, env), it.context_expr, s)
        elif ev.kind == "except":
            h = ev.a
            if h.name:
                env[h.name] = ast.Name(id="$exc", ctx=ast.Load())
            g = (ast.Name(id="$exception", ctx=ast.Load()), True, None, s)
            guards.append(g)
            pf.guards.append(g)
        elif ev.kind == "return":
            pf.end = "return"
            pf.ret_stmt = s
            if s.value is not None:
                record_calls(s.value, s)
                pf.ret = subst(s.value, env)
        elif ev.kind == "raise":
            pf.end = "raise"
            pf.ret_stmt = s
        elif ev.kind == "end":
            pf.end = "end"
    pf.env = env
    return pf


def _load(target):
    t = copy.deepcopy(target)
    for n in ast.walk(t):
        if hasattr(n, "ctx"):
            n.ctx = ast.Load()
    return t


def _assigned_in(stmts):
    out = set()
    for st in stmts:
        for n in ast.walk(st):
            if isinstance(n, (ast.Assign, ast.AugAssign, ast.AnnAssign, ast.For)):
                out |= _assigned_roots(n)
    return out


# --------------------------------------------------------------------------- structural must-pass-through

def outcomes(stmts, pred, hit=False):
    """Structural dataflow of one boolean ("a statement satisfying ``pred`` has executed").

    Returns the set of (kind, hit) with kind in fall/return/raise/break/continue that the
    statement list can end in when entered with ``hit``.  Loops may run zero times; an
    exception handler is entered with the hit state of the try entry (conservative).
    Used for functions whose path count is above the enumeration cap (``resize``)."""
    cur = {hit}
    res = set()
    for s in stmts:
        if not cur:
            break
        nxt = set()
        for h in cur:
            if isinstance(s, ast.Return):
                res.add(("return", h or pred(s)))
            elif isinstance(s, ast.Raise):
                res.add(("raise", h))
            elif isinstance(s, ast.If):
                for br in (s.body, s.orelse):
                    for k, h2 in outcomes(br, pred, h):
                        (nxt if k == "fall" else res).add(h2 if k == "fall" else (k, h2))
            elif isinstance(s, (ast.For, ast.While, ast.AsyncFor)):
                nxt.add(h)
                for k, h2 in outcomes(s.body, pred, h):
                    if k in ("fall", "break", "continue"):
                        for k3, h3 in outcomes(s.orelse, pred, h2):
                            (nxt if k3 == "fall" else res).add(h3 if k3 == "fall" else (k3, h3))
                        nxt.add(h2)
                    else:
                        res.add((k, h2))
            elif isinstance(s, ast.Try):
                ends = set()
                for k, h2 in outcomes(s.body, pred, h):
                    if k == "fall":
                        for k3, h3 in outcomes(s.orelse, pred, h2):
                            ends.add((k3, h3))
                    else:
                        ends.add((k, h2))
                for hd in s.handlers:
                    for k, h2 in outcomes(hd.body, pred, h):
                        ends.add((k, h2))
                for k, h2 in ends:
                    for k3, h3 in outcomes(s.finalbody, pred, h2):
                        if k3 == "fall":
                            (nxt if k == "fall" else res).add(h3 if k == "fall" else (k, h3))
                        else:
                            res.add((k3, h3))
            elif isinstance(s, (ast.With, ast.AsyncWith)):
                for k, h2 in outcomes(s.body, pred, h):
                    (nxt if k == "fall" else res).add(h2 if k == "fall" else (k, h2))
            elif isinstance(s, ast.Break):
                res.add(("break", h))
            elif isinstance(s, ast.Continue):
                res.add(("continue", h))
            else:
                nxt.add(h or pred(s))
        cur = nxt
    for h in cur:
        res.add(("fall", h))
    return res


def always_before_exit(stmts, pred):
    """every normal exit (fall off the end or return) has executed a ``pred`` statement"""
    return all(h for k, h in outcomes(stmts, pred) if k in ("fall", "return"))
