"""A3/A4 - structured path enumeration with control dependence, helper inlining and per-path substitution.

Python has no goto, so the CFG of a function is given by its statement nesting; paths are enumerated directly over the nesting
(loops over unknown iterables 0 and 1 times, loops over literal tuples unrolled).  Before enumeration the body is normalised:
conditional expressions are lifted into if/else statements, so `x = a if c else b` and the equivalent statement form give the same
paths.  Calls to *helper* functions - repository functions that are not in the pinned function table, i.e. introduced by a later
extract-method refactoring - are inlined at path level (`t = self._helper(a)`, `self._helper(a)`, `return self._helper(a)`),
single-return helpers, nested one-expression defs and lambdas are inlined at expression level.

On a path every use has exactly one reaching definition, so provenance is plain substitution: the environment maps a local name
or an attribute path rooted at a name ('self.val') to the expression, over the function's inputs, that defines it on this path.
Nothing is executed; expressions are rewritten, never evaluated.
"""
import ast
import copy
import re as _re

from .model import dotted, src, AnalysisError

_TOK = _re.compile(r"[A-Za-z_][A-Za-z_0-9]*(?:\.[A-Za-z_][A-Za-z_0-9]*)*")


class Ev:
    """One event on a path."""
    __slots__ = ("kind", "stmt", "a", "b")

    def __init__(self, kind, stmt, a=None, b=None):
        self.kind = kind    # assign aug expr guard endif return raise iter loop0 loopexit def except end with try bind enter leave
        self.stmt = stmt
        self.a = a
        self.b = b

    def __repr__(self):
        return "Ev(%s@%s)" % (self.kind, getattr(self.stmt, "lineno", "?"))


class PathCap(Exception):
    pass


# --------------------------------------------------------------------------- normalisation

def _first_ifexp(node):
    """first IfExp inside an expression (breadth first), not below a lambda / comprehension"""
    stack = [node]
    while stack:
        n = stack.pop(0)
        if isinstance(n, ast.IfExp):
            return n
        if isinstance(n, (ast.Lambda, ast.ListComp, ast.SetComp, ast.DictComp, ast.GeneratorExp)):
            continue
        stack.extend(ast.iter_child_nodes(n))
    return None


def _rep(node, old, new):
    if node is old:
        return new
    changed = False
    kwargs = {}
    for fld, val in ast.iter_fields(node):
        if isinstance(val, ast.AST):
            nv = _rep(val, old, new)
            changed |= nv is not val
            kwargs[fld] = nv
        elif isinstance(val, list):
            nl = [_rep(v, old, new) if isinstance(v, ast.AST) else v for v in val]
            changed |= any(a is not b for a, b in zip(nl, val))
            kwargs[fld] = nl
        else:
            kwargs[fld] = val
    if not changed:
        return node
    n2 = type(node)(**kwargs)
    return ast.copy_location(n2, node) if hasattr(node, "lineno") else n2


class _DictGet(ast.NodeTransformer):
    """D[k] if k in D else DEFAULT  ->  D.get(k) / D.get(k, DEFAULT)   (same value for dicts; one spelling for the analyses)"""

    def visit_IfExp(self, n):
        self.generic_visit(n)
        t = n.test
        if isinstance(t, ast.Compare) and len(t.ops) == 1 and isinstance(t.ops[0], ast.In) and isinstance(t.left, ast.Constant) \
                and isinstance(n.body, ast.Subscript) and isinstance(n.body.slice, ast.Constant) and n.body.slice.value == t.left.value \
                and dotted(n.body.value) is not None and dotted(n.body.value) == dotted(t.comparators[0]):
            args = [t.left] if (isinstance(n.orelse, ast.Constant) and n.orelse.value is None) else [t.left, n.orelse]
            return ast.copy_location(ast.Call(func=ast.Attribute(value=n.body.value, attr="get", ctx=ast.Load()), args=args, keywords=[]), n)
        return n

    def visit_Call(self, n):
        self.generic_visit(n)
        if isinstance(n.func, ast.Attribute) and n.func.attr == "get" and len(n.args) == 2 and isinstance(n.args[1], ast.Constant) and n.args[1].value is None and not n.keywords:
            return ast.copy_location(ast.Call(func=n.func, args=[n.args[0]], keywords=[]), n)
        return n


def _canon(s):
    if any(isinstance(x, ast.IfExp) for x in ast.walk(s)) or any(isinstance(x, ast.Call) and isinstance(x.func, ast.Attribute) and x.func.attr == "get" for x in ast.walk(s)):
        return _DictGet().visit(copy.deepcopy(s))
    return s


def lift_ifexp(stmts, depth=0):
    """statement list with conditional expressions in simple statements turned into if/else statements"""
    out = []
    for s in stmts:
        if isinstance(s, (ast.Assign, ast.AugAssign, ast.AnnAssign, ast.Expr, ast.Return)) and depth == 0:
            s = _canon(s)
        if isinstance(s, (ast.Assign, ast.AugAssign, ast.AnnAssign, ast.Expr, ast.Return)) and depth < 6:
            val = s.value
            ie = _first_ifexp(val) if val is not None else None
            if ie is not None:
                a = _rep(s, ie, ie.body)
                b = _rep(s, ie, ie.orelse)
                node = ast.If(test=ie.test, body=lift_ifexp([a], depth + 1), orelse=lift_ifexp([b], depth + 1))
                ast.copy_location(node, s)
                node._lifted = True
                out.append(node)
                continue
            out.append(s)
        elif isinstance(s, (ast.If, ast.For, ast.While, ast.AsyncFor, ast.Try, ast.With, ast.AsyncWith)):
            changed = False
            n = copy.copy(s)
            for fld in ("body", "orelse", "finalbody"):
                v = getattr(s, fld, None)
                if isinstance(v, list):
                    nv = lift_ifexp(v, depth)
                    if len(nv) != len(v) or any(a is not b for a, b in zip(nv, v)):
                        changed = True
                    setattr(n, fld, nv)
            if isinstance(s, ast.Try):
                hs = []
                for h in s.handlers:
                    nb = lift_ifexp(h.body, depth)
                    if len(nb) != len(h.body) or any(a is not b for a, b in zip(nb, h.body)):
                        changed = True
                        h2 = copy.copy(h)
                        h2.body = nb
                        hs.append(h2)
                    else:
                        hs.append(h)
                n.handlers = hs
            out.append(n if changed else s)      # unchanged statements keep their identity
        else:
            out.append(s)
    return out


_LIFT_CACHE = {}


def lifted_body(fnode):
    k = id(fnode)
    if k not in _LIFT_CACHE:
        _LIFT_CACHE[k] = (lift_ifexp(fnode.body), fnode)
    return _LIFT_CACHE[k][0]


# --------------------------------------------------------------------------- guards / facts for pruning

def _guard_key(test):
    pol = True
    while isinstance(test, ast.UnaryOp) and isinstance(test.op, ast.Not):
        test = test.operand
        pol = not pol
    if isinstance(test, ast.Compare) and len(test.ops) == 1:
        op = test.ops[0]
        l, r = test.left, test.comparators[0]
        if isinstance(op, ast.IsNot):
            return ("%s is %s" % (src(l), src(r)), not pol)
        if isinstance(op, ast.NotEq):
            return ("%s == %s" % (src(l), src(r)), not pol)
        if isinstance(op, ast.NotIn):
            return ("%s in %s" % (src(l), src(r)), not pol)
    return (src(test), pol)


def _lits(t, pol):
    out = []

    def rec(t, pol):
        while isinstance(t, ast.UnaryOp) and isinstance(t.op, ast.Not):
            t, pol = t.operand, not pol
        if isinstance(t, ast.BoolOp):
            if (isinstance(t.op, ast.And) and pol) or (isinstance(t.op, ast.Or) and not pol):
                for v in t.values:
                    rec(v, pol)
            return
        out.append((t, pol))
    rec(t, pol)
    return out if len(out) > 1 else []


def _names_in(node):
    out = set()
    for n in ast.walk(node):
        if isinstance(n, ast.Name):
            out.add(n.id)
    return out


def _assigned_roots(stmt):
    """dotted paths (or bare names) written by an assignment-like statement: 'x', 'self.upper'"""
    out = set()
    tg = []
    if isinstance(stmt, ast.Assign):
        tg = stmt.targets
    elif isinstance(stmt, (ast.AugAssign, ast.AnnAssign)):
        tg = [stmt.target]
    elif isinstance(stmt, (ast.For,)):
        tg = [stmt.target]

    def add(t):
        if isinstance(t, (ast.Tuple, ast.List)):
            for e in t.elts:
                add(e)
        elif isinstance(t, ast.Starred):
            add(t.value)
        elif isinstance(t, ast.Name):
            out.add(t.id)
        elif isinstance(t, ast.Attribute):
            d = dotted(t)
            if d:
                out.add(d)
                if d.endswith(".__dict__"):
                    out.add(d[:-len(".__dict__")])        # replacing the attribute record invalidates every fact about the object
            else:
                for n in ast.walk(t):
                    if isinstance(n, ast.Name):
                        out.add(n.id)
        elif isinstance(t, ast.Subscript):
            d = dotted(t.value)
            if d:
                out.add(d)
    for t in tg:
        add(t)
    return out


def _escapes(stmt):
    """can control leave this compound statement other than by falling through?"""
    def walk(nodes, in_loop):
        for n in nodes:
            if isinstance(n, (ast.Return, ast.Raise)):
                return True
            if isinstance(n, (ast.Break, ast.Continue)) and not in_loop:
                return True
            if isinstance(n, (ast.FunctionDef, ast.AsyncFunctionDef, ast.ClassDef, ast.Lambda)):
                continue
            inner_loop = in_loop or isinstance(n, (ast.For, ast.While, ast.AsyncFor))
            for fld in ("body", "orelse", "finalbody"):
                v = getattr(n, fld, None)
                if isinstance(v, list) and walk(v, inner_loop):
                    return True
            for h in getattr(n, "handlers", []) or []:
                if walk(h.body, inner_loop):
                    return True
        return False
    if isinstance(stmt, (ast.For, ast.While, ast.AsyncFor)):
        return walk(stmt.body, True) or walk(stmt.orelse, False)
    return walk(getattr(stmt, "body", []), False) or walk(getattr(stmt, "orelse", []), False)


# --------------------------------------------------------------------------- inlining policy

def clone_with(e, target, repl):
    """copy of e with the node `target` replaced by `repl` (identity-based)"""
    if e is target:
        return repl
    if not isinstance(e, ast.AST):
        return e
    new = type(e)()
    for fld, val in ast.iter_fields(e):
        if isinstance(val, list):
            setattr(new, fld, [clone_with(v, target, repl) for v in val])
        else:
            setattr(new, fld, clone_with(val, target, repl))
    for a in ("lineno", "col_offset", "end_lineno", "end_col_offset"):
        if hasattr(e, a):
            setattr(new, a, getattr(e, a))
    return new


class Inliner:
    """decides which calls are expanded; holds the program for callee lookup"""

    def __init__(self, prog, func, max_depth=3):
        self.prog = prog
        self.func = func
        self.max_depth = max_depth
        from .pinned import PINNED_FUNCS
        self.pinned = PINNED_FUNCS

    def callee(self, ctx_func, call):
        """Func to inline for this call node evaluated inside ctx_func, or None"""
        if self.prog is None or ctx_func is None or not isinstance(call, ast.Call):
            return None
        fn = call.func
        q = None
        if isinstance(fn, ast.Name):
            q = self.prog.resolve_name(ctx_func, fn.id)
        elif isinstance(fn, ast.Attribute):
            d = dotted(fn.value)
            if d == "self" and ctx_func.cls:
                m = self.prog.method(ctx_func.cls, fn.attr, required=False, module=ctx_func.module)
                q = m.qualname if m is not None else None
            elif d == "utils":
                q = "utils." + fn.attr
            elif d is not None and ctx_func.cls and d in (ctx_func.cls, "self.__class__"):
                m = self.prog.method(ctx_func.cls, fn.attr, required=False, module=ctx_func.module)
                q = m.qualname if m is not None else None
        if not q or q not in self.prog.funcs:
            return None
        if q in self.pinned:
            return None
        f = self.prog.funcs[q]
        if any(isinstance(n, (ast.Yield, ast.YieldFrom)) for n in ast.walk(f.node)):
            return None
        if f.node.args.vararg is not None:
            return None
        return f

    @staticmethod
    def simple_expr(f):
        """body statements when f is `[doc] [x = e]* return e`, else None"""
        body = [s for s in f.node.body if not (isinstance(s, ast.Expr) and isinstance(s.value, ast.Constant))]
        if not body or not isinstance(body[-1], ast.Return) or body[-1].value is None:
            return None
        for s in body[:-1]:
            if not (isinstance(s, ast.Assign) and len(s.targets) == 1 and isinstance(s.targets[0], ast.Name)):
                return None
        return body


# --------------------------------------------------------------------------- enumeration

def enum_paths(body, cap=20000, prune=True, prog=None, func=None, inline=True):
    """All acyclic paths through a statement list; each ends with Ev('return'|'raise'|'end').
    With prog/func given, calls to helper functions are expanded in place (path-level inlining)."""
    done = []
    inl = Inliner(prog, func) if (prog is not None and func is not None and inline) else None
    body = lift_ifexp(body)

    def consistent(facts, key, pol):
        return facts.get(key, pol) == pol

    def kill(facts, roots):
        if not roots or not facts:
            return facts
        out = {}
        for k, v in facts.items():
            toks = _TOK.findall(k)
            dead = False
            for r in roots:
                for t in toks:
                    if t == r or t.startswith(r + "."):
                        dead = True
                        break
                if dead:
                    break
            if not dead:
                out[k] = v
        return out

    def inline_target(s, ctx):
        if inl is None:
            return None
        if isinstance(s, (ast.Assign, ast.Expr, ast.Return)) and isinstance(s.value, ast.Call):
            c = s.value
        else:
            return None
        f = inl.callee(ctx[-1], c)
        if f is None or len(ctx) > inl.max_depth or any(f is g for g in ctx):
            return None
        if any(isinstance(a, ast.Starred) for a in c.args):
            return None
        if Inliner.simple_expr(f) is not None and not isinstance(s, ast.Expr) and not any(isinstance(n, ast.IfExp) for n in ast.walk(f.node)):
            return None       # expression-level inlining handles it during substitution
        return c, f

    def nested_helper_call(s, ctx):
        """first call (evaluation order) to an inlinable helper with control flow that sits inside the expression of s"""
        if inl is None or len(ctx) > inl.max_depth:
            return None
        top = getattr(s, "value", None)
        if top is None:
            return None
        found = []

        def visit(e):
            if found or isinstance(e, (ast.Lambda, ast.ListComp, ast.SetComp, ast.DictComp, ast.GeneratorExp)):
                return
            if isinstance(e, ast.BoolOp):
                visit(e.values[0])           # later operands are evaluated conditionally
                return
            if isinstance(e, ast.IfExp):
                visit(e.test)
                return
            for c in ast.iter_child_nodes(e):
                visit(c)
                if found:
                    return
            if isinstance(e, ast.Call) and e is not top:
                f = inl.callee(ctx[-1], e)
                if f is not None and not any(f is g for g in ctx) and not any(isinstance(a, ast.Starred) for a in e.args) \
                        and (Inliner.simple_expr(f) is None or any(isinstance(n, ast.IfExp) for n in ast.walk(f.node))):
                    found.append(e)
        visit(top)
        return found[0] if found else None

    def run(stmts, i, prefix, facts, k, ctx):
        if len(done) > cap:
            raise PathCap()
        if i >= len(stmts):
            return k(prefix, facts, "fall")
        s = stmts[i]
        if inl is not None and isinstance(s, (ast.Assign, ast.AugAssign, ast.AnnAssign, ast.Expr, ast.Return)):
            h = nested_helper_call(s, ctx)
            if h is not None:
                nm = "$h%d_%d_%d" % (getattr(h, "lineno", 0), getattr(h, "col_offset", 0), len(ctx))
                asg = ast.copy_location(ast.Assign(targets=[ast.Name(id=nm, ctx=ast.Store())], value=h), s)
                s2 = clone_with(s, h, ast.copy_location(ast.Name(id=nm, ctx=ast.Load()), h))
                s2._orig = getattr(s, "_orig", s)
                return run([asg, s2] + list(stmts[i + 1:]), 0, prefix, facts, k, ctx)

        def nxt(p, f, how="fall"):
            return run(stmts, i + 1, p, f, k, ctx) if how == "fall" else k(p, f, how)
        it = inline_target(s, ctx)
        if it is not None:
            call, callee = it
            cbody = lifted_body(callee.node)
            # a parameter that receives a literal tuple of plain names and is only read in the helper is that tuple (so that `for v in operands`
            # is a loop over a literal sequence and can be unrolled): helper((x, y)) with `def helper(operands)`
            try:
                ps_ = [p_ for p_ in callee.params if not (callee.cls and p_ == "self")]
                lit = {}
                for p_, a_ in list(zip(ps_, call.args)) + [(k_.arg, k_.value) for k_ in call.keywords if k_.arg]:
                    if isinstance(a_, (ast.Tuple, ast.List)) and a_.elts and all(isinstance(e_, ast.Name) for e_ in a_.elts):
                        lit[p_] = a_
                if lit:
                    stored = {n_.id for n_ in ast.walk(callee.node) if isinstance(n_, ast.Name) and isinstance(n_.ctx, (ast.Store, ast.Del))}
                    local_names = stored | set(callee.params)
                    lit = {p_: a_ for p_, a_ in lit.items() if p_ not in stored and not any(e_.id in local_names for e_ in a_.elts)}
                if lit:
                    import copy as _cp3

                    class _LitParam(ast.NodeTransformer):
                        def visit_Name(self, node):
                            if isinstance(node.ctx, ast.Load) and node.id in lit:
                                return ast.copy_location(_cp3.deepcopy(lit[node.id]), node)
                            return node
                    cbody = lift_ifexp([_LitParam().visit(_cp3.deepcopy(s_)) for s_ in callee.node.body
                                        if not (isinstance(s_, ast.Expr) and isinstance(s_.value, ast.Constant))])
            except Exception:
                cbody = lifted_body(callee.node)

            def attr_facts(f):
                return {k_: v for k_, v in f.items() if all(t.startswith("self.") for t in _TOK.findall(k_) if not t[0].isupper() and t not in ("is", "None", "not", "in", "and", "or", "True", "False"))}

            def callee_k(p, f, how):
                if how in ("fall", "return"):
                    p2 = p + [Ev("leave", s, callee)]
                    if isinstance(s, ast.Return):
                        return k(p2 + [Ev("return_inlined", s)], {}, "return")
                    return run(stmts, i + 1, p2, kill(attr_facts(f), _assigned_roots(s)), k, ctx)
                return k(p, f, how)
            return run(cbody, 0, prefix + [Ev("enter", s, call, callee)], attr_facts(facts), callee_k, ctx + [callee])
        if isinstance(s, (ast.Assign, ast.AnnAssign)):
            if isinstance(s, ast.AnnAssign) and s.value is None:
                return nxt(prefix, facts)
            return nxt(prefix + [Ev("assign", s)], kill(facts, _assigned_roots(s)))
        if isinstance(s, ast.AugAssign):
            return nxt(prefix + [Ev("aug", s)], kill(facts, _assigned_roots(s)))
        if isinstance(s, ast.Expr):
            return nxt(prefix + [Ev("expr", s)], facts)
        if isinstance(s, ast.Return):
            return k(prefix + [Ev("return", s)], facts, "return")
        if isinstance(s, ast.Raise):
            return k(prefix + [Ev("raise", s)], facts, "raise")
        if isinstance(s, ast.If) and inl is not None and not getattr(s, "_hoisted", False):
            t = s.test
            neg = 0
            while isinstance(t, ast.UnaryOp) and isinstance(t.op, ast.Not):
                t = t.operand
                neg += 1
            if isinstance(t, ast.Call):
                f = inl.callee(ctx[-1], t)
                if f is not None and Inliner.simple_expr(f) is None and len(ctx) <= inl.max_depth and not any(f is g for g in ctx):
                    nm = "$t%d_%d" % (getattr(s, "lineno", 0), len(ctx))
                    asg = ast.copy_location(ast.Assign(targets=[ast.Name(id=nm, ctx=ast.Store())], value=t), s)
                    tst = ast.Name(id=nm, ctx=ast.Load())
                    for _ in range(neg):
                        tst = ast.UnaryOp(op=ast.Not(), operand=tst)
                    s2 = copy.copy(s)
                    s2.test = tst
                    s2._hoisted = True
                    s2._orig = s
                    return run([asg, s2] + list(stmts[i + 1:]), 0, prefix, facts, k, ctx)
        if isinstance(s, ast.If):
            key, pol = _guard_key(s.test)
            esc = _escapes(s)

            def endif(p, f, how="fall"):
                if how == "fall":
                    return nxt(p + [Ev("endif", s, esc)], f)
                return k(p, f, how)
            for branch, bpol in ((s.body, True), (s.orelse, False)):
                p = pol if bpol else (not pol)
                if prune and not consistent(facts, key, p):
                    continue
                f2 = dict(facts)
                f2[key] = p
                # literals implied by the outcome (conjuncts of a true `and`, disjuncts of a false `or`)
                okl = True
                for lt, lp in _lits(s.test, bpol):
                    lk, lpol = _guard_key(lt)
                    lpol = lpol if lp else (not lpol)
                    if prune and not consistent(f2, lk, lpol):
                        okl = False
                        break
                    f2[lk] = lpol
                if not okl:
                    continue
                run(branch, 0, prefix + [Ev("guard", s, s.test, bpol)], f2, endif, ctx)
            return
        if isinstance(s, ast.Assert):
            return nxt(prefix + [Ev("guard", s, s.test, True)], facts)
        if isinstance(s, (ast.For, ast.AsyncFor)):
            esc = _escapes(s)
            lit = s.iter.elts if isinstance(s.iter, (ast.Tuple, ast.List)) and len(s.iter.elts) <= 8 and not s.orelse else None
            if lit is not None:
                def unroll(j, p, f):
                    if j >= len(lit):
                        return nxt(p + [Ev("endif", s, esc)], f)

                    def body_k(p2, f2, how):
                        if how in ("fall", "continue"):
                            return unroll(j + 1, p2, f2)
                        if how == "break":
                            return nxt(p2 + [Ev("endif", s, esc)], f2)
                        return k(p2, f2, how)
                    return run(s.body, 0, p + [Ev("bind", s, s.target, lit[j])], kill(f, _assigned_roots(s)), body_k, ctx)
                return unroll(0, prefix, facts)
            run(s.orelse, 0, prefix + [Ev("loop0", s)], facts, nxt, ctx)

            def body_k(p, f, how):
                if how in ("fall", "continue"):
                    return run(s.orelse, 0, p + [Ev("endif", s, esc)], f, nxt, ctx)
                if how == "break":
                    return nxt(p + [Ev("endif", s, esc)], f)
                return k(p, f, how)
            run(s.body, 0, prefix + [Ev("iter", s)], kill(facts, _assigned_roots(s)), body_k, ctx)
            return
        if isinstance(s, ast.While):
            key, pol = _guard_key(s.test)
            esc = _escapes(s)
            if not prune or consistent(facts, key, not pol):
                f0 = dict(facts)
                f0[key] = not pol
                run(s.orelse, 0, prefix + [Ev("guard", s, s.test, False), Ev("endif", s, esc)], f0, nxt, ctx)
            if not prune or consistent(facts, key, pol):
                f1 = dict(facts)
                f1[key] = pol

                def wbody_k(p, f, how):
                    if how in ("fall", "continue"):
                        return nxt(p + [Ev("loopexit", s), Ev("endif", s, esc)], {})
                    if how == "break":
                        return nxt(p + [Ev("endif", s, esc)], f)
                    return k(p, f, how)
                run(s.body, 0, prefix + [Ev("guard", s, s.test, True)], f1, wbody_k, ctx)
            return
        if isinstance(s, ast.Break):
            return k(prefix, facts, "break")
        if isinstance(s, ast.Continue):
            return k(prefix, facts, "continue")
        if isinstance(s, ast.Try) or (hasattr(ast, "TryStar") and isinstance(s, getattr(ast, "TryStar"))):
            def fin(p, f, how="fall"):
                if how != "fall":
                    return k(p, f, how)
                return run(s.finalbody, 0, p, f, nxt, ctx)

            def after_body(p, f, how="fall"):
                if how != "fall":
                    return k(p, f, how)
                return run(s.orelse, 0, p, f, fin, ctx)
            run(s.body, 0, prefix + [Ev("try", s)], facts, after_body, ctx)
            for h in s.handlers:
                run(h.body, 0, prefix + [Ev("except", s, h)], {}, fin, ctx)
            return
        if isinstance(s, (ast.With, ast.AsyncWith)):
            return run(s.body, 0, prefix + [Ev("with", s)], facts, nxt, ctx)
        if isinstance(s, (ast.FunctionDef, ast.AsyncFunctionDef, ast.ClassDef)):
            return nxt(prefix + [Ev("def", s)], kill(facts, {s.name}))
        if isinstance(s, (ast.Import, ast.ImportFrom, ast.Pass, ast.Global, ast.Nonlocal, ast.Delete)):
            return nxt(prefix, facts)
        if hasattr(ast, "Match") and isinstance(s, ast.Match):
            for c in s.cases:
                run(c.body, 0, prefix + [Ev("guard", s, s.subject, True)], {}, nxt, ctx)
            return
        raise AnalysisError("statement kind outside the path vocabulary: %s at line %s" % (type(s).__name__, getattr(s, "lineno", "?")))

    def top_k(prefix, facts, how):
        if how in ("return", "raise"):
            done.append(prefix)
        else:
            done.append(prefix + [Ev("end", None)])

    run(body, 0, [], {}, top_k, [func])
    if len(done) > cap:
        raise PathCap()
    return done


# --------------------------------------------------------------------------- substitution

def _bound_names(node):
    out = set()
    if isinstance(node, ast.Lambda):
        a = node.args
        for x in a.posonlyargs + a.args + a.kwonlyargs:
            out.add(x.arg)
        if a.vararg:
            out.add(a.vararg.arg)
        if a.kwarg:
            out.add(a.kwarg.arg)
    else:
        for g in node.generators:
            out |= _names_in(g.target)
    return out


def subst(node, env, hook=None):
    """Functional substitution: returns ``node`` itself when nothing below it changes, otherwise a shallow rebuild of the spine.
    Lambda applications are beta-reduced; ``hook(new_call, raw_call) -> expr | None`` may replace calls (expression inlining)."""
    if not env and hook is None:
        return node
    return _sub(node, env, hook)


def _sub(node, env, hook):
    if isinstance(node, ast.Name):
        if isinstance(node.ctx, ast.Load) and node.id in env:
            return env[node.id]
        return node
    if isinstance(node, ast.Attribute):
        if isinstance(node.ctx, ast.Load):
            d = dotted(node)
            if d is not None and d in env:
                return env[d]
    if isinstance(node, (ast.Lambda, ast.ListComp, ast.SetComp, ast.GeneratorExp, ast.DictComp)):
        bound = _bound_names(node)
        if bound:
            env = {k: v for k, v in env.items() if k.split(".")[0] not in bound}
    if isinstance(node, ast.Constant):
        return node
    changed = None
    for fld, old in ast.iter_fields(node):
        if isinstance(old, ast.AST):
            if isinstance(old, (ast.expr_context, ast.operator, ast.unaryop, ast.cmpop, ast.boolop)):
                continue
            new = _sub(old, env, hook)
            if new is not old:
                if changed is None:
                    changed = {}
                changed[fld] = new
        elif isinstance(old, list) and old:
            newl = None
            for i, it in enumerate(old):
                if isinstance(it, ast.AST):
                    ni = _sub(it, env, hook)
                    if ni is not it:
                        if newl is None:
                            newl = list(old)
                        newl[i] = ni
            if newl is not None:
                if changed is None:
                    changed = {}
                changed[fld] = newl
    if changed is None:
        new = node
    else:
        kwargs = {f: changed.get(f, v) for f, v in ast.iter_fields(node)}
        new = type(node)(**kwargs)
        if hasattr(node, "lineno"):
            ast.copy_location(new, node)
    if isinstance(new, ast.ListComp) and len(new.generators) == 1 and isinstance(new.generators[0].iter, (ast.Tuple, ast.List)) \
            and 1 <= len(new.generators[0].iter.elts) <= 4 and not new.generators[0].ifs and isinstance(new.generators[0].target, ast.Name) \
            and not any(isinstance(x, ast.Starred) for x in new.generators[0].iter.elts):
        # a comprehension over what turned out to be a literal sequence on this path: the list of its instances
        tgt = new.generators[0].target.id
        elts = [_sub(new.elt, {tgt: x}, None) for x in new.generators[0].iter.elts]
        n2 = ast.List(elts=elts, ctx=ast.Load())
        return ast.copy_location(n2, new) if hasattr(new, "lineno") else n2
    if isinstance(new, ast.Call) and any(k.arg is None and isinstance(k.value, ast.Dict) for k in new.keywords):
        # f(**{'a': x, 'b': y})  ==  f(a=x, b=y): one spelling for keyword records
        kws, okk = [], True
        for k in new.keywords:
            if k.arg is None and isinstance(k.value, ast.Dict) and k.value.keys and all(isinstance(dk, ast.Constant) and isinstance(dk.value, str) and dk.value.isidentifier() for dk in k.value.keys):
                kws += [ast.keyword(arg=dk.value, value=dv) for dk, dv in zip(k.value.keys, k.value.values)]
            else:
                kws.append(k)
        n2 = ast.Call(func=new.func, args=new.args, keywords=kws)
        new = ast.copy_location(n2, new) if hasattr(new, "lineno") else n2
    if isinstance(new, ast.Call) and isinstance(new.func, ast.Lambda) and new.func.args.vararg is not None and new.func.args.vararg.arg == "_pargs" \
            and isinstance(new.func.body, ast.Call) and not new.func.args.args:
        # application of a functools.partial object (normaliser N21): F(bound..., *args, bound_kw..., **kw)
        b = new.func.body
        args = [a for a in b.args if not (isinstance(a, ast.Starred) and dotted(a.value) == "_pargs")] + list(new.args)
        kws = [k for k in b.keywords if not (k.arg is None and dotted(k.value) == "_pkw")] + list(new.keywords)
        n2 = ast.Call(func=b.func, args=args, keywords=kws)
        new = ast.copy_location(n2, new) if hasattr(new, "lineno") else n2
    if isinstance(new, ast.Call) and isinstance(new.func, ast.Attribute) and isinstance(new.func.value, ast.Name) and new.func.value.id.strip("_") == "operator" and not new.keywords:
        # operator.lt(a, b) reached by substitution (the function was passed as an argument): the operator expression it denotes
        from .normalize import _CMP_OPS, _BIN_OPS, _UN_OPS
        fnm = new.func.attr
        rep = None
        if fnm in _CMP_OPS and len(new.args) == 2:
            rep = ast.Compare(left=new.args[0], ops=[_CMP_OPS[fnm]()], comparators=[new.args[1]])
        elif fnm in _BIN_OPS and len(new.args) == 2:
            rep = ast.BinOp(left=new.args[0], op=_BIN_OPS[fnm](), right=new.args[1])
        elif fnm in _UN_OPS and len(new.args) == 1:
            rep = ast.UnaryOp(op=_UN_OPS[fnm](), operand=new.args[0])
        if rep is not None:
            return ast.copy_location(rep, new) if hasattr(new, "lineno") else rep
    if isinstance(new, ast.BinOp) and isinstance(new.op, ast.Add) and isinstance(new.left, ast.Constant) and isinstance(new.right, ast.Constant) \
            and isinstance(new.left.value, str) and isinstance(new.right.value, str):
        return ast.copy_location(ast.Constant(value=new.left.value + new.right.value), new) if hasattr(new, "lineno") else ast.Constant(value=new.left.value + new.right.value)
    if isinstance(new, ast.Call) and isinstance(new.func, ast.Attribute) and new.func.attr == "format" and isinstance(new.func.value, ast.Constant) and isinstance(new.func.value.value, str) \
            and new.args and not new.keywords and all(isinstance(a, ast.Constant) and isinstance(a.value, str) for a in new.args) and "{" in new.func.value.value:
        try:
            folded = new.func.value.value.format(*[a.value for a in new.args])
            return ast.copy_location(ast.Constant(value=folded), new) if hasattr(new, "lineno") else ast.Constant(value=folded)
        except Exception:
            pass
    if isinstance(new, ast.Call) and isinstance(new.func, ast.Name) and new.func.id == "getattr" and len(new.args) == 2 and not new.keywords \
            and isinstance(new.args[1], ast.Constant) and isinstance(new.args[1].value, str) and new.args[1].value.isidentifier():
        at = ast.Attribute(value=new.args[0], attr=new.args[1].value, ctx=ast.Load())
        return ast.copy_location(at, new) if hasattr(new, "lineno") else at
    if isinstance(new, ast.Call) and isinstance(new.func, ast.Name) and new.func.id in ("max", "min") and len(new.args) == 1 and not new.keywords \
            and isinstance(new.args[0], (ast.Tuple, ast.List)) and new.args[0].elts and not any(isinstance(a, ast.Starred) for a in new.args[0].elts):
        # max((a, b)) reached by substitution of a literal tuple: max(a, b); of one element: the element
        el = new.args[0].elts
        if len(el) == 1:
            return el[0]
        n2 = ast.Call(func=new.func, args=list(el), keywords=[])
        new = ast.copy_location(n2, new) if hasattr(new, "lineno") else n2
    if isinstance(new, ast.Call):
        fn = new.func
        if isinstance(fn, ast.Lambda) and not new.keywords and len(fn.args.args) == len(new.args) \
                and not fn.args.vararg and not fn.args.kwarg and not fn.args.defaults and not any(isinstance(a, ast.Starred) for a in new.args):
            benv = {p.arg: a for p, a in zip(fn.args.args, new.args)}
            return _sub(fn.body, benv, None)
        if hook is not None:
            r = hook(new, node)
            if r is not None:
                return r
    return new


def _elem(call_like, i):
    return ast.Subscript(value=call_like, slice=ast.Constant(value=i), ctx=ast.Load())


class Store:
    __slots__ = ("target", "path", "sub", "value", "raw_value", "guards", "stmt", "aug", "prior", "depth", "base")

    def __init__(self, target, path, sub, value, raw_value, guards, stmt, aug=None):
        self.target = target      # original target node
        self.path = path          # dotted path of attribute/name target ('self.val'), for subscript: path of the base
        self.sub = sub            # substituted slice expr for subscript stores, else None
        self.value = value        # substituted value expr
        self.raw_value = raw_value
        self.guards = guards      # control guards: list of (substituted test, polarity, raw test, if-stmt)
        self.stmt = stmt
        self.aug = aug
        self.prior = []
        self.depth = 0            # inlining depth (0 = the analysed function itself)
        self.base = None          # for subscript stores: what the base name denotes on this path (substituted), to see aliases of parameters


class CallEv:
    __slots__ = ("call", "raw", "guards", "stmt", "idx", "prior", "depth", "ctx")

    def __init__(self, call, raw, guards, stmt, idx):
        self.call = call      # substituted call expr
        self.raw = raw        # original call node
        self.guards = guards
        self.stmt = stmt
        self.idx = idx
        self.prior = []
        self.depth = 0
        self.ctx = None       # Func in whose body the call is written (for resolution)


class PathFacts:
    """Result of walking one path with substitution."""

    def __init__(self):
        self.stores = []
        self.calls = []
        self.ret = None
        self.ret_stmt = None
        self.end = None      # 'return' | 'raise' | 'end'
        self.guards = []
        self.env = {}
        self.order = []
        self.zero_loops = 0


def _calls_in_order(node):
    out = []

    def visit(n):
        if isinstance(n, (ast.Lambda, ast.FunctionDef, ast.AsyncFunctionDef)):
            return
        for c in ast.iter_child_nodes(n):
            visit(c)
        if isinstance(n, ast.Call):
            out.append(n)
    visit(node)
    return out


def _terminal(seq):
    """how a statement list ends on every path: 'raise' / 'return' / 'mixed' / None (falls through)"""
    for st in seq:
        if isinstance(st, ast.Raise):
            return "raise"
        if isinstance(st, ast.Return):
            return "return"
        if isinstance(st, ast.If):
            a, b = _terminal(st.body), _terminal(st.orelse)
            if a is not None and b is not None:
                return a if a == b else "mixed"
            if a == "mixed" or b == "mixed":
                return "mixed"
            if (a == "return" or b == "return"):
                return "mixed"
            # one branch raises, the other falls through: keep scanning what follows
        elif isinstance(st, (ast.For, ast.While, ast.Try, ast.With)):
            if any(isinstance(x, (ast.Return, ast.Raise)) for x in ast.walk(st)):
                return "mixed"
    return None


def _other_outcome_raises(fnode, ifstmt, pol):
    """the outcome of `ifstmt` opposite to `pol` always leaves the function fnode by raise"""
    def find(block):
        for i, st in enumerate(block):
            if st is ifstmt or getattr(st, "_orig", None) is ifstmt or getattr(ifstmt, "_orig", None) is st:
                return block, i
            for fld in ("body", "orelse", "finalbody"):
                sub = getattr(st, fld, None)
                if isinstance(sub, list) and sub and isinstance(sub[0], ast.stmt):
                    r = find(sub)
                    if r:
                        return r
            for h in getattr(st, "handlers", []) or []:
                r = find(h.body)
                if r:
                    return r
        return None
    loc = find(fnode.body)
    if loc is None:
        return False
    block, i = loc
    other = list(ifstmt.orelse if pol else ifstmt.body)
    t = _terminal(other)
    if t is None and block is fnode.body:
        t = _terminal(block[i + 1:])
    return t == "raise"


class _Scope:
    def __init__(self, func, env, target_stmt, parent):
        self.func = func
        self.env = env
        self.target_stmt = target_stmt
        self.parent = parent
        self.ret = None


def walk_path(path, params=(), init_env=None, kill_attr_on_call=None, prog=None, func=None):
    """Substitute along one path (with scopes for inlined helpers)."""
    pf = PathFacts()
    guards = []
    closed = []
    counter = [0]
    heap = {}                                  # attribute paths rooted at 'self' (shared by inlined methods called on self)
    st_ = {"scope": _Scope(func, dict(init_env or {}), None, None)}
    inl = Inliner(prog, func) if (prog is not None and func is not None) else None
    pending_ret = [None]

    def cur_env():
        scope = st_["scope"]
        chain = [scope]
        s = scope
        # a nested def sees the locals of the function that defines it
        while s.parent is not None and s.func is not None and s.func.parent is not None and s.parent.func is s.func.parent:
            s = s.parent
            chain.append(s)
        if len(chain) == 1 and not heap:
            return scope.env
        e = dict(heap)
        for s in reversed(chain):
            e.update(s.env)
        return e

    def _scope_funcs():
        out, sc = [], st_["scope"]
        while sc is not None:
            if sc.func is not None:
                out.append(sc.func)
            sc = sc.parent
        return out

    def hook(newcall, rawcall):
        scope = st_["scope"]
        if inl is None or scope.func is None or not isinstance(rawcall, ast.Call):
            return None
        f = inl.callee(scope.func, rawcall)
        if f is None and isinstance(newcall.func, ast.Name) and newcall.func is not rawcall.func:
            f = inl.callee(scope.func, newcall)       # a local alias bound to a helper: cast = _as_object if G else _unchanged
        if f is None:
            return None
        body = Inliner.simple_expr(f)
        if body is None or any(isinstance(n, ast.IfExp) for n in ast.walk(f.node)):
            return None
        ps = list(f.params)
        if f.cls and ps and ps[0] == "self" and not any("staticmethod" in d for d in f.decorators):
            ps = ps[1:]
        if any(isinstance(a, ast.Starred) for a in newcall.args) or any(k.arg is None for k in newcall.keywords):
            return None
        benv = {}
        dfl = f.defaults()
        for p_, a in zip(ps, newcall.args):
            benv[p_] = a
        for k_ in newcall.keywords:
            benv[k_.arg] = k_.value
        for p_ in ps:
            if p_ not in benv:
                if p_ in dfl:
                    benv[p_] = dfl[p_]
                else:
                    return None
        # free names of the helper body denote what they denote now, in the calling context, when the helper is a nested def of the function
        # being walked (closure) or a method called on self (attribute paths rooted at self live in the shared heap)
        outer = {}
        nested_here = f.parent is not None and any(f.parent is sc for sc in _scope_funcs())
        cur = cur_env()
        if nested_here or (f.cls and scope.func is not None and scope.func.cls == f.cls):
            for k_, v_ in cur.items():
                root = k_.split(".")[0]
                if root in benv or root in ps:
                    continue
                if nested_here or root == "self":
                    outer[k_] = v_
        env2 = dict(outer)
        env2.update(benv)
        for s in body[:-1]:
            env2[s.targets[0].id] = _sub(s.value, env2, None)
        res = _sub(body[-1].value, env2, None)
        return _inline_revealed(res, f, 0)

    def _inline_revealed(expr, ctxf, depth):
        """calls to further one-expression helpers that the inlined body contains (revealed only now, so the path-level pass could not hoist them):
        inlined in place, conditional expressions included - the rules read `(A if G else B)(arg)` forms"""
        if depth > 3 or inl is None:
            return expr

        class _T(ast.NodeTransformer):
            def visit_Lambda(self, node):
                return node

            def visit_Call(self, node):
                self.generic_visit(node)
                g = inl.callee(ctxf, node) if isinstance(node.func, (ast.Name, ast.Attribute)) else None
                if g is None or g is ctxf:
                    return node
                b = Inliner.simple_expr(g)
                if b is None or len(b) != 1:
                    return node
                ps = list(g.params)
                if g.cls and ps and ps[0] == "self":
                    return node
                if any(isinstance(a, ast.Starred) for a in node.args) or node.keywords or len(node.args) != len(ps):
                    return node
                out = _sub(b[-1].value, dict(zip(ps, node.args)), None)
                return _inline_revealed(out, g, depth + 1)
        import copy as _cp2
        return _T().visit(_cp2.deepcopy(expr))

    def S(expr):
        return subst(expr, cur_env(), hook)

    def _depth():
        d, s = 0, st_["scope"]
        while s.parent is not None:
            d += 1
            s = s.parent
        return d

    def record_calls(raw_expr, stmt):
        for c in _calls_in_order(raw_expr):
            ce = CallEv(S(c), c, list(guards), stmt, counter[0])
            ce.prior = list(closed)
            ce.depth = _depth()
            ce.ctx = st_["scope"].func
            counter[0] += 1
            pf.calls.append(ce)
            pf.order.append(("call", ce))
            if kill_attr_on_call is not None:
                for d in kill_attr_on_call(c) or ():
                    heap.pop(d, None)
                    st_["scope"].env.pop(d, None)

    def setvar(d, value):
        scope = st_["scope"]
        if d == "self" or d.startswith("self."):
            if "self" in scope.env and d.startswith("self."):
                # helper called on another receiver: keep in its scope
                scope.env[d] = value
                return
            heap[d] = value
            for k in [k for k in heap if k.startswith(d + ".")]:
                del heap[k]
            if d.endswith(".__dict__"):
                # the whole attribute record is replaced: nothing known about the object's attributes survives
                base = d[:-len(".__dict__")]
                for k in [k for k in heap if k.startswith(base + ".") and k != d]:
                    del heap[k]
        else:
            scope.env[d] = value
            for k in [k for k in scope.env if k.startswith(d + ".")]:
                del scope.env[k]

    def bind(target, value_sub, raw_value, stmt, aug=None):
        if isinstance(target, ast.Name):
            setvar(target.id, value_sub)
            st = Store(target, target.id, None, value_sub, raw_value, list(guards), stmt, aug)
        elif isinstance(target, ast.Attribute):
            d = dotted(target)
            if d is None:
                d = src(S(target))
            setvar(d, value_sub)
            st = Store(target, d, None, value_sub, raw_value, list(guards), stmt, aug)
        elif isinstance(target, ast.Subscript):
            d = dotted(target.value) or src(S(target.value))
            st = Store(target, d, S(target.slice), value_sub, raw_value, list(guards), stmt, aug)
            st.base = S(target.value)
        elif isinstance(target, (ast.Tuple, ast.List)):
            for i, t in enumerate(target.elts):
                if isinstance(t, ast.Starred):
                    bind(t.value, ast.Call(func=ast.Name(id="$rest", ctx=ast.Load()), args=[value_sub], keywords=[]), raw_value, stmt)
                elif isinstance(value_sub, (ast.Tuple, ast.List)) and len(value_sub.elts) == len(target.elts):
                    bind(t, value_sub.elts[i], raw_value, stmt)
                else:
                    bind(t, _elem(value_sub, i), raw_value, stmt)
            return
        else:
            return
        st.prior = list(closed)
        st.depth = _depth()
        counter[0] += 1
        pf.stores.append(st)
        pf.order.append(("store", st))

    for ev in path:
        s = ev.stmt
        k = ev.kind
        scope = st_["scope"]
        if k == "assign":
            value = s.value
            v = S(value)
            if isinstance(value, ast.ListComp) and isinstance(v, ast.List):
                # a comprehension over what is a literal sequence on this path was instantiated: its calls are those of the instances
                for c in _calls_in_order(v):
                    ce = CallEv(c, c, list(guards), s, counter[0])
                    ce.prior = list(closed)
                    ce.depth = _depth()
                    ce.ctx = st_["scope"].func
                    counter[0] += 1
                    pf.calls.append(ce)
                    pf.order.append(("call", ce))
            else:
                record_calls(value, s)
            targets = s.targets if isinstance(s, ast.Assign) else [s.target]
            for t in targets:
                if isinstance(t, ast.Subscript):
                    record_calls(t, s)
                bind(t, v, value, s)
        elif k == "aug":
            record_calls(s.value, s)
            cur = S(_load(s.target))
            v = ast.BinOp(left=cur, op=s.op, right=S(s.value))
            bind(s.target, v, s.value, s, aug=s.op)
        elif k == "expr":
            record_calls(s.value, s)
            c = s.value
            if isinstance(c, ast.Call) and isinstance(c.func, ast.Name) and c.func.id == "setattr" and len(c.args) == 3 and not c.keywords:
                # setattr(obj, '<literal after substitution>', v) is the attribute store obj.<literal> = v
                nm_ = S(c.args[1])
                ob_ = S(c.args[0])
                if isinstance(nm_, ast.Constant) and isinstance(nm_.value, str) and nm_.value.isidentifier() and dotted(ob_):
                    tgt = ast.Attribute(value=ob_, attr=nm_.value, ctx=ast.Store())
                    ast.copy_location(tgt, c)
                    bind(tgt, S(c.args[2]), c.args[2], s)
            if isinstance(c, ast.Call) and isinstance(c.func, ast.Attribute) and isinstance(c.func.value, ast.Name):
                nm = c.func.value.id
                e0 = cur_env().get(nm)
                if c.func.attr == "append" and len(c.args) == 1 and isinstance(e0, ast.List):
                    setvar(nm, ast.List(elts=list(e0.elts) + [S(c.args[0])], ctx=ast.Load()))
                elif c.func.attr == "update" and not c.args and c.keywords and all(k_.arg for k_ in c.keywords):
                    for k_ in c.keywords:      # d.update(a=.., b=..) == d['a'] = ..; d['b'] = ..
                        tgt = ast.Subscript(value=ast.Name(id=nm, ctx=ast.Load()), slice=ast.Constant(value=k_.arg), ctx=ast.Store())
                        bind(tgt, S(k_.value), k_.value, s)
        elif k == "guard":
            record_calls(ev.a, s)
            g = (S(ev.a), ev.b, ev.a, s)
            guards.append(g)
            pf.guards.append(g)
            if isinstance(s, ast.While) and not ev.b:
                pf.zero_loops += 1
        elif k == "endif":
            if ev.a:
                closed.extend(g for g in guards if g[3] is s)
            guards[:] = [g for g in guards if g[3] is not s]
        elif k == "iter":
            record_calls(s.iter, s)
            it = ast.Call(func=ast.Name(id="$elem", ctx=ast.Load()), args=[S(s.iter)], keywords=[])
            bind(s.target, it, s.iter, s)
            g = (ast.Call(func=ast.Name(id="$nonempty", ctx=ast.Load()), args=[S(s.iter)], keywords=[]), True, s.iter, s)
            guards.append(g)
            pf.guards.append(g)
        elif k == "bind":
            bind(ev.a, S(ev.b), ev.b, s)
        elif k == "loop0":
            record_calls(s.iter, s)
            pf.zero_loops += 1
        elif k == "loopexit":
            for r in _assigned_in(s.body):
                setvar(r, ast.Call(func=ast.Name(id="$loop", ctx=ast.Load()), args=[ast.Constant(value=r)], keywords=[]))
        elif k == "def":
            scope.env.pop(s.name, None)
        elif k == "with":
            for it in s.items:
                record_calls(it.context_expr, s)
                if it.optional_vars is not None:
                    bind(it.optional_vars, S(it.context_expr), it.context_expr, s)
        elif k == "except":
            h = ev.a
            if h.name:
                scope.env[h.name] = ast.Name(id="$exc", ctx=ast.Load())
            g = (ast.Name(id="$exception", ctx=ast.Load()), True, None, s)
            guards.append(g)
            pf.guards.append(g)
        elif k == "enter":
            call, callee = ev.a, ev.b
            for a in list(call.args) + [k_.value for k_ in call.keywords]:
                record_calls(a, s)
            args = [S(a) for a in call.args]
            kws = {k_.arg: S(k_.value) for k_ in call.keywords if k_.arg}
            star = [S(k_.value) for k_ in call.keywords if k_.arg is None]
            ps = list(callee.params)
            is_method = bool(callee.cls) and ps and ps[0] == "self" and not any("staticmethod" in d for d in callee.decorators)
            if is_method:
                ps = ps[1:]
            env2 = {}
            dfl = callee.defaults()
            for p_, a in zip(ps, args):
                env2[p_] = a
            for n_, v_ in kws.items():
                if n_ in ps:
                    env2[n_] = v_
            for p_ in ps:
                if p_ not in env2:
                    env2[p_] = dfl[p_] if p_ in dfl else ast.Name(id="$arg_%s" % p_, ctx=ast.Load())
            if callee.kwarg:
                extra = {n_: v_ for n_, v_ in kws.items() if n_ not in ps}
                env2[callee.kwarg] = star[0] if star and not extra else ast.Dict(keys=[ast.Constant(value=n_) for n_ in extra], values=list(extra.values()))
            if is_method and isinstance(call.func, ast.Attribute) and dotted(call.func.value) != "self":
                env2["self"] = S(call.func.value)
            st_["scope"] = _Scope(callee, env2, s, scope)
            st_["scope"].gmark = len(guards)
        elif k == "leave":
            callee_scope = scope
            st_["scope"] = scope.parent
            # tests inside the helper that are still open (it returned from within a branch) are path conditions of what follows in the caller,
            # not control dependences: the helper returned normally on this path whichever way they went
            gm = getattr(callee_scope, "gmark", None)
            if gm is not None and len(guards) > gm:
                keep = []
                for g_ in guards[gm:]:
                    # ... unless the other outcome of the test leaves the helper by raise: then reaching the caller's continuation does depend on it
                    if isinstance(g_[3], ast.If) and callee_scope.func is not None and _other_outcome_raises(callee_scope.func.node, g_[3], g_[1]):
                        keep.append(g_)
                    else:
                        closed.append(g_)
                del guards[gm:]
                guards.extend(keep)
            rv = callee_scope.ret if callee_scope.ret is not None else ast.Constant(value=None)
            if isinstance(s, ast.Assign):
                for t in s.targets:
                    bind(t, rv, s.value, s)
            elif isinstance(s, ast.Return):
                pending_ret[0] = rv
        elif k == "return_inlined":
            if scope.parent is not None:
                scope.ret = pending_ret[0]
            else:
                pf.end = "return"
                pf.ret_stmt = s
                pf.ret = pending_ret[0]
        elif k == "return":
            if scope.parent is not None:
                if s.value is not None:
                    record_calls(s.value, s)
                    scope.ret = S(s.value)
                else:
                    scope.ret = ast.Constant(value=None)
            else:
                pf.end = "return"
                pf.ret_stmt = s
                if s.value is not None:
                    record_calls(s.value, s)
                    pf.ret = S(s.value)
        elif k == "raise":
            pf.end = "raise"
            pf.ret_stmt = s
        elif k == "end":
            if scope.parent is None:
                pf.end = "end"
    top = st_["scope"]
    while top.parent is not None:
        top = top.parent
    e = dict(heap)
    e.update(top.env)
    pf.env = e
    if pf.end is None:
        pf.end = "end"
    return pf


def _load(target):
    t = copy.deepcopy(target)
    for n in ast.walk(t):
        if hasattr(n, "ctx"):
            n.ctx = ast.Load()
    return t


def _assigned_in(stmts):
    out = set()
    for st in stmts:
        for n in ast.walk(st):
            if isinstance(n, (ast.Assign, ast.AugAssign, ast.AnnAssign, ast.For)):
                out |= _assigned_roots(n)
    return out


# --------------------------------------------------------------------------- structural must-pass-through

def outcomes(stmts, pred, hit=False):
    """Structural dataflow of one boolean ("a statement satisfying ``pred`` has executed").
    Returns the set of (kind, hit) with kind in fall/return/raise/break/continue."""
    cur = {hit}
    res = set()
    for s in stmts:
        if not cur:
            break
        nxt = set()
        for h in cur:
            if isinstance(s, ast.Return):
                res.add(("return", h or pred(s)))
            elif isinstance(s, ast.Raise):
                res.add(("raise", h))
            elif isinstance(s, ast.If):
                for br in (s.body, s.orelse):
                    for k, h2 in outcomes(br, pred, h):
                        (nxt if k == "fall" else res).add(h2 if k == "fall" else (k, h2))
            elif isinstance(s, (ast.For, ast.While, ast.AsyncFor)):
                nxt.add(h)
                for k, h2 in outcomes(s.body, pred, h):
                    if k in ("fall", "break", "continue"):
                        for k3, h3 in outcomes(s.orelse, pred, h2):
                            (nxt if k3 == "fall" else res).add(h3 if k3 == "fall" else (k3, h3))
                        nxt.add(h2)
                    else:
                        res.add((k, h2))
            elif isinstance(s, ast.Try):
                ends = set()
                for k, h2 in outcomes(s.body, pred, h):
                    if k == "fall":
                        for k3, h3 in outcomes(s.orelse, pred, h2):
                            ends.add((k3, h3))
                    else:
                        ends.add((k, h2))
                for hd in s.handlers:
                    for k, h2 in outcomes(hd.body, pred, h):
                        ends.add((k, h2))
                for k, h2 in ends:
                    for k3, h3 in outcomes(s.finalbody, pred, h2):
                        if k3 == "fall":
                            (nxt if k == "fall" else res).add(h3 if k == "fall" else (k, h3))
                        else:
                            res.add((k3, h3))
            elif isinstance(s, (ast.With, ast.AsyncWith)):
                for k, h2 in outcomes(s.body, pred, h):
                    (nxt if k == "fall" else res).add(h2 if k == "fall" else (k, h2))
            elif isinstance(s, ast.Break):
                res.add(("break", h))
            elif isinstance(s, ast.Continue):
                res.add(("continue", h))
            else:
                nxt.add(h or pred(s))
        cur = nxt
    for h in cur:
        res.add(("fall", h))
    return res


def always_before_exit(stmts, pred):
    return all(h for k, h in outcomes(stmts, pred) if k in ("fall", "return"))
