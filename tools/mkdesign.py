#!/venv/bin/python
"""Regenerate the generated parts of DESIGN.md: the per-property rule texts in 10.4 (from the EXPLANATION strings) and the detection
table 10.10 (from seeded/MATRIX.json)."""
import importlib, json, os, re, sys
V = os.path.dirname(os.path.dirname(os.path.abspath(__file__)))
sys.path.insert(0, V)
p = V + '/DESIGN.md'
s = open(p).read()
# ---- 10.4
a = s.index('**C01.** ')
b = s.index('### 10.5 ')
txt = ''
for i in range(1, 21):
    m = importlib.import_module('fxlint.rules.c%02d' % i)
    txt += '**C%02d.** %s\n\n' % (i, m.EXPLANATION)
s = s[:a] + txt + s[b:]
# ---- 10.10
m = json.load(open(V + '/seeded/MATRIX.json'))
def first_line(tag):
    n = '%s/seeded/%s/notes.md' % (V, tag)
    if os.path.exists(n):
        t = re.sub(r'[#*`>]', '', open(n).read())
        d = ' '.join(l.strip() for l in t.splitlines() if l.strip())
    else:
        mp = '%s/seeded/%s/meta.json' % (V, tag)
        d = ''
        if os.path.exists(mp):
            j = json.load(open(mp)); d = (j.get('what') or j.get('needs_to_manifest') or '')
    d = re.sub(r'^C\d\d\s*/\s*m\d\s*(--|-|—)\s*', '', d.strip())
    d = re.sub(r'^m\d\s*(--|-|—|–)\s*', '', d)
    d = re.sub(r'^Change\s*(\([^)]*\))?:?\s*', '', d)
    return d[:130].replace('|', '/').replace('\n', ' ').strip()
out = ["### 10.10 Detection table (generated from `seeded/MATRIX.json` by `tools/mkdesign.py`; `tools/matrix.py` produces the data)\n",
       "Own check = the check of the property the change was written to break; \"also\" = other checks that report it (their statements lean on the same code).  Entries are exit 1 with a VIOLATION line naming rule and site.\n",
       "| change | what it does (from the author's notes) | own check: rules that fire | also reported by |", "|---|---|---|---|"]
n_s = n_own = 0
for tag in sorted(m):
    res = m[tag]
    if os.path.isdir(V + '/benign/' + tag) or 'apply_failed' in res or not os.path.isdir(V + '/seeded/' + tag):
        continue
    mp = '%s/seeded/%s/meta.json' % (V, tag)
    meta = json.load(open(mp)) if os.path.exists(mp) else {}
    own = meta.get('property') or re.search(r'C\d\d', tag).group(0)
    fired = [q for q, v in res.items() if v['exit'] == 1]
    err2 = [q for q, v in res.items() if v['exit'] == 2]
    n_s += 1
    if own in res and res[own]['exit'] == 1:
        ownr = ', '.join(res[own]['rules']); n_own += 1
    elif meta.get('declined'):
        ownr = '**not reported** (declined clause, 10.6)'
    elif meta.get('known_miss'):
        ownr = '**MISSED** (known, 10.6)'
    else:
        ownr = '**MISSED**' + (' (exit 2)' if own in err2 else '')
    out.append("| %s | %s | %s: %s | %s |" % (tag, first_line(tag), own, ownr, ' '.join(q for q in fired if q != own)))
ben = [t for t in m if os.path.isdir(V + '/benign/' + t)]
sil = [t for t in ben if 'apply_failed' not in m[t] and all(v['exit'] == 0 for v in m[t].values())]
na = [t for t in ben if 'apply_failed' in m[t]]
alarm = [t for t in ben if t not in sil and t not in na]
out.append("\nSeeded changes: %d of %d reported by their own check.  Benign variants: %d of %d leave all 20 checks at exit 0, %d no longer apply to the fixed tree%s (`benign/MATRIX.md`)."
           % (n_own, n_s, len(sil), len(ben), len(na), (", ALARMS: " + ' '.join(alarm)) if alarm else ""))
a = s.index('### 10.10 ')
s = s[:a] + '\n'.join(out) + '\n'
open(p, 'w').write(s)
print('DESIGN.md regenerated: %d/%d seeded own-detected, %d/%d benign silent' % (n_own, n_s, len(sil), len(ben)))
