#!/venv/bin/python
"""Regenerate MANIFEST.json from the rule modules that exist (fxlint/rules/cNN.py) and NOT_APPLICABLE below."""
import glob, importlib, json, os, sys
V = os.path.dirname(os.path.dirname(os.path.abspath(__file__)))
sys.path.insert(0, V)
props = [json.loads(l) for l in open(V + '/properties.jsonl')]
TECH = {}
checks = []
na = []
for p in props:
    pid = p['id']
    path = V + '/fxlint/rules/%s.py' % pid.lower()
    if os.path.exists(path):
        mod = importlib.import_module('fxlint.rules.' + pid.lower())
        checks.append({
            "property_id": pid,
            "quick_cmd": "./check %s --tier quick" % pid,
            "thorough_cmd": "./check %s --tier thorough" % pid,
            "evidence_file": "/verif/evidence/%s.json" % pid,
            "replay_cmd_template": "./check --replay {path}",
            "engine": "fxlint",
            "level_claimed": {
                "category": "other",
                "text": "Static analysis of /repo/fxpmath/*.py on every run (nothing imported or executed). Decides the structural, "
                        "necessary clauses of the property for all inputs/paths/formats at once; the value-level residual is declared, not tested. "
                        + mod.EXPLANATION,
                "design_ref": "DESIGN.md section 4 (%s)" % pid},
            "level_note": "Trusted base: " + "; ".join(getattr(mod, 'TRUSTED', [])) + ". Assumptions: " + "; ".join(getattr(mod, 'ASSUMPTIONS', [])),
            "technique": getattr(mod, 'TECHNIQUE', "static analysis: custom AST checkers - structured path enumeration with control dependence, per-path provenance by substitution, canonical-term comparison of format formulas, call-graph ownership rules"),
        })
    else:
        na.append({"property_id": pid, "reason": "check not built yet (build in progress; see DESIGN.md section 9)"})
m = {
 "version": 1,
 "setup_cmd": "/venv/bin/python -m compileall -q fxlint && /venv/bin/python -c \"import sys; sys.path.insert(0,'.'); import fxlint.main\"",
 "hooks": {"guard": "FXPMATH_VERIF", "enable": "none: static checks read /repo/fxpmath/*.py as text; no instrumentation exists in /repo",
           "baseline_off_cmd": "cd /repo && /venv/bin/python -m pytest -ra -q -p no:cacheprovider --timeout=900 --continue-on-collection-errors",
           "source_commits": json.load(open(V + '/known_findings.json')).get('fix_commits', []) if os.path.exists(V + '/known_findings.json') else [],
           "add_only": True},
 "engines": [{"name": "fxlint", "path": "/verif/fxlint", "serves_properties": [c['property_id'] for c in checks],
              "kind_free_text": "repository-specific static analyser (stdlib ast only): program model + resolved calls, structured path enumeration with control dependence, per-path substitution/provenance, canonical terms (value numbering) with ordering facts, binary-scale typing of raw kernels, template-vs-regex language inclusion"}],
 "checks": checks,
 "notes": "Every check exits 0 / 1 (VIOLATION property=<id> replay=<path>) / 2 (ANALYSIS-ERROR or ANALYSIS-INCONCLUSIVE: no verdict claimed). Known findings live in /verif/known_findings.json. The checks take the tree from $FXLINT_REPO (default /repo).",
 "not_applicable": na,
}
json.dump(m, open(V + '/MANIFEST.json', 'w'), indent=1)
print(len(checks), 'checks,', len(na), 'not yet claimed')
