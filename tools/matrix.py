#!/venv/bin/python
"""Run every check against every seeded change (scratch copies) and write seeded/MATRIX.json + seeded/MATRIX.md."""
import glob, json, os, subprocess, sys, shutil
from concurrent.futures import ThreadPoolExecutor
V = os.path.dirname(os.path.dirname(os.path.abspath(__file__)))
sys.path.insert(0, V + '/tools')
props = ["C%02d" % i for i in range(1, 21)]

def run(d):
    patch = d + '/patch.diff'
    tag = os.path.basename(d)
    sc = '/tmp/fxl_matrix/' + tag
    shutil.rmtree(sc, ignore_errors=True); os.makedirs(sc)
    shutil.copytree('/repo/fxpmath', sc + '/fxpmath')
    r = subprocess.run(['patch', '-p1', '-s', '-i', patch], cwd=sc, capture_output=True, text=True)
    if r.returncode:
        return tag, {'apply_failed': r.stdout + r.stderr}
    env = dict(os.environ, FXLINT_REPO=sc, FXLINT_EVIDENCE_DIR=sc + '/ev')
    res = {}
    plist = props
    if OWN_ONLY:
        import re as _re
        mp = d + '/meta.json'
        own = (json.load(open(mp)).get('property') if os.path.exists(mp) else None) or _re.search(r'C\d\d', tag).group(0)
        plist = [own]
    for p in plist:
        r = subprocess.run([V + '/check', p], env=env, capture_output=True, text=True, cwd=V)
        rules = sorted({l.split()[1].rstrip(':') for l in r.stdout.splitlines() if l.startswith('  rule ')})
        res[p] = {'exit': r.returncode, 'rules': rules}
    shutil.rmtree(sc, ignore_errors=True)
    return tag, res

OWN_ONLY = '--own' in sys.argv          # seeded changes: run only the check of the property the change was written to break (merged into the stored row)
if OWN_ONLY:
    sys.argv.remove('--own')
dirs = sorted(d for d in glob.glob(V + '/seeded/*') if os.path.isdir(d)) + ([] if OWN_ONLY else sorted(d for d in glob.glob(V + '/benign/*') if os.path.isdir(d)))
if len(sys.argv) > 1:
    dirs = [d for d in dirs if any(a in d for a in sys.argv[1:])]
out = {}
with ThreadPoolExecutor(15) as ex:
    for tag, res in ex.map(run, dirs):
        out[tag] = res
        fired = [p for p, v in res.items() if isinstance(v, dict) and v.get('exit') == 1]
        err = [p for p, v in res.items() if isinstance(v, dict) and v.get('exit') == 2]
        print(tag, 'fired', fired, 'exit2', err, flush=True)
mp = V + '/seeded/MATRIX.json'
old = json.load(open(mp)) if os.path.exists(mp) and len(sys.argv) > 1 else {}
if OWN_ONLY:
    for tag, res in out.items():
        if 'apply_failed' in res or tag not in old or 'apply_failed' in old[tag]:
            old[tag] = res if 'apply_failed' in res or tag not in old else dict(old[tag], **res) if 'apply_failed' not in old[tag] else res
        else:
            old[tag] = dict(old[tag], **res)
else:
    old.update(out)
json.dump(old, open(mp, 'w'), indent=1, sort_keys=True)
with open(V + '/benign/MATRIX.md', 'w') as fh:
    fh.write('| behaviour-preserving variant | checks that raise an alarm (must be none) | exit 2 |\n|---|---|---|\n')
    for tag in sorted(old):
        if os.path.isdir(V + '/benign/' + tag) and 'apply_failed' not in old[tag]:
            res = old[tag]
            fh.write('| %s | %s | %s |\n' % (tag, ' '.join(p for p, v in res.items() if v['exit'] == 1) or 'none', ' '.join(p for p, v in res.items() if v['exit'] == 2) or 'none'))
with open(V + '/seeded/MATRIX.md', 'w') as fh:
    fh.write('| seeded change | breaks | own check fires (rules) | other checks that fire | exit 2 |\n|---|---|---|---|---|\n')
    for tag in sorted(old):
        res = old[tag]
        if os.path.isdir(V + '/benign/' + tag):
            continue
        if 'apply_failed' in res:
            fh.write('| %s | - | patch no longer applies | | |\n' % tag); continue
        own = tag.split('-')[0]
        metaf = V + '/seeded/%s/meta.json' % tag
        if os.path.exists(metaf):
            own = json.load(open(metaf)).get('property', own)
        fired = [p for p, v in res.items() if v['exit'] == 1]
        ownr = ', '.join(res[own]['rules']) if own in res and res[own]['exit'] == 1 else ('**MISSED**' if own in res else '')
        fh.write('| %s | %s | %s | %s | %s |\n' % (tag, own, ownr, ' '.join(p for p in fired if p != own), ' '.join(p for p, v in res.items() if v['exit'] == 2)))
