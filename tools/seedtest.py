#!/venv/bin/python
"""Development helper: run the checks against seeded changes on scratch copies of /repo/fxpmath.
usage: tools/seedtest.py <dir-with-m*/patch.diff or patch files...> [--props C01,C02] 
Each patch is applied to a fresh copy under /tmp/fxl_scratch (removed afterwards); /repo is not touched."""
import os, shutil, subprocess, sys, glob, json
from concurrent.futures import ThreadPoolExecutor
V = os.path.dirname(os.path.dirname(os.path.abspath(__file__)))

def run_patch(patch, props):
    tag = patch.replace('/', '_')
    d = '/tmp/fxl_scratch/' + tag
    shutil.rmtree(d, ignore_errors=True)
    os.makedirs(d)
    shutil.copytree('/repo/fxpmath', d + '/fxpmath')
    r = subprocess.run(['patch', '-p1', '-s', '-i', os.path.abspath(patch)], cwd=d, capture_output=True, text=True)
    if r.returncode != 0:
        shutil.rmtree(d, ignore_errors=True)
        return patch, {'apply': 'FAILED ' + r.stdout + r.stderr}
    res = {}
    env = dict(os.environ, FXLINT_REPO=d, FXLINT_EVIDENCE_DIR=d + '/ev')
    for p in props:
        r = subprocess.run([V + '/check', p], env=env, capture_output=True, text=True, cwd=V)
        lines = [l for l in r.stdout.splitlines() if l.startswith(('VIOLATION', '  rule', '  found', 'ANALYSIS'))]
        res[p] = (r.returncode, lines)
    shutil.rmtree(d, ignore_errors=True)
    return patch, res

def main():
    args = sys.argv[1:]
    props = None
    if '--props' in args:
        i = args.index('--props'); props = args[i+1].split(','); del args[i:i+2]
    verbose = '-v' in args
    args = [a for a in args if a != '-v']
    patches = []
    for a in args:
        if os.path.isdir(a):
            patches += sorted(glob.glob(a + '/m*/patch.diff')) or sorted(glob.glob(a + '/*/patch.diff')) or sorted(glob.glob(a + '/patch.diff'))
        else:
            patches.append(a)
    if props is None:
        props = sorted(os.path.basename(f)[:-3].upper() for f in glob.glob(V + '/fxlint/rules/c[0-9][0-9].py'))
    with ThreadPoolExecutor(int(os.environ.get("JOBS", "8"))) as ex:
        for patch, res in ex.map(lambda p: run_patch(p, props), patches):
            if 'apply' in res:
                print(patch, res['apply']); continue
            fired = [p for p, (c, l) in res.items() if c == 1]
            err = [p for p, (c, l) in res.items() if c == 2]
            print('%-40s fired=%s err=%s' % (patch.replace('/tmp/seed/', ''), fired, err))
            if verbose:
                for p, (c, l) in res.items():
                    for x in l: print('      ', p, x[:220])

main()
