#!/venv/bin/python
"""Confirm benign refactorings: patch applies to /repo HEAD in a scratch worktree and the pinned suite result is unchanged.
Confirmed ones are copied to /verif/benign/<name>/ (patch.diff, notes.md, meta.json)."""
import json, os, shutil, subprocess, sys, glob, re
from concurrent.futures import ThreadPoolExecutor
BASE_FAIL = {'test_numpy_ufunc', 'test_issue_77_v0_4_8', 'test_pow'}
def sh(cmd, cwd=None, timeout=1800):
    r = subprocess.run(cmd, shell=True, cwd=cwd, capture_output=True, text=True, timeout=timeout)
    return r.returncode, r.stdout + r.stderr
def confirm(d):
    name = os.path.basename(d.rstrip('/'))
    wt = '/tmp/confirmb/' + name
    shutil.rmtree(wt, ignore_errors=True)
    sh('git -C /repo worktree prune')
    sh('git -C /repo worktree add -q --detach %s HEAD' % wt)
    res = {'name': name}
    try:
        rc, out = sh('git apply %s/patch.diff' % d, cwd=wt)
        res['apply'] = rc
        if rc == 0:
            rc, out = sh('/venv/bin/python -m pytest -q -p no:cacheprovider --timeout=900 -n 2 2>&1 | tail -8', cwd=wt)
            m = re.search(r'(\d+) failed, (\d+) passed', out)
            failed = set(re.findall(r'FAILED \S+::(\w+)', out))
            res['tests'] = m.group(0) if m else out[-200:]
            res['ok'] = bool(m) and int(m.group(2)) == 86 and failed == BASE_FAIL
    finally:
        sh('git -C /repo worktree remove --force %s' % wt)
        shutil.rmtree(wt, ignore_errors=True)
    if res.get('ok'):
        dst = '/verif/benign/' + name
        os.makedirs(dst, exist_ok=True)
        shutil.copy(d + '/patch.diff', dst + '/patch.diff')
        if os.path.exists(d + '/notes.md'):
            shutil.copy(d + '/notes.md', dst + '/notes.md')
        json.dump({'kind': 'behaviour-preserving refactoring', 'origin': 'independent sub-agent given only a focus area and a scratch worktree; verified by its own differential driver',
                   'confirmed_by': {'suite_with_patch': res['tests'], 'command': 'tools/confirm_benign.py'}}, open(dst + '/meta.json', 'w'), indent=1)
    return res
os.makedirs('/tmp/confirmb', exist_ok=True)
dirs = sys.argv[1:] or sorted(glob.glob('/tmp/benign_in/*/'))
with ThreadPoolExecutor(7) as ex:
    for r in ex.map(confirm, dirs):
        print(json.dumps(r))
shutil.rmtree('/tmp/confirmb', ignore_errors=True)
