#!/bin/bash
# usage: tools/runpatch.sh <patch> <prop> [args]  -- run one check on a scratch copy with the patch applied (development helper)
d=/tmp/fxl_scratch/rp_$$; rm -rf $d; mkdir -p $d; cp -r /repo/fxpmath $d/; (cd $d && patch -p1 -s -i "$1") || exit 3
FXLINT_REPO=$d FXLINT_EVIDENCE_DIR=$d/ev /verif/check "${@:2}"; rc=$?; rm -rf $d; exit $rc
