#!/venv/bin/python
"""Confirm seeded changes independently: for each <src>/mK/{patch.diff,demo.py,notes.md}
 1. demo passes on a clean scratch worktree of /repo HEAD; 2. patch applies; 3. demo fails with the patch;
 4. the pinned suite still gives the baseline (86 pass, same 3 failing).
Confirmed ones are copied to /verif/seeded/<prop>-<k>/ with meta.json.  Scratch worktrees are removed."""
import json, os, shutil, subprocess, sys, glob, re
from concurrent.futures import ThreadPoolExecutor
V = '/verif'
BASE_FAIL = {'test_numpy_ufunc', 'test_issue_77_v0_4_8', 'test_pow'}

def sh(cmd, cwd=None, env=None, timeout=1800):
    r = subprocess.run(cmd, shell=True, cwd=cwd, env=env, capture_output=True, text=True, timeout=timeout)
    return r.returncode, r.stdout + r.stderr

def confirm(args):
    prop, k, d = args
    wt = '/tmp/confirm/%s_%s' % (prop, k)
    shutil.rmtree(wt, ignore_errors=True)
    sh('git -C /repo worktree prune')
    rc, out = sh('git -C /repo worktree add -q --detach %s HEAD' % wt)
    res = {'prop': prop, 'k': k}
    try:
        env = dict(os.environ, PYTHONPATH=wt)
        rc, out = sh('/venv/bin/python %s/demo.py' % d, cwd=wt, env=env, timeout=600)
        res['demo_clean'] = rc
        rc, out = sh('git apply %s/patch.diff' % d, cwd=wt)
        res['apply'] = rc
        if rc != 0:
            res['apply_out'] = out[-300:]
            return res
        rc, out = sh('/venv/bin/python %s/demo.py' % d, cwd=wt, env=env, timeout=600)
        res['demo_patched'] = rc
        res['demo_tail'] = out.strip().splitlines()[-1][:200] if out.strip() else ''
        rc, out = sh('/venv/bin/python -m pytest -q -p no:cacheprovider --timeout=900 -n 2 2>&1 | tail -8', cwd=wt)
        m = re.search(r'(\d+) failed, (\d+) passed', out)
        failed = set(re.findall(r'FAILED \S+::(\w+)', out))
        res['tests'] = (m.group(0) if m else out[-200:])
        res['tests_ok'] = bool(m) and int(m.group(2)) == 86 and failed == BASE_FAIL
    finally:
        sh('git -C /repo worktree remove --force %s' % wt)
        shutil.rmtree(wt, ignore_errors=True)
    res['confirmed'] = res.get('demo_clean') == 0 and res.get('apply') == 0 and res.get('demo_patched', 0) != 0 and res.get('tests_ok', False)
    if res['confirmed']:
        dst = '%s/seeded/%s%s-m%s' % (V, os.environ.get('SEED_PREFIX', ''), prop, k)
        os.makedirs(dst, exist_ok=True)
        for fn in ('patch.diff', 'demo.py', 'notes.md'):
            if os.path.exists(d + '/' + fn):
                shutil.copy(d + '/' + fn, dst + '/' + fn)
        notes = open(d + '/notes.md').read() if os.path.exists(d + '/notes.md') else ''
        meta = {'property': prop, 'origin': 'independent sub-agent given only the property text and a scratch worktree',
                'needs_to_manifest': notes.strip()[:1500],
                'confirmed_by': {'demo_on_clean_tree_exit': res['demo_clean'], 'demo_with_patch_exit': res['demo_patched'],
                                 'suite_with_patch': res['tests'], 'command': 'tools/confirm_seeds.py (scratch git worktree of /repo HEAD; git apply; PYTHONPATH=<wt> /venv/bin/python demo.py; pytest -n 2)'},
                'repo_head': subprocess.check_output('git -C /repo rev-parse --short HEAD', shell=True, text=True).strip()}
        json.dump(meta, open(dst + '/meta.json', 'w'), indent=1)
    return res

def main():
    srcs = sys.argv[1:] or sorted(glob.glob('/tmp/seed/C*_out'))
    jobs = []
    for s in srcs:
        prop = re.search(r'(C\d\d)', s).group(1)
        for d in sorted(glob.glob(s + '/m*')):
            if os.path.exists(d + '/patch.diff') and os.path.exists(d + '/demo.py'):
                jobs.append((prop, d[-1], d))
    os.makedirs('/tmp/confirm', exist_ok=True)
    with ThreadPoolExecutor(7) as ex:
        for r in ex.map(confirm, jobs):
            print(json.dumps(r))
    shutil.rmtree('/tmp/confirm', ignore_errors=True)
main()
