#!/venv/bin/python
"""Development helper: print the normalised source of a function after applying a patch to a scratch copy.
usage: tools/shownorm.py <patch.diff|-> <qualname> [...]"""
import os, sys, shutil, subprocess, ast
V = os.path.dirname(os.path.dirname(os.path.abspath(__file__)))
sys.path.insert(0, V)
patch = sys.argv[1]
d = '/tmp/fxl_scratch/shownorm_%d' % os.getpid()
shutil.rmtree(d, ignore_errors=True); os.makedirs(d)
shutil.copytree('/repo/fxpmath', d + '/fxpmath')
if patch != '-':
    subprocess.run(['patch', '-p1', '-s', '-i', os.path.abspath(patch)], cwd=d, check=True)
from fxlint.model import Program
prog = Program(d)
for q in sys.argv[2:]:
    print(ast.unparse(prog.funcs[q].node))
print(prog.normalized)
shutil.rmtree(d, ignore_errors=True)
