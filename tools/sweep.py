#!/venv/bin/python
"""Development aid (not a registered check): systematic single-point syntactic mutants of the functions a property's rules analysed, each
analysed *statically* by that property's check on an in-memory variant of the tree (Program(overrides=...)); nothing is executed.

It answers "how much of the anchored code do the rules actually constrain?": a mutant the check does not report is either
behaviour-preserving / outside the property, or a blind spot worth reading.  The list of survivors is written to
/tmp/SWEEP-<prop>.json for review; it is evidence of sensitivity, not a verdict.

usage: tools/sweep.py C13 [--max 200] [--jobs 16]
"""
import ast, copy, json, os, random, sys
from concurrent.futures import ProcessPoolExecutor
V = os.path.dirname(os.path.dirname(os.path.abspath(__file__)))
sys.path.insert(0, V)

CMP = {ast.Lt: ast.LtE, ast.LtE: ast.Lt, ast.Gt: ast.GtE, ast.GtE: ast.Gt, ast.Eq: ast.NotEq, ast.NotEq: ast.Eq, ast.Is: ast.IsNot, ast.IsNot: ast.Is}
BIN = {ast.Add: ast.Sub, ast.Sub: ast.Add, ast.Mult: ast.FloorDiv, ast.FloorDiv: ast.Mult, ast.LShift: ast.RShift, ast.RShift: ast.LShift,
       ast.BitAnd: ast.BitOr, ast.BitOr: ast.BitAnd, ast.Div: ast.Mult, ast.Pow: ast.Mult, ast.Mod: ast.FloorDiv}


def mutation_points(fn):
    """[(kind, node index in ast.walk order)] for one function"""
    pts = []
    for i, n in enumerate(ast.walk(fn)):
        if isinstance(n, ast.Compare) and len(n.ops) == 1 and type(n.ops[0]) in CMP:
            pts.append(("cmp", i))
        elif isinstance(n, ast.BinOp) and type(n.op) in BIN:
            pts.append(("bin", i))
        elif isinstance(n, ast.Constant) and isinstance(n.value, bool):
            pts.append(("bool", i))
        elif isinstance(n, ast.Constant) and isinstance(n.value, int) and not isinstance(n.value, bool) and abs(n.value) <= 64:
            pts.append(("int", i))
        elif isinstance(n, ast.If):
            pts.append(("negif", i))
        elif isinstance(n, (ast.Assign, ast.AugAssign, ast.Expr)) and not (isinstance(n, ast.Expr) and isinstance(n.value, ast.Constant)):
            pts.append(("del", i))
        elif isinstance(n, ast.BoolOp):
            pts.append(("boolop", i))
    return pts


def apply_point(fn, kind, idx):
    fn = copy.deepcopy(fn)
    nodes = list(ast.walk(fn))
    n = nodes[idx]
    if kind == "cmp":
        n.ops = [CMP[type(n.ops[0])]()]
    elif kind == "bin":
        n.op = BIN[type(n.op)]()
    elif kind == "bool":
        n.value = not n.value
    elif kind == "int":
        n.value = n.value + 1
    elif kind == "negif":
        n.test = ast.UnaryOp(op=ast.Not(), operand=n.test)
    elif kind == "boolop":
        n.op = ast.Or() if isinstance(n.op, ast.And) else ast.And()
    elif kind == "del":
        # replace the statement by `pass` (keeps the block non-empty)
        for p in nodes:
            for fld in ("body", "orelse", "finalbody"):
                v = getattr(p, fld, None)
                if isinstance(v, list):
                    for j, x in enumerate(v):
                        if x is n:
                            v[j] = ast.copy_location(ast.Pass(), n)
    return fn


def job(args):
    prop, mod, qual, kind, idx, text = args
    os.environ["FXLINT_EVIDENCE_DIR"] = "/tmp/fxl_sweep_ev"
    from fxlint import selfcheck
    try:
        viol, inc, ck = selfcheck.analyse(prop, root=os.environ.get("FXLINT_REPO", "/repo"), overrides={mod: text})
    except Exception as e:
        return (qual, kind, idx, "error", repr(e)[:80])
    if viol:
        return (qual, kind, idx, "reported", sorted({o.rule for o in viol})[:3])
    if viol is None or inc:
        return (qual, kind, idx, "inconclusive", [str(getattr(x, "what", x))[:60] for x in (inc or [])][:2])
    return (qual, kind, idx, "silent", None)


def main():
    prop = sys.argv[1].upper()
    mx = int(sys.argv[sys.argv.index("--max") + 1]) if "--max" in sys.argv else 200
    jobs = int(sys.argv[sys.argv.index("--jobs") + 1]) if "--jobs" in sys.argv else 16
    os.environ["FXLINT_NO_NORMALIZE"] = "1"
    from fxlint.model import Program
    raw = Program()          # unnormalised trees: mutants are made on the source as written
    os.environ.pop("FXLINT_NO_NORMALIZE")
    from fxlint import selfcheck
    viol, inc, ck = selfcheck.analyse(prop)
    funcs = sorted(ck.analysed["functions"])
    todo = []
    for q in funcs:
        f = raw.funcs.get(q)
        if f is None or f.parent is not None:
            continue
        for kind, idx in mutation_points(f.node):
            todo.append((q, kind, idx))
    random.Random(1).shuffle(todo)
    todo = todo[:mx]
    work = []
    for q, kind, idx in todo:
        f = raw.funcs[q]
        tree = copy.deepcopy(raw.modules[f.module])
        # locate the same function in the copy
        target = None
        for n in ast.walk(tree):
            if isinstance(n, ast.FunctionDef) and n.name == f.node.name and n.lineno == f.node.lineno:
                target = n
        new = apply_point(target, kind, idx)
        for p in ast.walk(tree):
            for fld in ("body",):
                v = getattr(p, fld, None)
                if isinstance(v, list):
                    for j, x in enumerate(v):
                        if x is target:
                            v[j] = new
        try:
            text = ast.unparse(ast.fix_missing_locations(tree))
            compile(text, "<mutant>", "exec")
        except Exception:
            continue
        work.append((prop, f.module, q, kind, idx, text))
    res = []
    with ProcessPoolExecutor(jobs) as ex:
        for r in ex.map(job, work):
            res.append(r)
    summ = {}
    for q, kind, idx, st, info in res:
        summ[st] = summ.get(st, 0) + 1
    out = {"property": prop, "functions": funcs, "mutants": len(res), "summary": summ,
           "survivors": [{"function": q, "kind": kind, "node": idx} for q, kind, idx, st, info in res if st == "silent"]}
    json.dump(out, open("/tmp/SWEEP-%s.json" % prop, "w"), indent=1)
    print(prop, len(res), "mutants:", summ)


main()
